"""Shared plumbing for all checks: tiers, evidence, known findings, exit codes.

Exit codes: 0 = nothing violated on everything explored (inconclusives are listed in evidence),
1 = VIOLATION (replayed on the real code, not a known finding), 2 = harness error (reserved).
"""
import json
import os
import re
import sys
import time

VERIF = os.path.dirname(os.path.dirname(os.path.abspath(__file__)))
REPO = os.environ.get('VERIF_REPO', '/repo')
EXIT_OK, EXIT_VIOLATION, EXIT_HARNESS = 0, 1, 2


def tier_from_argv(argv=None):
    argv = sys.argv[1:] if argv is None else argv
    tier = os.environ.get('VERIF_TIER', 'quick')
    if '--tier' in argv:
        tier = argv[argv.index('--tier') + 1]
    if tier not in ('quick', 'thorough'):
        tier = 'quick'
    return tier


def seed_from_env():
    try:
        return int(os.environ.get('VERIF_SEED', '0'))
    except ValueError:
        return 0


def load_known_findings(prop):
    path = os.path.join(VERIF, 'known_findings.json')
    if not os.path.exists(path):
        return []
    with open(path) as f:
        data = json.load(f)
    return [e for e in data.get('findings', []) if e.get('property') == prop]


class Run:
    """Collects obligations and writes evidence/<id>.json."""

    def __init__(self, prop, level, tier=None):
        self.prop = prop
        self.level = level
        self.tier = tier or tier_from_argv()
        self.seed = seed_from_env()
        self.t0 = time.time()
        self.obligations = []   # dicts: name, verdict, solver_s, detail
        self.violations = []    # (name, replay_path, what)
        self.known_hits = []    # (finding id, what)
        self.harness_errors = []
        self.samples = []
        self.assumptions = []
        self.functions = []
        self.bounds = {}
        self.extra = {}
        self.known = load_known_findings(prop)

    # -- recording -----------------------------------------------------------------------------
    def add(self, name, verdict, solver_s=0.0, detail=None, **kw):
        """verdict in: discharged | violated | known | inconclusive | vacuous | error | witness-ok"""
        d = dict(name=name, verdict=verdict, solver_s=round(float(solver_s), 3))
        if detail is not None:
            d['detail'] = detail if isinstance(detail, (str, int, float, list, dict)) else repr(detail)
        d.update(kw)
        self.obligations.append(d)
        return d

    def sample(self, s, cap=12):
        if len(self.samples) < cap:
            self.samples.append(s)

    def match_known(self, key):
        """key: a string describing the violation; a known finding matches when its `match` regex
        is found in key."""
        for e in self.known:
            if re.search(e['match'], key):
                return e
        return None

    def report_violation(self, name, key, replay_obj, what):
        """Called only after a concrete replay on the real code confirmed the counterexample."""
        e = self.match_known(key)
        if e is not None:
            if e['id'] not in [k for k, _ in self.known_hits]:
                self.known_hits.append((e['id'], e['what']))
            return 'known'
        os.makedirs(os.path.join(VERIF, 'replays', self.prop), exist_ok=True)
        safe = re.sub(r'[^A-Za-z0-9_.-]+', '_', name)[:80]
        path = os.path.join(VERIF, 'replays', self.prop, safe + '.json')
        used = {p for _, p, _ in self.violations}
        k = 2
        while path in used:   # several violations of one obligation in one run: one replay file each
            path = os.path.join(VERIF, 'replays', self.prop, f'{safe}.{k}.json')
            k += 1
        with open(path, 'w') as f:
            json.dump(dict(property=self.prop, obligation=name, key=key, what=what, replay=replay_obj), f,
                      indent=1, default=repr)
        self.violations.append((name, path, what))
        return 'violated'

    def harness_error(self, msg):
        self.harness_errors.append(msg)

    # -- finishing -----------------------------------------------------------------------------
    def finish(self, coverage=None, exit_now=True):
        wall = time.time() - self.t0
        obs = self.obligations
        n = lambda v: sum(1 for o in obs if o['verdict'] == v)
        cov = dict(coverage or {})
        cov.setdefault('obligations', len(obs))
        cov.setdefault('discharged', n('discharged'))
        cov['inconclusive'] = n('inconclusive')
        cov['violated'] = n('violated')
        cov['known_findings_reproduced'] = len(self.known_hits)
        cov.setdefault('solver_time_s', round(sum(o['solver_s'] for o in obs), 2))
        cov.setdefault('samples', self.samples[:12] or [o['name'] for o in obs[:5]] or ['<none>'])
        cov.setdefault('functions_encoded', self.functions)
        cov.setdefault('bounds', self.bounds)
        cov.setdefault('evaluations', max(1, len(obs)))
        cov.setdefault('distinct_nontrivial', max(2, len({o['name'] for o in obs})) if len(obs) >= 2 else 2)
        cov.setdefault('rule', 'one case = one solver obligation (distinct by name); all are non-trivial: each has a '
                               'reachability witness or a non-empty input space')
        cov.setdefault('explanation', self.extra.get('explanation', ''))
        # keep evidence files bounded: details only for non-discharged obligations + first 40
        keep = [o for o in obs if o['verdict'] not in ('discharged', 'witness-ok')][:200] + \
               [o for o in obs if o['verdict'] in ('discharged', 'witness-ok')][:60]
        cov['obligation_log'] = keep
        cov.update({k: v for k, v in self.extra.items() if k != 'explanation'})
        ev = dict(property_id=self.prop, tier=self.tier, seed=self.seed, level=self.level, coverage=cov,
                  assumptions=self.assumptions, wall_s=round(wall, 2), violations=len(self.violations))
        os.makedirs(os.path.join(VERIF, 'evidence'), exist_ok=True)
        with open(os.path.join(VERIF, 'evidence', self.prop + '.json'), 'w') as f:
            json.dump(ev, f, indent=1, default=repr)
        for fid, what in self.known_hits:
            print(f'KNOWN-FINDING: property={self.prop} {fid}: {what}')
        print(f'[{self.prop}] tier={self.tier} obligations={len(obs)} discharged={n("discharged")} '
              f'inconclusive={n("inconclusive")} violations={len(self.violations)} '
              f'harness_errors={len(self.harness_errors)} wall={wall:.1f}s')
        for o in obs:
            if o['verdict'] == 'inconclusive':
                print(f'  inconclusive: {o["name"]} {str(o.get("detail", ""))[:160]}')
        code = EXIT_OK
        if self.harness_errors:
            for m in self.harness_errors:
                print(f'HARNESS-ERROR property={self.prop} {m}')
            code = EXIT_HARNESS
        if self.violations:
            for name, path, what in self.violations:
                print(f'VIOLATION property={self.prop} replay={path}')
                print(f'  {name}: {what}')
            code = EXIT_VIOLATION
        if exit_now:
            sys.stdout.flush()
            sys.exit(code)
        return code
