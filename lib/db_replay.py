"""Re-enact a C16 crash-workload counterexample on a REAL temp directory with real pharmpy models, the real
LocalModelDirectoryDatabase, real path locks and the real writers; the crash is injected at the same file-system
operation count through the same entry points the symbolic harness models.

    python db_replay.py '{"k":5,"a":1,"b":2,"share2":true,"share3":false,"restore_first":true}'
prints REPLAY {"ok": bool|null, ...}; ok=False: reproduced on the real code.
"""
import json
import pathlib
import shutil
import sys
import tempfile
import warnings

warnings.simplefilter('ignore')

import pharmpy.workflows.model_database.local_directory as ld  # noqa: E402
from pharmpy.model import DataInfo  # noqa: E402
from pharmpy.modeling import fix_parameters, load_example_model, set_name  # noqa: E402
from pharmpy.workflows import ModelEntry  # noqa: E402


class Crash(BaseException):
    pass


class Counter:
    def __init__(self, crash_at):
        self.n = 0
        self.crash_at = crash_at
        self.depth = 0      # >0 while inside a real writer (its internal fs calls are not protocol operations)

    def op(self):
        if self.depth:
            return
        self.n += 1
        if self.n == self.crash_at:
            raise Crash()


C = Counter(-1)
P = pathlib.PosixPath
_real = {n: getattr(P, n) for n in ('mkdir', 'touch', 'unlink')}


def _mkdir(self, mode=0o777, parents=False, exist_ok=False):
    if not self.is_dir():
        C.op()
    C.depth += 1        # pathlib re-enters mkdir for the parents: still one protocol operation
    try:
        return _real['mkdir'](self, mode=mode, parents=parents, exist_ok=exist_ok)
    finally:
        C.depth -= 1


def _touch(self, mode=0o666, exist_ok=True):
    if not self.exists():
        C.op()
    return _real['touch'](self, mode=mode, exist_ok=exist_ok)


def _unlink(self, missing_ok=False):
    if self.exists():
        C.op()
    return _real['unlink'](self, missing_ok=missing_ok)


def _two_phase(path, writer):
    C.op()
    open(path, 'w').close()      # created / truncated
    C.op()
    C.depth += 1
    try:
        return writer()
    finally:
        C.depth -= 1


def install():
    P.mkdir, P.touch, P.unlink = _mkdir, _touch, _unlink
    real_csv, real_model, real_tojson = ld.write_csv, ld.write_model, DataInfo.to_json
    ld.write_csv = lambda model, path=None, force=False: _two_phase(path, lambda: real_csv(model, path=path, force=force))
    ld.write_model = lambda model, path, force=False: _two_phase(path, lambda: real_model(model, path, force=force))

    def to_json(self, path=None):
        if path is None:
            return real_tojson(self)
        return _two_phase(path, lambda: real_tojson(self, path))
    DataInfo.to_json = to_json


def models(share2, share3):
    m1 = set_name(load_example_model('pheno'), 'm1')

    def variant(i, share):
        m = fix_parameters(m1, ['POP_CL'] if i == 2 else ['POP_VC'])
        if not share:
            df = m.dataset.copy()
            df.loc[df.index[0], 'WGT'] = float(df['WGT'].iloc[0]) + i
            m = m.replace(dataset=df)
        return set_name(m, f'm{i}')
    return {1: m1, 2: variant(2, share2), 3: variant(3, share3)}


def store(db, m):
    with db.transaction(ModelEntry.create(m)) as txn:
        txn.store_model()


def retrieve(db, m):
    with db.snapshot(m) as sn:
        return sn.retrieve_model()


def complete(m, got):
    try:
        if got.statements != m.statements or got.parameters != m.parameters:
            return False
        return got.dataset is not None and got.dataset.equals(m.dataset)
    except Exception:
        return False


def main(d):
    install()
    ms = models(d['share2'], d['share3'])
    tmp = tempfile.mkdtemp(prefix='c16replay')
    try:
        C.crash_at = d['k']
        C.n = 0
        db = ld.LocalModelDirectoryDatabase(tmp + '/db')
        C.n = 0
        committed, crashed_in, current = [], None, None
        try:
            for x in (d['a'], d['b']):
                current = x
                store(db, ms[x])
                committed.append(x)
        except Crash:
            crashed_in = current
        C.crash_at = -1
        db = ld.LocalModelDirectoryDatabase(tmp + '/db')
        for x in (1, 2, 3):
            try:
                got = retrieve(db, ms[x])
            except ld.PendingTransactionError:
                if x in committed and x != crashed_in:
                    return dict(ok=False, what=f'committed model {x} refused as pending')
                continue
            except KeyError:
                if x in committed:
                    return dict(ok=False, what=f'committed model {x} lost')
                continue
            except Exception as e:
                return dict(ok=False, what=f'reader of model {x} got a partial entry: {type(e).__name__}: {e}'[:300])
            if not complete(ms[x], got):
                return dict(ok=False, what=f'model {x} retrieved but not equivalent to what was stored')
        order = (1, 2, 3) if d['restore_first'] else (3, 2, 1)
        for x in order:
            try:
                store(db, ms[x])
            except ld.PendingTransactionError:
                if x != crashed_in:
                    return dict(ok=False, what=f'store of model {x} refused as pending although it never crashed')
                continue
            except Exception as e:
                return dict(ok=False, what=f'store of model {x} after the crash of model {crashed_in} failed: '
                                           f'{type(e).__name__}: {e}'[:300])
            try:
                got = retrieve(db, ms[x])
            except Exception as e:
                return dict(ok=False, what=f'model {x} stored but not retrievable: {type(e).__name__}: {e}'[:300])
            if not complete(ms[x], got):
                return dict(ok=False, what=f'model {x} stored, retrieved, but not equivalent')
        return dict(ok=True, crashed_in=crashed_in, committed=committed)
    finally:
        shutil.rmtree(tmp, ignore_errors=True)


def main_many(d):
    """n models with pairwise different datasets stored one after the other on a real directory, model `again` stored
    a second time; every entry must come back with its own dataset."""
    m1 = set_name(load_example_model('pheno'), 'm1')
    ms = {}
    for i in range(1, d['n'] + 1):
        df = m1.dataset.copy()
        df.loc[df.index[0], 'WGT'] = float(df['WGT'].iloc[0]) + i
        ms[i] = set_name(m1.replace(dataset=df), f'm{i}')
    tmp = tempfile.mkdtemp(prefix='c16many')
    try:
        for i in range(1, d['n'] + 1):
            store(ld.LocalModelDirectoryDatabase(tmp + '/db'), ms[i])
        store(ld.LocalModelDirectoryDatabase(tmp + '/db'), ms[d['again']])
        db = ld.LocalModelDirectoryDatabase(tmp + '/db')
        for i in range(1, d['n'] + 1):
            try:
                got = retrieve(db, ms[i])
            except Exception as e:
                return dict(ok=False, what=f'model {i} of {d["n"]} not retrievable: {type(e).__name__}: {e}'[:300])
            if not complete(ms[i], got):
                return dict(ok=False, what=f'model {i} of {d["n"]} retrieved with a dataset that is not its own')
        return dict(ok=True, n=d['n'])
    finally:
        shutil.rmtree(tmp, ignore_errors=True)


def main_results(d):
    """one model stored with results r1, then with results r2 (0 = none), optionally another model in between; the
    reader must get the latest committed results (real ModelfitResults objects told apart by their ofv)."""
    import dataclasses
    from pharmpy.tools import load_example_modelfit_results
    base = load_example_modelfit_results('pheno')
    m1 = set_name(load_example_model('pheno'), 'm1')
    m2 = set_name(fix_parameters(m1, ['POP_CL']), 'm2')

    from pharmpy.workflows.log import Log
    msgs = [f'step {i}: message, with "quotes" and a second clause' for i in range(12)]

    def res(r):
        if r == 0:
            return None
        log = Log()
        for i, t in enumerate(msgs):
            log = log.log_warning(t) if i % 3 else log.log_error(t)
        return dataclasses.replace(base, ofv=100.0 + r, log=log)

    def put(db, m, r):
        with db.transaction(ModelEntry.create(m, modelfit_results=res(r))) as txn:
            txn.store_model_entry()

    def get(db, m):
        with db.snapshot(m) as sn:
            return sn.retrieve_modelfit_results()
    tmp = tempfile.mkdtemp(prefix='c16res')
    try:
        put(ld.LocalModelDirectoryDatabase(tmp + '/db'), m1, d['r1'])
        if d['other_between']:
            put(ld.LocalModelDirectoryDatabase(tmp + '/db'), m2, 5)
        put(ld.LocalModelDirectoryDatabase(tmp + '/db'), m1, d['r2'])
        want = d['r2'] if d['r2'] != 0 else d['r1']
        got = get(ld.LocalModelDirectoryDatabase(tmp + '/db'), m1)
        if want == 0:
            ok = got is None
        else:
            ok = got is not None and abs(got.ofv - (100.0 + want)) < 1e-9
        if not ok:
            return dict(ok=False, what=f'results retrieved: ofv {getattr(got, "ofv", None)}, latest committed: '
                                       f'{None if want == 0 else 100.0 + want}')
        if want != 0:
            # log messages in order and verbatim
            gl = [(e.category, e.message) for e in got.log] if got.log is not None else None
            wl = [('WARNING' if i % 3 else 'ERROR', t) for i, t in enumerate(msgs)]
            if gl != wl:
                return dict(ok=False, what=f'log of the retrieved results differs from the stored one: '
                                           f'{[m[:8] for _, m in (gl or [])]}')
        if d['other_between']:
            g2 = get(ld.LocalModelDirectoryDatabase(tmp + '/db'), m2)
            if g2 is None or abs(g2.ofv - 105.0) > 1e-9:
                return dict(ok=False, what='the results of the other model are not its own')
        return dict(ok=True)
    finally:
        shutil.rmtree(tmp, ignore_errors=True)


if __name__ == '__main__':
    _d = json.loads(sys.argv[1])
    res = main_results(_d) if 'r1' in _d else (main_many(_d) if 'n' in _d else main(_d))
    print('REPLAY ' + json.dumps(res))
