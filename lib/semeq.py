"""semeq — reference denotation of pharmpy statement lists / models and z3-decided equivalence between them.

The reference interpreter executes the statements *in order* as a state transformer over sympy terms: the state maps
each assigned symbol to its value expressed in the leaf inputs (parameters, random variables, data columns, amounts,
and symbols read before any assignment).  It shares no code with pharmpy's own analyses (full_expression,
dependencies, ...).  Equalities between denotations are decided by z3 through `sym2smt.Equiv`.
"""
import sympy

from sym2smt import Equiv, to_sympy


def S(name):
    return sympy.Symbol(name)


class Den:
    """Denotation of a statement list."""

    def __init__(self):
        self.env = {}        # sympy.Symbol -> sympy expr over leaves (final state)
        self.trace = []      # per statement: (kind, symbol or None, env snapshot after)
        self.odes = {}       # amount function (sympy AppliedUndef) -> rhs over leaves + amounts
        self.comp = {}       # compartment name -> dict(doses=[...], lag=expr, bio=expr, input=expr, amount=fn)
        self.ode_env = None  # environment at the ODE system


class DenoteError(Exception):
    """the statement list cannot be interpreted by the reference (sympy limitation): the program is skipped."""


def _subs(expr, env):
    e = to_sympy(expr)
    if not env:
        return e
    try:
        return e.xreplace(env)
    except Exception:  # noqa -- e.g. sympy refuses a Piecewise without default inside a condition
        try:
            return e.subs(env, simultaneous=True)
        except Exception as ex:  # noqa
            raise DenoteError(f'{type(ex).__name__}: {ex}'[:200])


def denote(statements, upto=None):
    """Execute statements[:upto] sequentially."""
    from pharmpy.model import Assignment, CompartmentalSystem
    d = Den()
    env = {}
    for k, st in enumerate(statements):
        if upto is not None and k >= upto:
            break
        if isinstance(st, Assignment):
            sym = to_sympy(st.symbol)
            env = dict(env)
            env[sym] = _subs(st.expression, env)
            d.trace.append(('assign', sym, env))
        elif isinstance(st, CompartmentalSystem):
            d.ode_env = dict(env)
            for eq in st.eqs:
                e = to_sympy(eq)
                d.odes[e.lhs.args[0]] = _subs(e.rhs, env)
            for name in st.compartment_names:
                c = st.find_compartment(name)
                doses = []
                for dose in c.doses:
                    dd = dict(kind=type(dose).__name__, admid=dose.admid, amount=_subs(dose.amount, env))
                    if hasattr(dose, 'rate') and dose.rate is not None:
                        dd['rate'] = _subs(dose.rate, env)
                    if hasattr(dose, 'duration') and dose.duration is not None:
                        dd['duration'] = _subs(dose.duration, env)
                    doses.append(dd)
                d.comp[name] = dict(doses=doses, lag=_subs(c.lag_time, env), bio=_subs(c.bioavailability, env),
                                    input=_subs(c.input, env), amount=to_sympy(c.amount))
            # amounts are fresh inputs afterwards; an assigned symbol with the name of an amount does not occur
            d.trace.append(('ode', None, env))
        else:
            raise TypeError(type(st))
    d.env = env
    return d


def value_of(den, expr):
    """Value of an expression in the final state."""
    return _subs(expr, den.env)


def leaves(expr):
    e = to_sympy(expr)
    return set(e.free_symbols) | set(e.atoms(sympy.core.function.AppliedUndef))


def depends_semantically(eq: Equiv, expr, leaf):
    """z3: do two environments differing only in `leaf` give different values?  'equal' => independent."""
    e = to_sympy(expr)
    if leaf not in e.free_symbols and leaf not in e.atoms(sympy.core.function.AppliedUndef):
        return 'independent', {}
    prime = sympy.Symbol(str(leaf) + '__prime')
    e2 = e.xreplace({leaf: prime})
    v, info = eq.check(e, e2)
    if v == 'equal':
        return 'independent', info
    if v == 'differ':
        return 'dependent', info
    return 'unknown', info
