"""Re-enact a C15 counterexample with the REAL primitives (threading.Condition/RLock/Lock, fcntl.lockf on a temp file,
a second OS process) and judge it against the reader-writer specification.  Run as a subprocess:

    python lock_replay.py '<json>'      -> prints REPLAY {"ok": bool|null, ...}

ok=False: the violation reproduced on the real code; ok=True: real code behaved per spec (solver model artefact or
unreachable pre-state); ok=None: the pre-state could not be realised by a real history (not a finding).
"""
import json
import os
import queue
import subprocess
import sys
import tempfile
import threading
import time

import pharmpy.internals.fs.lock as L

WAIT = 0.6


class Worker(threading.Thread):
    def __init__(self, tid, lock_obj):
        super().__init__(daemon=True)
        self.tid = tid
        self.q = queue.Queue()
        self.done = queue.Queue()
        self.cms = []
        self.lock_obj = lock_obj

    def run(self):
        while True:
            cmd = self.q.get()
            try:
                if cmd[0] == 'enter':
                    cm = self.lock_obj.lock(*cmd[1:])
                    cm.__enter__()
                    self.cms.append(cm)
                    self.done.put('ok')
                elif cmd[0] == 'exit':
                    self.cms.pop().__exit__(None, None, None)
                    self.done.put('ok')
            except BaseException as e:     # noqa
                self.done.put(type(e).__name__)

    def do(self, *cmd, timeout=WAIT):
        self.q.put(cmd)
        try:
            return self.done.get(timeout=timeout)
        except queue.Empty:
            return 'blocked'


def replay_thread(d):
    """d: op, cur, blocking, reentrant, stacks {t: 'SE'}, q {t: 0|1|2}"""
    tl = L.ShareableThreadLock()
    ws = {t: Worker(t, tl) for t in (1, 2, 3)}
    for w in ws.values():
        w.start()
    stacks = {int(k): v for k, v in d['stacks'].items()}
    q = {int(k): v for k, v in d['q'].items()}
    if any(v == 2 for v in q.values()):
        return dict(ok=None, note='notified-but-not-yet-running waiter is a transient scheduler state; not realised')
    eholders = [t for t in stacks if 'E' in stacks[t]]
    # 1. shared prefixes of every thread (reentrant acquisitions)
    prefix = {t: (stacks[t].index('E') if 'E' in stacks[t] else len(stacks[t])) for t in stacks}
    for t in stacks:
        for _ in range(prefix[t]):
            if ws[t].do('enter', True, True, True) != 'ok':
                return dict(ok=None, note='pre-state not realisable (shared prefix)')
    # 2. waiters start waiting (blocking exclusive requests that must block now)
    for t, v in q.items():
        if v == 1:
            r = ws[t].do('enter', False, True, True, timeout=0.3)
            if r != 'blocked':
                return dict(ok=None, note=f'pre-state not realisable: waiter {t} did not block ({r})')
    # 3. the rest of the exclusive holder's stack
    for t in eholders:
        for m in stacks[t][prefix[t]:]:
            if ws[t].do('enter', m == 'S', True, True) != 'ok':
                return dict(ok=None, note='pre-state not realisable (exclusive suffix)')
    cur = d['cur']
    op = d['op']
    holds = {t: len(stacks[t]) for t in stacks}
    if op in ('sh_exit', 'ex_exit'):
        r = ws[cur].do('exit')
        if r != 'ok':
            return dict(ok=False, what=f'release step did not complete: {r}')
        holds[cur] -= 1
        # every waiter whose wait condition is now false must be granted
        for t, v in q.items():
            if v == 1 and not any(holds[o] for o in holds if o != t):
                try:
                    got = ws[t].done.get(timeout=2.0)
                except queue.Empty:
                    return dict(ok=False, what=f'LOST WAKE-UP: thread {t} waits for the exclusive lock although every '
                                               f'other holder has released (holds={holds})')
                if got != 'ok':
                    return dict(ok=False, what=f'waiter {t} ended with {got}')
        return dict(ok=True)
    shared = op == 'sh_enter'
    if q.get(cur) == 1:
        return dict(ok=None, note='resume-from-wait step: covered by release replays')
    r = ws[cur].do('enter', shared, d['blocking'], d['reentrant'])
    others_hold = any(holds[o] for o in holds if o != cur)
    other_excl = any('E' in stacks[o] for o in stacks if o != cur)
    must_wait = other_excl if shared else others_hold
    if must_wait:
        exp = 'blocked' if d['blocking'] else 'AcquiringThreadLevelLockWouldBlockError'
    elif holds[cur] and not d['reentrant']:
        exp = 'RecursiveDeadlockError'
    else:
        exp = 'ok'
    return dict(ok=(r == exp), got=r, expected=exp)


def replay_process(d):
    """d: op ('p_enter'|'p_exit'), cur, shared, blocking, reentrant, counts {t: [s, e]}, ko"""
    tmp = tempfile.mkdtemp(prefix='c15replay')
    path = os.path.join(tmp, 'lockfile')
    open(path, 'w').close()
    other = None
    try:
        ko = d['ko']
        if ko:
            code = ("import fcntl,sys,os,time\nfd=os.open(sys.argv[1],os.O_RDWR)\n"
                    f"fcntl.lockf(fd, fcntl.LOCK_{'SH' if ko == 1 else 'EX'})\nprint('held',flush=True)\ntime.sleep(30)\n")
            other = subprocess.Popen([sys.executable, '-c', code, path], stdout=subprocess.PIPE, text=True)
            other.stdout.readline()
        fd = os.open(path, os.O_RDWR)
        pl = L.ShareableProcessLock(fd)
        ident = [1]
        L.get_ident = lambda: ident[0]
        counts = {int(k): v for k, v in d['counts'].items()}
        cms = {}

        def enter(t, shared, blocking, reentrant, out):
            ident[0] = t
            try:
                cm = pl.lock(shared, blocking, reentrant)
                cm.__enter__()
                cms.setdefault((t, shared), []).append(cm)
                out.append('ok')
            except BaseException as e:  # noqa
                out.append(type(e).__name__)

        def timed(fn, *a):
            out = []
            th = threading.Thread(target=fn, args=a + (out,), daemon=True)
            th.start()
            th.join(WAIT)
            return out[0] if out else 'blocked'
        # realise the counts: all shared first then exclusive (other process may make it impossible)
        for shared in (True, False):
            for t, (s, e) in counts.items():
                for _ in range(s if shared else e):
                    if timed(enter, t, shared, False, True) != 'ok':
                        return dict(ok=None, note='pre-state not realisable against the other process')
        anye = any(e for s, e in counts.values())
        held = any(s + e for s, e in counts.values())
        cur = d['cur']
        if d['op'] == 'p_enter':
            r = timed(enter, cur, d['shared'], d['blocking'], d['reentrant'])
            own = sum(counts[cur])
            need = (1 if d['shared'] else 2) if not held else (2 if (not d['shared'] and not anye) else 0)
            conflict = (need == 2 and ko != 0) or (need == 1 and ko == 2)
            if own and not d['reentrant']:
                exp = 'RecursiveDeadlockError'
            elif conflict:
                exp = 'blocked' if d['blocking'] else 'AcquiringProcessLevelLockWouldBlockError'
            else:
                exp = 'ok'
            return dict(ok=(r == exp), got=r, expected=exp)
        else:
            ident[0] = cur
            cm = cms[(cur, d['shared'])].pop()
            out = []

            def ex(out):
                cm.__exit__(None, None, None)
                out.append('ok')
            r = timed(ex)
            if r != 'ok':
                return dict(ok=False, what=f'release did not complete: {r}')
            s, e = counts[cur]
            counts[cur] = [s - 1, e] if d['shared'] else [s, e - 1]
            anye = any(e for s, e in counts.values())
            anys = any(s for s, e in counts.values())
            want = 2 if anye else (1 if anys else 0)
            # probe the kernel state from a third process
            probe = ("import fcntl,sys,os\nfd=os.open(sys.argv[1],os.O_RDWR)\nr=[]\n"
                     "for m in (fcntl.LOCK_SH, fcntl.LOCK_EX):\n"
                     "  try:\n    fcntl.lockf(fd, m|fcntl.LOCK_NB); r.append(1); fcntl.lockf(fd, fcntl.LOCK_UN)\n"
                     "  except OSError: r.append(0)\nprint(r)\n")
            if ko == 0:
                pr = subprocess.run([sys.executable, '-c', probe, path], capture_output=True, text=True).stdout.strip()
                got = {'[1, 1]': 0, '[1, 0]': 1, '[0, 0]': 2}.get(pr, -1)
                return dict(ok=(got == want), kernel_mode=got, expected=want)
            return dict(ok=True, note='other process holds; kernel mode not probed')
    finally:
        if other:
            other.kill()


def replay_pool_race(d):
    """Two real threads of this process request a SHARED path_lock on the same unheld path at the same time; the first
    os.open of the file is held back until the second thread has completed its request (forced schedule of the race on
    the descriptor pool).  While both hold the lock, a second process asks for the exclusive lock without blocking: it
    must be refused; after both released, it must be granted."""
    tmp = tempfile.mkdtemp(prefix='c15race')
    path = os.path.join(tmp, 'lockfile')
    open(path, 'w').close()
    real_open = os.open
    first = threading.Event()
    go = threading.Event()
    seen = []

    class SlowOs:
        def __getattr__(self, k):
            return getattr(os, k)

        def open(self, p, flags, *a):
            if os.path.normpath(p) == os.path.normpath(path) and not seen:
                seen.append(1)
                first.set()
                go.wait(3.0)           # the rival completes its whole request meanwhile
            return real_open(p, flags, *a)
    L.os = SlowOs()
    probe = ("import fcntl,sys,os\nfd=os.open(sys.argv[1],os.O_RDWR)\n"
             "try:\n  fcntl.lockf(fd, fcntl.LOCK_EX|fcntl.LOCK_NB); print('GRANTED')\n"
             "except OSError: print('REFUSED')\n")
    res = {}
    entered = {1: threading.Event(), 2: threading.Event()}
    leave = threading.Event()

    def user(i):
        try:
            with L.path_lock(path, shared=True):
                entered[i].set()
                leave.wait(10.0)
            res[i] = 'ok'
        except BaseException as e:  # noqa
            res[i] = type(e).__name__
            entered[i].set()
    try:
        a = threading.Thread(target=user, args=(1,), daemon=True)
        a.start()
        first.wait(3.0)
        b = threading.Thread(target=user, args=(2,), daemon=True)
        b.start()
        entered[2].wait(3.0)
        go.set()
        entered[1].wait(3.0)
        if not (entered[1].is_set() and entered[2].is_set()) or res:
            return dict(ok=None, note=f'the two shared requests did not both complete: {res}')
        held = subprocess.run([sys.executable, '-c', probe, path], capture_output=True, text=True).stdout.strip()
        leave.set()
        a.join(5.0)
        b.join(5.0)
        after = subprocess.run([sys.executable, '-c', probe, path], capture_output=True, text=True).stdout.strip()
        if held != 'REFUSED':
            return dict(ok=False, what='two threads hold the path shared, yet another process was GRANTED the exclusive '
                                       'lock (the kernel lock was dropped when a redundant descriptor was closed)',
                        while_held=held, after_release=after)
        if after != 'GRANTED':
            return dict(ok=False, what='lock still held in the kernel after both users left', after_release=after)
        return dict(ok=True, while_held=held, after_release=after)
    finally:
        L.os = os
        leave.set()


if __name__ == '__main__':
    d = json.loads(sys.argv[1])
    if d['op'] == 'pool_race':
        print('REPLAY ' + json.dumps(replay_pool_race(d)), flush=True)
        os._exit(0)
    res = replay_thread(d) if d['op'] in ('sh_enter', 'ex_enter', 'sh_exit', 'ex_exit') else replay_process(d)
    print('REPLAY ' + json.dumps(res), flush=True)
    os._exit(0)
