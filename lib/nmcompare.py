"""Compare a pharmpy model with the reference denotation (nmref) of a control stream: statements, ODE right-hand
sides, dose attachments (z3, all numeric inputs) and parameters / random-effect structure (exact numbers)."""
import math
import re

import sympy

import nmref
import semeq
from sym2smt import Equiv


def theta_params(model):
    rv_syms = {str(s) for s in model.random_variables.free_symbols}
    return [p for p in model.parameters if p.name not in rv_syms]


def rename_map(ref, model):
    """reference symbol -> pharmpy symbol"""
    ren = {}
    for i, p in enumerate(theta_params(model), 1):
        ren[sympy.Symbol(f'THETA({i})')] = sympy.Symbol(p.name)
    for i, n in enumerate(model.random_variables.etas.names, 1):
        ren[sympy.Symbol(f'ETA({i})')] = sympy.Symbol(n)
    for i, n in enumerate(model.random_variables.epsilons.names, 1):
        ren[sympy.Symbol(f'EPS({i})')] = sympy.Symbol(n)
    t = sympy.Symbol('t')
    for i, name in enumerate(ref.comp_names, 1):
        ren[sympy.Symbol(f'A({i})')] = sympy.Function(f'A_{name}')(t)
    ren[sympy.Symbol('T')] = t
    return ren



def find_bijection(odes_a, odes_b, eq, base=None, extra=None, limit=400):
    """Find a bijection between the amounts of two ODE systems (dicts amount-function -> rhs) under which all
    right-hand sides are equal for all inputs (z3).  Compartment names / numbers are not semantic, the dynamics are.
    `base`: substitution applied to side a before comparing (parameter renaming).  Returns (mapping a->b or None,
    evidence list)."""
    import itertools
    A = list(odes_a)
    B = list(odes_b)
    if len(A) != len(B):
        return None, [('ode_compartments', 'violated', dict(reference=[str(x) for x in A], pharmpy=[str(x) for x in B]))]
    base = base or {}

    def sig(rhs, amounts):
        return frozenset(str(x) for x in rhs.free_symbols) - {'t'}
    sig_a = {a: sig(odes_a[a].xreplace(base), A) for a in A}
    sig_b = {b: sig(odes_b[b], B) for b in B}
    cands = {a: [b for b in B if sig_b[b] == sig_a[a]] or list(B) for a in A}
    # same name first
    for a in A:
        cands[a].sort(key=lambda b: (str(b) != str(a),))
    tried = 0
    first_fail = None
    for combo in itertools.product(*[cands[a] for a in A]):
        if len(set(combo)) != len(combo):
            continue
        tried += 1
        if tried > limit:
            break
        mp_ = dict(zip(A, combo))
        ok = True
        for a in A:
            lhs = odes_a[a].xreplace(base).xreplace(mp_)
            v, info = eq.check(lhs, odes_b[mp_[a]], extra=extra)
            if v != 'equal':
                ok = False
                if first_fail is None:
                    first_fail = (a, mp_[a], v, info, str(lhs)[:400], str(odes_b[mp_[a]])[:400])
                break
        if ok:
            return mp_, [(f'ode[{a}->{mp_[a]}]', 'discharged', None) for a in A]
    a, b, v, info, l, r = first_fail
    return None, [(f'ode[{a}]', 'violated' if v == 'differ' else 'inconclusive',
                   dict(info, reference=l, pharmpy=r, note='no compartment correspondence makes all right-hand sides '
                                                            'equal; shown: first mismatch under the name-based one'))]


def rename_unmatched(m, m2):
    """parameter / random-variable correspondence between the in-memory model and the re-read one: identical names
    correspond (pharmpy keeps names in the comments of the parameter records); the remaining ones correspond by
    position within their category (theta / omega / sigma parameters, etas, epsilons)."""
    ren = {}

    def cats(mod):
        th = [p.name for p in theta_params(mod)]
        om = [str(s) for d in mod.random_variables.etas for s in _ordered_symbols(d)]
        si = [str(s) for d in mod.random_variables.epsilons for s in _ordered_symbols(d)]
        return [th, _uniq(om), _uniq(si), list(mod.random_variables.etas.names),
                list(mod.random_variables.epsilons.names)]
    for a_list, b_list in zip(cats(m), cats(m2)):
        common = set(a_list) & set(b_list)
        ra = [x for x in a_list if x not in common]
        rb = [x for x in b_list if x not in common]
        for a, b in zip(ra, rb):
            ren[a] = b
    return ren


def _uniq(xs):
    out = []
    for x in xs:
        if x not in out:
            out.append(x)
    return out


def _ordered_symbols(dist):
    import sympy
    var = dist.variance
    n = len(dist.names)
    if n == 1:
        return [s for s in sympy.sympify(var).free_symbols]
    out = []
    for r in range(n):
        for c in range(r + 1):
            out += list(sympy.sympify(var[r, c]).free_symbols)
    return out



def verdict(v):
    return {'equal': 'discharged', 'differ': 'violated'}.get(v, 'inconclusive')


def compare_statements(ref, model, eq, res, skip=(), den=None, ren=None):
    den = den or semeq.denote(model.statements)
    ren = ren or rename_map(ref, model)
    dvs = [str(s) for s in model.dependent_variables]
    for key, val in ref.final.items():
        if not re.fullmatch(r'[A-Z_][A-Z0-9_]*', key) or key in skip:
            continue
        sym = sympy.Symbol(key)
        if sym not in den.env:
            # pharmpy may legitimately rename a user variable (clash with a parameter name...): only the observation
            # variable and F are required to be present by name
            if key in dvs or (key in ('Y', 'F') and len(dvs) <= 1):
                res.append((f'value[{key}]', 'violated', dict(what='variable not defined by the model')))
            else:
                res.append((f'value[{key}]', 'inconclusive', dict(what='variable not present in model (renamed?)')))
            continue
        a = val.xreplace(ren) if hasattr(val, 'xreplace') else sympy.sympify(val)
        b = den.env[sym]
        v, info = eq.check(a, b)
        res.append((f'value[{key}]', verdict(v),
                    dict(info, reference=str(a)[:400], pharmpy=str(b)[:400]) if v != 'equal' else None))
    return den, ren


def compare_attachments(ref, model, den, ren, eq, res):
    """closedness of the flows and lag time / bioavailability / dose attachments under the compartment correspondence."""
    if ref.kind == 'PRED':
        if den.odes:
            res.append(('odes', 'violated', dict(what='$PRED model with ODE system')))
        return
    known = set(model.parameters.names) | set(model.random_variables.names) | set(model.datainfo.names) | {'t'}
    for amt, rhs in den.odes.items():
        free = {str(s) for s in rhs.free_symbols} - known
        if free:
            res.append((f'closed[{amt}]', 'violated', dict(undefined_symbols=sorted(free), rhs=str(rhs)[:300])))
    for i, name in getattr(ref, 'comp_model_names', {}).items():
        c = den.comp.get(name)
        if c is None:
            continue
        for fld in ('lag', 'bio'):
            a = sympy.sympify(ref.attach[i][fld]).xreplace(ren)
            v, info = eq.check(a, c[fld])
            if v != 'equal':
                res.append((f'{fld}[{name}]', verdict(v), dict(info, reference=str(a), pharmpy=str(c[fld]))))
            else:
                res.append((f'{fld}[{name}]', 'discharged', None))
    # the default dose compartment of the code carries the doses of the model
    dd = getattr(ref, 'dose_default', None)
    if dd and dd in getattr(ref, 'comp_model_names', {}):
        dosed = [n for n, c in den.comp.items() if c['doses']]
        if dosed and ref.comp_model_names[dd] not in dosed and 'CMT' not in model.datainfo.names:
            res.append(('dose_compartment', 'violated', dict(code_default=ref.comp_model_names[dd], model_dosed=dosed)))


def _feq(a, b, tol=1e-12):
    if a == b:
        return True
    if math.isinf(a) or math.isinf(b):
        return False
    return abs(a - b) <= tol * max(1.0, abs(a), abs(b))


def compare_parameters(ref, model, res):
    th = theta_params(model)
    if len(th) != len(ref.thetas):
        res.append(('thetas', 'violated', dict(reference=len(ref.thetas), pharmpy=len(th))))
    else:
        bad = []
        for i, (p, r) in enumerate(zip(th, ref.thetas), 1):
            lo = p.lower if p.lower > -1e300 else float('-inf')
            up = p.upper if p.upper < 1e300 else float('inf')
            if not (_feq(float(p.init), r['init'], 0) and _feq(float(lo), r['lower'], 0)
                    and _feq(float(up), r['upper'], 0) and bool(p.fix) == bool(r['fix'])):
                bad.append(dict(theta=i, pharmpy=(float(p.init), float(lo), float(up), p.fix), reference=r))
        res.append(('thetas', 'violated' if bad else 'discharged', dict(mismatch=bad) if bad else None))
    for kind, rvs, blocks in (('omega', model.random_variables.etas, ref.omega_blocks),
                              ('sigma', model.random_variables.epsilons, ref.sigma_blocks)):
        sizes_ref = [b['size'] for b in blocks]
        sizes = [len(d.names) for d in rvs]
        if sizes != sizes_ref:
            res.append((f'{kind}_structure', 'violated', dict(reference=sizes_ref, pharmpy=sizes)))
            continue
        inits = model.parameters.inits
        bad = []
        undecided = None
        for k, (d, b) in enumerate(zip(rvs, blocks)):
            var = d.variance
            n = len(d.names)
            for r in range(n):
                for c in range(n):
                    e = var if n == 1 else var[r, c]
                    try:
                        val = float(sympy.sympify(e).subs({sympy.Symbol(s): v for s, v in inits.items()}))
                    except TypeError:
                        # a (co)variance that is not a number under the initial estimates (an expression over something
                        # else than parameters): not comparable with the number of the record; reported as undecided
                        undecided = str(e)
                        continue
                    if not _feq(val, b['matrix'][r][c], 1e-12):
                        bad.append(dict(block=k, entry=(r, c), pharmpy=val, reference=b['matrix'][r][c]))
            syms = {str(s) for s in (sympy.sympify(var).free_symbols if n == 1 else
                                     set().union(*[sympy.sympify(var[r, c]).free_symbols for r in range(n)
                                                   for c in range(n)]))}
            fixes = {model.parameters[s].fix for s in syms if s in model.parameters}
            if fixes and (all(fixes) != bool(b['fix'])) and len(fixes) == 1:
                bad.append(dict(block=k, fix_pharmpy=sorted(fixes), fix_reference=b['fix']))
        if undecided is not None and not bad:
            res.append((f'{kind}_values', 'inconclusive', dict(reason=f'variance {undecided} is not numeric under the inits')))
        else:
            res.append((f'{kind}_values', 'violated' if bad else 'discharged', dict(mismatch=bad[:6]) if bad else None))


def compare(text, model, timeout_ms=15000, skip=()):
    """returns (results, equiv, ref)  -- raises nmref.Unsupported if the control stream is outside the reference subset."""
    ref = nmref.interpret(text)
    eq = Equiv(timeout_ms=timeout_ms)
    res = []
    den = semeq.denote(model.statements)
    ren = rename_map(ref, model)
    t = sympy.Symbol('t')
    if ref.kind != 'PRED':
        # compartments correspond by dynamics, not by name: reference compartment i <-> a model compartment
        placeholders = {sympy.Symbol(f'A({i})'): sympy.Function(f'A_{name}')(t)
                        for i, name in enumerate(ref.comp_names, 1)}
        ref_odes = {}
        for i, name in enumerate(ref.comp_names, 1):
            rhs = ref.odes.get(i)
            if rhs is not None:
                ref_odes[placeholders[sympy.Symbol(f'A({i})')]] = sympy.sympify(rhs).xreplace(placeholders)
        base = {k: v for k, v in ren.items() if k not in placeholders}
        model_odes = dict(den.odes)
        # compartments declared in $MODEL without DADT may be absent from the model
        mapping, ev = find_bijection(ref_odes, model_odes, eq, base=base)
        res += ev
        if mapping is not None:
            for i, name in enumerate(ref.comp_names, 1):
                ph = placeholders[sympy.Symbol(f'A({i})')]
                if ph in mapping:
                    ren[sympy.Symbol(f'A({i})')] = mapping[ph]
            ref.comp_model_names = {i: str(mapping[placeholders[sympy.Symbol(f'A({i})')]].func)[2:]
                                    for i in range(1, len(ref.comp_names) + 1)
                                    if placeholders[sympy.Symbol(f'A({i})')] in mapping}
        else:
            ref.comp_model_names = {i: n for i, n in enumerate(ref.comp_names, 1)}
    compare_statements(ref, model, eq, res, skip=skip, den=den, ren=ren)
    compare_attachments(ref, model, den, ren, eq, res)
    compare_parameters(ref, model, res)
    return res, eq, ref
