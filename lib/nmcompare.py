"""Compare a pharmpy model with the reference denotation (nmref) of a control stream: statements, ODE right-hand
sides, dose attachments (z3, all numeric inputs) and parameters / random-effect structure (exact numbers)."""
import math
import re

import sympy

import nmref
import semeq
from sym2smt import Equiv


def theta_params(model):
    rv_syms = {str(s) for s in model.random_variables.free_symbols}
    return [p for p in model.parameters if p.name not in rv_syms]


def rename_map(ref, model):
    """reference symbol -> pharmpy symbol"""
    ren = {}
    for i, p in enumerate(theta_params(model), 1):
        ren[sympy.Symbol(f'THETA({i})')] = sympy.Symbol(p.name)
    for i, n in enumerate(model.random_variables.etas.names, 1):
        ren[sympy.Symbol(f'ETA({i})')] = sympy.Symbol(n)
    for i, n in enumerate(model.random_variables.epsilons.names, 1):
        ren[sympy.Symbol(f'EPS({i})')] = sympy.Symbol(n)
    t = sympy.Symbol('t')
    for i, name in enumerate(ref.comp_names, 1):
        ren[sympy.Symbol(f'A({i})')] = sympy.Function(f'A_{name}')(t)
    ren[sympy.Symbol('T')] = t
    return ren


def verdict(v):
    return {'equal': 'discharged', 'differ': 'violated'}.get(v, 'inconclusive')


def compare_statements(ref, model, eq, res, skip=()):
    den = semeq.denote(model.statements)
    ren = rename_map(ref, model)
    dvs = [str(s) for s in model.dependent_variables]
    for key, val in ref.final.items():
        if not re.fullmatch(r'[A-Z_][A-Z0-9_]*', key) or key in skip:
            continue
        sym = sympy.Symbol(key)
        if sym not in den.env:
            # pharmpy may legitimately rename a user variable (clash with a parameter name...): only the observation
            # variable and F are required to be present by name
            if key in dvs or (key in ('Y', 'F') and len(dvs) <= 1):
                res.append((f'value[{key}]', 'violated', dict(what='variable not defined by the model')))
            else:
                res.append((f'value[{key}]', 'inconclusive', dict(what='variable not present in model (renamed?)')))
            continue
        a = val.xreplace(ren) if hasattr(val, 'xreplace') else sympy.sympify(val)
        b = den.env[sym]
        v, info = eq.check(a, b)
        res.append((f'value[{key}]', verdict(v),
                    dict(info, reference=str(a)[:400], pharmpy=str(b)[:400]) if v != 'equal' else None))
    return den, ren


def compare_odes(ref, model, den, ren, eq, res):
    t = sympy.Symbol('t')
    if ref.kind == 'PRED':
        if den.odes:
            res.append(('odes', 'violated', dict(what='$PRED model with ODE system')))
        return
    want = {sympy.Function(f'A_{name}')(t): ref.odes.get(i) for i, name in enumerate(ref.comp_names, 1)}
    have = set(den.odes)
    for amt, rhs in want.items():
        if rhs is None:
            # declared in $MODEL but no DADT given: pharmpy may omit it
            continue
        if amt not in den.odes:
            res.append((f'ode[{amt}]', 'violated', dict(what='compartment missing in model')))
            continue
        a = rhs.xreplace(ren)
        b = den.odes[amt]
        v, info = eq.check(a, b)
        res.append((f'ode[{amt}]', verdict(v),
                    dict(info, reference=str(a)[:400], pharmpy=str(b)[:400]) if v != 'equal' else None))
    extra = have - set(want)
    if extra:
        res.append(('ode_compartments', 'violated', dict(extra=[str(x) for x in extra])))
    # closedness: every symbol in the flows is a parameter, random variable, data column, t, or an amount
    known = set(model.parameters.names) | set(model.random_variables.names) | set(model.datainfo.names) | {'t'}
    for amt, rhs in den.odes.items():
        free = {str(s) for s in rhs.free_symbols} - known
        if free:
            res.append((f'closed[{amt}]', 'violated', dict(undefined_symbols=sorted(free), rhs=str(rhs)[:300])))
    # lag time / bioavailability attachments
    for i, name in enumerate(ref.comp_names, 1):
        c = den.comp.get(name)
        if c is None:
            continue
        for fld in ('lag', 'bio'):
            a = sympy.sympify(ref.attach[i][fld]).xreplace(ren)
            v, info = eq.check(a, c[fld])
            if v != 'equal':
                res.append((f'{fld}[{name}]', verdict(v), dict(info, reference=str(a), pharmpy=str(c[fld]))))
            else:
                res.append((f'{fld}[{name}]', 'discharged', None))


def _feq(a, b, tol=1e-12):
    if a == b:
        return True
    if math.isinf(a) or math.isinf(b):
        return False
    return abs(a - b) <= tol * max(1.0, abs(a), abs(b))


def compare_parameters(ref, model, res):
    th = theta_params(model)
    if len(th) != len(ref.thetas):
        res.append(('thetas', 'violated', dict(reference=len(ref.thetas), pharmpy=len(th))))
    else:
        bad = []
        for i, (p, r) in enumerate(zip(th, ref.thetas), 1):
            lo = p.lower if p.lower > -1e300 else float('-inf')
            up = p.upper if p.upper < 1e300 else float('inf')
            if not (_feq(float(p.init), r['init'], 0) and _feq(float(lo), r['lower'], 0)
                    and _feq(float(up), r['upper'], 0) and bool(p.fix) == bool(r['fix'])):
                bad.append(dict(theta=i, pharmpy=(float(p.init), float(lo), float(up), p.fix), reference=r))
        res.append(('thetas', 'violated' if bad else 'discharged', dict(mismatch=bad) if bad else None))
    for kind, rvs, blocks in (('omega', model.random_variables.etas, ref.omega_blocks),
                              ('sigma', model.random_variables.epsilons, ref.sigma_blocks)):
        sizes_ref = [b['size'] for b in blocks]
        sizes = [len(d.names) for d in rvs]
        if sizes != sizes_ref:
            res.append((f'{kind}_structure', 'violated', dict(reference=sizes_ref, pharmpy=sizes)))
            continue
        inits = model.parameters.inits
        bad = []
        for k, (d, b) in enumerate(zip(rvs, blocks)):
            var = d.variance
            n = len(d.names)
            for r in range(n):
                for c in range(n):
                    e = var if n == 1 else var[r, c]
                    val = float(sympy.sympify(e).subs({sympy.Symbol(s): v for s, v in inits.items()}))
                    if not _feq(val, b['matrix'][r][c], 1e-12):
                        bad.append(dict(block=k, entry=(r, c), pharmpy=val, reference=b['matrix'][r][c]))
            syms = {str(s) for s in (sympy.sympify(var).free_symbols if n == 1 else
                                     set().union(*[sympy.sympify(var[r, c]).free_symbols for r in range(n)
                                                   for c in range(n)]))}
            fixes = {model.parameters[s].fix for s in syms if s in model.parameters}
            if fixes and (all(fixes) != bool(b['fix'])) and len(fixes) == 1:
                bad.append(dict(block=k, fix_pharmpy=sorted(fixes), fix_reference=b['fix']))
        res.append((f'{kind}_values', 'violated' if bad else 'discharged', dict(mismatch=bad[:6]) if bad else None))


def compare(text, model, timeout_ms=15000, skip=()):
    """returns (results, equiv)  -- raises nmref.Unsupported if the control stream is outside the reference subset."""
    ref = nmref.interpret(text)
    eq = Equiv(timeout_ms=timeout_ms)
    res = []
    den, ren = compare_statements(ref, model, eq, res, skip=skip)
    compare_odes(ref, model, den, ren, eq, res)
    compare_parameters(ref, model, res)
    return res, eq, ref
