"""sym2smt — translate the sympy form of pharmpy expressions to z3 (QF_NRA after manual Ackermannisation) and decide
equivalences.  Transcendental / special functions are *uninterpreted*: every distinct application becomes a fresh real
variable constrained by sound axioms (functional consistency, strict monotonicity of exp/log, exp>0, exp(0)=1,
exp(x)>=1+x, log(1)=0, log(x)<=x-1, exp(log x)=x, log(exp x)=x, pow identities).  Equal under these axioms => equal
over the reals (sound for equivalence); a `sat` answer is only a candidate and must be replayed numerically with the
real functions (see `numeric_eval`).
"""
import itertools
import math
import time

import sympy
import z3

UNDEF = 'UNDEF__'
MONO = {'exp', 'log'}


class Unsupported(Exception):
    pass


def to_sympy(e):
    if hasattr(e, '_sympy_'):
        return e._sympy_()
    return sympy.sympify(e)


def _rat(x):
    """exact rational of a sympy number (Floats through their shortest decimal repr)."""
    if x.is_Integer:
        return z3.RealVal(int(x))
    if x.is_Rational:
        return z3.RealVal(f'{x.p}/{x.q}')
    if x.is_Float:
        r = sympy.Rational(repr(float(x)))
        return z3.RealVal(f'{r.p}/{r.q}')
    raise Unsupported(f'number {x!r}')


class Tr:
    def __init__(self):
        self.vars = {}          # name -> z3 Real
        self.side = []          # side conditions: domain of definition
        self.defs = []          # defining constraints of auxiliary variables (sqrt, floor ...)
        self.apps = {}          # fname -> list of (argtuple z3, value var)
        self.appkey = {}        # (fname, argkeys) -> value var
        self.exp_atoms = {}     # key of atom a -> {d: z3 var of exp(a/d)}
        self.n = 0

    # ------------------------------------------------------------------ variables
    def var(self, name):
        v = self.vars.get(name)
        if v is None:
            v = z3.Real(name)
            self.vars[name] = v
        return v

    def fresh(self, stem):
        self.n += 1
        return z3.Real(f'{stem}!{self.n}')

    def app(self, fname, *args):
        key = (fname,) + tuple(a.sexpr() for a in args)
        v = self.appkey.get(key)
        if v is None:
            v = self.fresh(fname)
            self.appkey[key] = v
            self.apps.setdefault(fname, []).append((args, v))
        return v

    # ------------------------------------------------------------------ arithmetic
    def tr(self, e):
        e = to_sympy(e)
        if e.is_Symbol:
            return self.var(e.name)
        if e.is_Number:
            if e in (sympy.oo, -sympy.oo, sympy.zoo, sympy.nan):
                raise Unsupported(f'non-finite constant {e}')
            return _rat(e)
        if e is sympy.pi:
            v = self.var('pi__')
            self.defs.append(z3.And(v > z3.RealVal('314159/100000'), v < z3.RealVal('314160/100000')))
            return v
        if e is sympy.E:
            return self.fn_exp(z3.RealVal(1))
        if e.is_Add:
            r = self.tr(e.args[0])
            for a in e.args[1:]:
                r = r + self.tr(a)
            return r
        if e.is_Mul:
            num = []
            den = []
            for a in e.args:
                if a.is_Pow and a.args[1].is_Integer and int(a.args[1]) < 0:
                    den.append(self.tr(sympy.Pow(a.args[0], -a.args[1])))
                else:
                    num.append(self.tr(a))
            r = z3.RealVal(1)
            for a in num:
                r = r * a
            if den:
                d = den[0]
                for a in den[1:]:
                    d = d * a
                self.side.append(d != 0)
                r = r / d
            return r
        if e.is_Pow:
            return self.pow(e.args[0], e.args[1])
        if isinstance(e, sympy.exp):
            return self.fn_exp_sym(e.args[0])
        if isinstance(e, sympy.log):
            if len(e.args) == 2:
                return self.tr(sympy.log(e.args[0])) / self.tr(sympy.log(e.args[1]))
            x = self.tr(e.args[0])
            self.side.append(x > 0)
            return self.fn_log(x)
        if isinstance(e, sympy.Piecewise):
            return self.piecewise(e)
        if isinstance(e, sympy.Abs):
            x = self.tr(e.args[0])
            return z3.If(x >= 0, x, -x)
        if isinstance(e, sympy.sign):
            x = self.tr(e.args[0])
            return z3.If(x > 0, z3.RealVal(1), z3.If(x < 0, z3.RealVal(-1), z3.RealVal(0)))
        if isinstance(e, sympy.floor):
            x = self.tr(e.args[0])
            return z3.ToReal(z3.ToInt(x))
        if isinstance(e, sympy.ceiling):
            x = self.tr(e.args[0])
            return -z3.ToReal(z3.ToInt(-x))
        if isinstance(e, sympy.Mod):
            a = self.tr(e.args[0])
            b = self.tr(e.args[1])
            self.side.append(b != 0)
            return a - b * z3.ToReal(z3.ToInt(a / b))      # sympy.Mod: sign of the divisor
        if isinstance(e, (sympy.Max, sympy.Min)):
            r = self.tr(e.args[0])
            for a in e.args[1:]:
                x = self.tr(a)
                r = z3.If(r >= x, r, x) if isinstance(e, sympy.Max) else z3.If(r <= x, r, x)
            return r
        if isinstance(e, sympy.core.function.AppliedUndef):
            if len(e.args) == 1 and e.args[0].is_Symbol and e.args[0].name == 't':
                # amount functions A_X(t) and the like: opaque real inputs
                return self.var(str(e))
            # any other undefined function (e.g. PHI built by the reference interpreter): uninterpreted application
            return self.app(type(e).__name__, *[self.tr(a) for a in e.args])
        if isinstance(e, sympy.Derivative):
            return self.var(str(e))
        if isinstance(e, sympy.Function):
            name = type(e).__name__
            args = [self.tr(a) for a in e.args]
            if name == 'sqrt':
                return self.sqrt(args[0])
            return self.app(name, *args)
        if isinstance(e, sympy.logic.boolalg.Boolean):
            return z3.If(self.trb(e), z3.RealVal(1), z3.RealVal(0))
        raise Unsupported(f'{type(e).__name__}: {e}')

    def sqrt(self, x):
        key = ('sqrt', x.sexpr())
        y = self.appkey.get(key)
        if y is None:
            y = self.fresh('sqrt')
            self.appkey[key] = y
            self.defs.append(z3.Implies(x >= 0, z3.And(y * y == x, y >= 0)))
        self.side.append(x >= 0)
        return y

    def pow(self, b, x):
        if x.is_Integer:
            n = int(x)
            if abs(n) > 12:
                raise Unsupported(f'power {n}')
            bb = self.tr(b)
            r = z3.RealVal(1)
            for _ in range(abs(n)):
                r = r * bb
            if n < 0:
                self.side.append(r != 0)
                return 1 / r
            return r
        if x.is_Rational and x.q == 2:
            s = self.sqrt(self.tr(b))
            r = z3.RealVal(1)
            for _ in range(abs(x.p)):
                r = r * s
            if x.p < 0:
                self.side.append(r != 0)
                return 1 / r
            return r
        if b is sympy.E:
            return self.fn_exp_sym(x)
        bb = self.tr(b)
        xx = self.tr(x)
        v = self.app('pow', bb, xx)
        self.side.append(bb > 0)
        self.defs.append(z3.Implies(bb > 0, v > 0))
        self.defs.append(z3.Implies(xx == 0, v == 1))
        self.defs.append(z3.Implies(xx == 1, v == bb))
        self.defs.append(z3.Implies(bb == 1, v == 1))
        self.defs.append(z3.Implies(xx == -1, v * bb == 1))
        return v

    def fn_exp_sym(self, arg):
        """exp of a sympy argument: exp(a+b) -> exp(a)*exp(b) on the top-level sum, exp(c*log(u)) -> pow, so that the
        usual rewritings of pharmacometric parameterisations are decided syntactically by the arithmetic solver."""
        arg = sympy.expand(arg) if arg.is_Add or arg.is_Mul else arg
        terms = arg.args if arg.is_Add else (arg,)
        r = None
        rest = []
        for t in terms:
            if isinstance(t, sympy.log) and len(t.args) == 1:
                u = self.tr(t.args[0])
                self.side.append(u > 0)
                f = u
            elif t.is_Mul and any(isinstance(a, sympy.log) for a in t.args) and \
                    sum(1 for a in t.args if isinstance(a, sympy.log)) == 1:
                lg = [a for a in t.args if isinstance(a, sympy.log)][0]
                coeff = t / lg
                f = self.pow(lg.args[0], coeff)
            else:
                rest.append(t)
                continue
            r = f if r is None else r * f
        for t in rest:
            f = self.exp_term(t)
            r = f if r is None else r * f
        return r if r is not None else z3.RealVal(1)

    def exp_term(self, t):
        """exp(q * a) for a rational q = p/d and a coefficient-free atom a is E**p with E = exp(a/d) > 0, so that
        exp(x)*exp(-x) = 1, exp(2x) = exp(x)**2, exp(x/2)**2 = exp(x) are arithmetic facts and not lost to the
        uninterpreted treatment of exp.  Bases exp(a/d1), exp(a/d2) of one atom are linked in `axioms`."""
        c, a = t.as_coeff_Mul()
        if a == 1:
            a = sympy.Integer(1)
        try:
            q = sympy.Rational(repr(float(c))) if c.is_Float else sympy.Rational(c)
        except (TypeError, ValueError):
            return self.fn_exp(self.tr(t))
        if c.is_Float and q.q > 12:
            q = sympy.nsimplify(c, rational=True, tolerance=1e-15)
            if not (q.is_Rational and abs(float(q) - float(c)) == 0):
                return self.fn_exp(self.tr(t))
        p, d = int(q.p), int(q.q)
        if p == 0:
            return z3.RealVal(1)
        if d > 12 or abs(p) > 12:
            return self.fn_exp(self.tr(t))
        x = self.tr(a)
        base = self.fn_exp(x if d == 1 else x / d)
        self.exp_atoms.setdefault(x.sexpr(), {})[d] = base
        f = base
        for _ in range(abs(p) - 1):
            f = f * base
        return f if p > 0 else 1 / f

    def fn_exp(self, x):
        v = self.app('exp', x)
        return v

    def fn_log(self, x):
        return self.app('log', x)

    def piecewise(self, e):
        r = None
        for val, cond in reversed(e.args):
            v = self.tr(val)
            if cond is sympy.true or cond == True:  # noqa
                r = v
            else:
                c = self.trb(cond)
                r = z3.If(c, v, r if r is not None else self.var(UNDEF))
        return r

    # ------------------------------------------------------------------ booleans
    def trb(self, c):
        c = to_sympy(c) if not isinstance(c, sympy.logic.boolalg.Boolean) else c
        if c is sympy.true or c is True:
            return z3.BoolVal(True)
        if c is sympy.false or c is False:
            return z3.BoolVal(False)
        rel = {sympy.Lt: lambda a, b: a < b, sympy.Le: lambda a, b: a <= b, sympy.Gt: lambda a, b: a > b,
               sympy.Ge: lambda a, b: a >= b, sympy.Eq: lambda a, b: a == b, sympy.Ne: lambda a, b: a != b}
        for k, f in rel.items():
            if isinstance(c, k):
                return f(self.tr(c.args[0]), self.tr(c.args[1]))
        if isinstance(c, sympy.And):
            return z3.And(*[self.trb(a) for a in c.args])
        if isinstance(c, sympy.Or):
            return z3.Or(*[self.trb(a) for a in c.args])
        if isinstance(c, sympy.Not):
            return z3.Not(self.trb(c.args[0]))
        if isinstance(c, sympy.ITE):
            return z3.If(self.trb(c.args[0]), self.trb(c.args[1]), self.trb(c.args[2]))
        if isinstance(c, (sympy.Xor,)):
            return z3.Xor(self.trb(c.args[0]), self.trb(c.args[1]))
        if isinstance(c, sympy.Symbol):
            return self.var(c.name) != 0
        raise Unsupported(f'boolean {type(c).__name__}: {c}')

    # ------------------------------------------------------------------ axioms
    def axioms(self):
        ax = list(self.defs)
        for fname, lst in self.apps.items():
            for (a1, v1), (a2, v2) in itertools.combinations(lst, 2):
                same = z3.And(*[x == y for x, y in zip(a1, a2)])
                ax.append(z3.Implies(same, v1 == v2))
                if fname in MONO:
                    ax.append(z3.Implies(a1[0] < a2[0], v1 < v2))
                    ax.append(z3.Implies(a1[0] > a2[0], v1 > v2))
            for args, v in lst:
                if fname == 'exp':
                    x = args[0]
                    ax += [v > 0, z3.Implies(x == 0, v == 1), v >= 1 + x]
                elif fname == 'log':
                    x = args[0]
                    ax += [z3.Implies(x == 1, v == 0), z3.Implies(x > 0, v <= x - 1)]
                elif fname == 'PHI':
                    ax += [v > 0, v < 1]
        # bases of one atom with different denominators: exp(a/d1)**d1 == exp(a/d2)**d2
        for bases in self.exp_atoms.values():
            ds = sorted(bases)
            for d1, d2 in zip(ds, ds[1:]):
                l = bases[d1]
                for _ in range(d1 - 1):
                    l = l * bases[d1]
                r = bases[d2]
                for _ in range(d2 - 1):
                    r = r * bases[d2]
                ax.append(l == r)
        # inverse pairs
        for (a1, v1) in self.apps.get('exp', []):
            for (a2, v2) in self.apps.get('log', []):
                ax.append(z3.Implies(a1[0] == v2, z3.Implies(a2[0] > 0, v1 == a2[0])))   # exp(log x) = x
                ax.append(z3.Implies(a2[0] == v1, v2 == a1[0]))                           # log(exp x) = x
        return ax


def solve(constraints, timeout_ms=15000):
    t0 = time.time()
    s = z3.Solver()
    s.set('timeout', timeout_ms)
    for c in constraints:
        s.add(c)
    r = str(s.check())
    m = s.model() if r == 'sat' else None
    return r, m, time.time() - t0


def model_values(tr, m):
    """name -> python float for every input variable of the translation (auxiliaries excluded)."""
    out = {}
    for name, v in tr.vars.items():
        val = m.eval(v, model_completion=True)
        out[name] = _z3num(val)
    return out


def _z3num(val):
    try:
        if z3.is_rational_value(val):
            return float(val.numerator_as_long()) / float(val.denominator_as_long())
        if z3.is_algebraic_value(val):
            return float(val.approx(20).as_fraction())
    except Exception:
        pass
    try:
        return float(val.as_decimal(17).rstrip('?'))
    except Exception:
        return float('nan')


# ---------------------------------------------------------------------------------------------------------------
# numeric replay with the real functions

_NUM_FUNCS = {
    'PHI': lambda x: 0.5 * (1 + math.erf(x / math.sqrt(2))),
}


def _close_piecewise(e):
    """give every Piecewise without default the shared opaque default, exactly as the z3 translation does, so that a
    sat model in which "no branch applies" on one side can be replayed."""
    und = sympy.Symbol(UNDEF)

    def fix(pw):
        if pw.args and pw.args[-1][1] is not sympy.true:
            return sympy.Piecewise(*(list(pw.args) + [(und, True)]))
        return pw
    try:
        return e.replace(lambda x: isinstance(x, sympy.Piecewise), fix)
    except Exception:  # noqa
        return e


def numeric_eval(expr, values):
    """Evaluate a sympy expression (as produced by pharmpy) in IEEE doubles with the real exp/log/...; `values` maps
    symbol / applied-function names to floats.  Returns float or None when undefined."""
    e = _close_piecewise(to_sympy(expr))
    values = dict(values)
    values.setdefault(UNDEF, 12345.678)       # the shared opaque value of "no branch applies" (see Tr.piecewise)
    subs = {}
    for s in e.free_symbols:
        if s.name in values:
            subs[s] = sympy.Float(values[s.name], 30)
    for f in e.atoms(sympy.core.function.AppliedUndef):
        if str(f) in values:
            subs[f] = sympy.Float(values[str(f)], 30)
    for d in e.atoms(sympy.Derivative):
        if str(d) in values:
            subs[d] = sympy.Float(values[str(d)], 30)
    try:
        e2 = e.xreplace(subs)
        for f in list(e2.atoms(sympy.Function)):
            name = type(f).__name__
            if name in _NUM_FUNCS and all(a.is_Number for a in f.args):
                e2 = e2.xreplace({f: sympy.Float(_NUM_FUNCS[name](*[float(a) for a in f.args]), 30)})
        v = sympy.N(e2, 30)
        if v.is_real is False or v.has(sympy.nan, sympy.zoo, sympy.oo) or v.free_symbols:
            return None
        if isinstance(v, sympy.Piecewise) or not v.is_Number:
            return None
        return float(v)
    except Exception:
        return None


def close(a, b, rel=1e-9):
    if a is None or b is None:
        return None
    return abs(a - b) <= rel * max(1.0, abs(a), abs(b))


class Equiv:
    """Decide lhs == rhs (sympy/pharmpy expressions) for all real inputs on the common domain of definition."""

    def __init__(self, timeout_ms=15000, assumptions=None):
        self.timeout_ms = timeout_ms
        self.assume_syms = assumptions or []      # sympy booleans assumed (e.g. parameter bounds)
        self.queries = 0
        self.solver_s = 0.0
        self.stats = dict(unsat=0, sat_confirmed=0, sat_unreplayable=0, unknown=0, unsupported=0)

    def check(self, lhs, rhs, extra=None, rounds=4, tol=None):
        """returns (verdict, info): verdict in 'equal' | 'differ' | 'inconclusive'."""
        try:
            tr = Tr()
            a = tr.tr(lhs)
            b = tr.tr(rhs)
            pre = [tr.trb(c) for c in self.assume_syms] + [tr.trb(c) for c in (extra or [])]
        except Unsupported as e:
            self.stats['unsupported'] += 1
            return 'inconclusive', dict(reason=f'unsupported: {e}')
        if tol is None:
            neq = a != b
        else:
            # equality up to a relative tolerance (used where pharmpy folds constants in floating point)
            absa = z3.If(a >= 0, a, -a)
            absb = z3.If(b >= 0, b, -b)
            r = sympy.Rational(repr(float(tol)))
            scale = z3.RealVal(f'{r.p}/{r.q}') * (1 + absa + absb)
            neq = z3.Or(a - b > scale, b - a > scale)
        cons = tr.axioms() + tr.side + pre + [neq]
        blocked = []
        for _ in range(rounds):
            r, m, dt = solve(cons + blocked, self.timeout_ms)
            self.queries += 1
            self.solver_s += dt
            if r == 'unsat':
                self.stats['unsat'] += 1
                return 'equal', dict(solver_s=dt)
            if r != 'sat':
                self.stats['unknown'] += 1
                return 'inconclusive', dict(reason=f'solver {r}', solver_s=dt)
            vals = model_values(tr, m)
            va = numeric_eval(lhs, vals)
            vb = numeric_eval(rhs, vals)
            c = close(va, vb)
            if c is False:
                self.stats['sat_confirmed'] += 1
                return 'differ', dict(values=vals, lhs=va, rhs=vb, solver_s=dt)
            # UF artefact (or undefined point): refine with sound interval facts about the real functions at the
            # argument values of this model, then ask again
            ref = self._refine(tr, m)
            if not ref:
                break
            blocked += ref
        self.stats['sat_unreplayable'] += 1
        return 'inconclusive', dict(reason='sat model does not reproduce numerically (uninterpreted-function artefact)')

    @staticmethod
    def _refine(tr, m):
        out = []
        real = {'exp': math.exp, 'log': lambda x: math.log(x) if x > 0 else None}
        for fname, lst in tr.apps.items():
            f = real.get(fname)
            if f is None:
                continue
            for args, v in lst:
                av = m.eval(args[0], model_completion=True)
                x = _z3num(av)
                try:
                    y = f(x)
                except (OverflowError, ValueError):
                    y = None
                if y is None or x != x:
                    continue
                lo = sympy.Rational(repr(y - abs(y) * 1e-9 - 1e-12))
                hi = sympy.Rational(repr(y + abs(y) * 1e-9 + 1e-12))
                if fname == 'exp' and lo <= 0:
                    lo = sympy.Rational(0)
                out.append(z3.Implies(args[0] == av, z3.And(v >= z3.RealVal(f'{lo.p}/{lo.q}'),
                                                             v <= z3.RealVal(f'{hi.p}/{hi.q}'))))
        return out
