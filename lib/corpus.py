"""Corpus of start models (read from /repo at run time; nothing derived from pharmpy is stored in /verif)."""
import glob
import os
import warnings

from vcommon import REPO

warnings.simplefilter('ignore')

EXAMPLES = ['pheno', 'pheno_linear', 'moxo']
TESTDATA = os.path.join(REPO, 'tests', 'testdata', 'nonmem')

CORE_FILES = [
    'pheno_real.mod', 'pheno.mod', 'models/mox2.mod', 'models/mox1.mod', 'models/mox_2comp.mod',
    'models/pheno_advan3_trans1.mod', 'models/fviii6.mod', 'models/pheno5.mod', 'pheno_pd.mod',
    'models/pheno_conc.mod', 'models/pheno_des_assignments.mod', 'minimal.mod', 'pheno_block.mod',
    'pheno_multivariate_piecewise.mod', 'pheno_abbr.mod', 'pheno_etas.mod',
]


def all_model_files():
    out = []
    for pat in ('*.mod', '*.ctl', 'models/*.mod', 'models/*.ctl', 'modeling/*.mod'):
        out += sorted(glob.glob(os.path.join(TESTDATA, pat)))
    ex = os.path.join(REPO, 'src', 'pharmpy', 'internals', 'example_models')
    out += sorted(glob.glob(os.path.join(ex, '*.mod')))
    return out


def load(path):
    from pharmpy.model import Model
    return Model.parse_model(path)


def load_text(path):
    with open(path, encoding='latin-1') as f:
        return f.read()


def core_models(limit=None):
    """(label, model) pairs; files that cannot be read are skipped (counted by the caller)."""
    out = []
    for rel in CORE_FILES[:limit]:
        p = os.path.join(TESTDATA, rel)
        if not os.path.exists(p):
            continue
        try:
            out.append((rel, load(p)))
        except Exception as e:  # noqa
            out.append((rel, e))
    return out
