"""nmref — an independent reference semantics of NM-TRAN / PREDPP (the trusted base of C01/C02, see DESIGN.md
Appendix A).  Shares no code with pharmpy: own record splitter, own tokenizer and recursive-descent parser for
abbreviated code, own $THETA/$OMEGA/$SIGMA reader and own ADVAN/TRANS table.  Abbreviated code is executed as a state
transformer over sympy terms (a conditional assignment is Piecewise((new, cond), (old, True))).

Anything outside the supported subset raises `Unsupported`: the *program* is then skipped by the checks (and counted),
never reported as a violation.
"""
import re

import sympy

UNDEF = sympy.Symbol('UNDEF__')
SMALLZ = sympy.Float('2.8e-103')


class Unsupported(Exception):
    pass


# ---------------------------------------------------------------------------------------------------------------
# records

RECORD_NAMES = ['PROBLEM', 'INPUT', 'DATA', 'SUBROUTINES', 'MODEL', 'PK', 'PRED', 'ERROR', 'DES', 'THETA', 'OMEGA',
                'SIGMA', 'ESTIMATION', 'ESTM', 'COVARIANCE', 'TABLE', 'ABBREVIATED', 'SIMULATION', 'SIZES', 'MIX',
                'INFILE', 'INPT', 'THTA', 'AES', 'AESINITIAL', 'TOL', 'ETAS', 'PHIS', 'MSFI', 'SCATTERPLOT', 'BIND',
                'DESIGN', 'PRIOR', 'LEVEL', 'ANNEAL', 'CHAIN', 'CONTR', 'NONPARAMETRIC', 'OMEGAP', 'OMEGAPD', 'SIGMAP',
                'SIGMAPD', 'THETAP', 'THETAPV', 'THETAI', 'THETAR', 'TTDF', 'WARNINGS', 'INFN', 'SUPER', 'OLKJDF',
                'OVARF', 'RCOV', 'RCOVI', 'SLKJDF', 'SVARF', 'FORMAT', 'INCLUDE', 'DEFAULT', 'ALIAS']
CANON = {'INPT': 'INPUT', 'INFILE': 'DATA', 'THTA': 'THETA', 'ESTM': 'ESTIMATION'}


def canonical_record(name):
    n = name.upper()
    if n == 'PK':
        return 'PK'
    if len(n) < 3:
        raise Unsupported(f'record name ${name}')
    # an abbreviation denotes the first record name in NONMEM's list having it as a prefix
    for full in RECORD_NAMES:
        if full.startswith(n):
            return CANON.get(full, full)
    if n.startswith('SUB'):
        return 'SUBROUTINES'
    if n.startswith('EST'):
        return 'ESTIMATION'
    if n.startswith('COV'):
        return 'COVARIANCE'
    raise Unsupported(f'record name ${name}')


def split_records(text):
    recs = []
    cur = None
    for line in text.splitlines():
        m = re.match(r'^[ \t]*\$([A-Za-z]+)(.*)$', line)
        if m:
            cur = [canonical_record(m.group(1)), m.group(2) + '\n']
            recs.append(cur)
        elif cur is not None:
            cur[1] += line + '\n'
        elif line.strip() and not line.strip().startswith(';'):
            raise Unsupported('text before first record')
    return [(n, b) for n, b in recs]


def strip_comment(line):
    i = line.find(';')
    return line if i < 0 else line[:i]


# ---------------------------------------------------------------------------------------------------------------
# abbreviated code: tokenizer

TOK = re.compile(r'''
    (?P<num>(\d+\.\d*|\.\d+|\d+)([EeDd][+-]?\d+)?)
  | (?P<dotop>\.(EQ|NE|GT|GE|LT|LE|AND|OR|NOT|EQN|NEN|TRUE|FALSE)\.)
  | (?P<id>[A-Za-z_][A-Za-z0-9_]*)
  | (?P<op>\*\*|==|/=|>=|<=|>|<|\+|-|\*|/|\(|\)|,|=)
  | (?P<ws>[ \t]+)
''', re.X | re.I)


def tokenize(line):
    out = []
    i = 0
    while i < len(line):
        m = TOK.match(line, i)
        if not m:
            raise Unsupported(f'cannot tokenize {line[i:i + 10]!r}')
        i = m.end()
        if m.lastgroup == 'ws':
            continue
        kind = m.lastgroup
        text = m.group(kind)
        if kind == 'num':
            out.append(('num', text))
        elif kind == 'dotop':
            out.append(('op', text.upper()))
        elif kind == 'id':
            out.append(('id', text.upper()))
        else:
            out.append(('op', text))
    return out


def logical_lines(body):
    """comment stripping, continuation lines (&), blank lines removed."""
    out = []
    pending = ''
    for raw in body.splitlines():
        if raw.lstrip().startswith('"'):
            raise Unsupported('verbatim code')
        line = strip_comment(raw).rstrip()
        if not line.strip():
            continue
        if line.rstrip().endswith('&'):
            pending += line.rstrip()[:-1] + ' '
            continue
        out.append(pending + line)
        pending = ''
    if pending:
        out.append(pending)
    return out


# ---------------------------------------------------------------------------------------------------------------
# expressions (Fortran precedence)

RELOPS = {'.EQ.': 'eq', '==': 'eq', '.NE.': 'ne', '/=': 'ne', '.GT.': 'gt', '>': 'gt', '.GE.': 'ge', '>=': 'ge',
          '.LT.': 'lt', '<': 'lt', '.LE.': 'le', '<=': 'le', '.EQN.': 'eq', '.NEN.': 'ne'}


class Parser:
    def __init__(self, toks, state, ctx):
        self.toks = toks
        self.i = 0
        self.state = state
        self.ctx = ctx

    def peek(self):
        return self.toks[self.i] if self.i < len(self.toks) else (None, None)

    def take(self, kind=None, text=None):
        k, t = self.peek()
        if k is None or (kind and k != kind) or (text and t != text):
            raise Unsupported(f'expected {text or kind}, got {t!r}')
        self.i += 1
        return t

    def at_end(self):
        return self.i >= len(self.toks)

    # logical level
    def logical(self):
        r = self.and_expr()
        while self.peek() == ('op', '.OR.'):
            self.take()
            r = sympy.Or(r, self.and_expr())
        return r

    def and_expr(self):
        r = self.not_expr()
        while self.peek() == ('op', '.AND.'):
            self.take()
            r = sympy.And(r, self.not_expr())
        return r

    def not_expr(self):
        if self.peek() == ('op', '.NOT.'):
            self.take()
            return sympy.Not(self.not_expr())
        return self.relational()

    def relational(self):
        # a parenthesised logical expression or an arithmetic comparison
        save = self.i
        if self.peek() == ('op', '('):
            # try: ( logical )
            try:
                self.take()
                r = self.logical()
                self.take('op', ')')
                if isinstance(r, sympy.logic.boolalg.Boolean) and self.peek()[1] not in RELOPS \
                        and self.peek()[1] not in ('+', '-', '*', '/', '**'):
                    return r
            except Unsupported:
                pass
            self.i = save
        if self.peek() == ('op', '.TRUE.'):
            self.take()
            return sympy.true
        if self.peek() == ('op', '.FALSE.'):
            self.take()
            return sympy.false
        a = self.arith()
        k, t = self.peek()
        if k == 'op' and t in RELOPS:
            self.take()
            b = self.arith()
            op = RELOPS[t]
            return {'eq': sympy.Eq, 'ne': sympy.Ne, 'gt': sympy.Gt, 'ge': sympy.Ge, 'lt': sympy.Lt,
                    'le': sympy.Le}[op](a, b)
        return a

    # arithmetic level
    def arith(self):
        k, t = self.peek()
        if k == 'op' and t in '+-':
            self.take()
            r = self.term()
            if t == '-':
                r = -r
        else:
            r = self.term()
        while True:
            k, t = self.peek()
            if k == 'op' and t in ('+', '-'):
                self.take()
                x = self.term()
                r = r + x if t == '+' else r - x
            else:
                return r

    def term(self):
        r = self.factor()
        while True:
            k, t = self.peek()
            if k == 'op' and t in ('*', '/'):
                self.take()
                x = self.factor()
                r = r * x if t == '*' else r / x
            else:
                return r

    def factor(self):
        base = self.primary()
        if self.peek() == ('op', '**'):
            self.take()
            # right associative; the exponent may carry a unary sign
            k, t = self.peek()
            sign = 1
            if k == 'op' and t in '+-':
                self.take()
                sign = -1 if t == '-' else 1
            e = self.factor()
            return base ** (sign * e)
        return base

    def primary(self):
        k, t = self.peek()
        if k == 'num':
            self.take()
            return number(t)
        if k == 'op' and t == '(':
            self.take()
            r = self.arith()
            self.take('op', ')')
            return r
        if k == 'op' and t in '+-':
            # a sign directly after another operator (2*-X**2, an extension every Fortran compiler NM-TRAN uses
            # accepts): it applies to the whole power, like a leading sign
            self.take()
            r = self.factor()
            return -r if t == '-' else r
        if k == 'id':
            self.take()
            if self.peek() == ('op', '('):
                self.take()
                args = [self.arith()]
                while self.peek() == ('op', ','):
                    self.take()
                    args.append(self.arith())
                self.take('op', ')')
                return self.call(t, args)
            return self.variable(t)
        raise Unsupported(f'unexpected token {t!r}')

    def variable(self, name):
        if name in self.state:
            return self.state[name]
        return self.ctx.leaf(name)

    def call(self, name, args):
        if name in ('THETA', 'ETA', 'EPS', 'ERR', 'A', 'A_0', 'DADT', 'OMEGA', 'SIGMA'):
            idx = [int(a) for a in args if a.is_Integer or (a.is_Float and a == int(a))]
            if len(idx) != len(args):
                raise Unsupported(f'non-constant index in {name}')
            if name == 'ERR':
                name = 'EPS'
            key = f'{name}({",".join(map(str, idx))})'
            if key in self.state:
                return self.state[key]
            return sympy.Symbol(key)
        return intrinsic(name, args)


def number(t):
    t = t.upper().replace('D', 'E')
    if re.fullmatch(r'\d+', t):
        return sympy.Integer(int(t))
    return sympy.Rational(repr(float(t))) if False else sympy.Float(float(t))


def _pw(*pairs):
    return sympy.Piecewise(*pairs)


def intrinsic(name, args):
    x = args[0]
    n = name[1:] if name[0] in 'DA' and name[1:] in ('EXP', 'LOG', 'LOG10', 'SQRT', 'SIN', 'COS', 'TAN', 'ABS',
                                                     'INT', 'MOD', 'MIN', 'MAX') and name not in ('ABS', 'ASIN',
                                                                                                  'ACOS', 'ATAN') \
        else name
    simple = {'EXP': sympy.exp, 'LOG': sympy.log, 'SQRT': sympy.sqrt, 'SIN': sympy.sin, 'COS': sympy.cos,
              'TAN': sympy.tan, 'ASIN': sympy.asin, 'ACOS': sympy.acos, 'ATAN': sympy.atan, 'ABS': sympy.Abs,
              'GAMLN': sympy.loggamma}
    if n in simple and len(args) == 1:
        return simple[n](x)
    if n == 'LOG10':
        return sympy.log(x, 10)
    if n == 'INT':
        return sympy.sign(x) * sympy.floor(sympy.Abs(x))
    if n == 'MOD' and len(args) == 2:
        a, b = args
        q = a / b
        return a - b * (sympy.sign(q) * sympy.floor(sympy.Abs(q)))       # Fortran: sign of the dividend
    if n == 'MIN':
        return sympy.Min(*args)
    if n == 'MAX':
        return sympy.Max(*args)
    if n == 'PHI':
        return sympy.Function('PHI')(x)
    if n == 'PEXP':
        return _pw((sympy.exp(100), x > 100), (sympy.exp(x), True))
    if n == 'PLOG':
        return _pw((sympy.log(SMALLZ), x < SMALLZ), (sympy.log(x), True))
    if n == 'PLOG10':
        return _pw((sympy.log(SMALLZ, 10), x < SMALLZ), (sympy.log(x, 10), True))
    if n == 'PSQRT':
        return _pw((0, x < 0), (sympy.sqrt(x), True))
    if n == 'PDZ':
        return _pw((1 / SMALLZ, sympy.Abs(x) < SMALLZ), (1 / x, True))
    if n == 'PZR':
        return _pw((SMALLZ, sympy.Abs(x) < SMALLZ), (x, True))
    if n == 'PNP':
        return _pw((SMALLZ, x < SMALLZ), (x, True))
    if n == 'PHE':
        return _pw((100, x > 100), (x, True))
    if n == 'PNG':
        return _pw((0, x < 0), (x, True))
    raise Unsupported(f'function {name}')


# ---------------------------------------------------------------------------------------------------------------
# statements / interpreter

class Ctx:
    """how names that are not assigned are read."""

    def __init__(self, inputs=()):
        self.inputs = set(inputs)
        self.read_undefined = set()

    def leaf(self, name):
        if name == 'T':
            return sympy.Symbol('t')
        return sympy.Symbol(name)


def _merge(cond, s_then, s_else, base):
    """state = ite(cond, s_then, s_else) variable-wise."""
    out = dict(base)
    for v in set(s_then) | set(s_else):
        a = s_then.get(v, base.get(v))
        b = s_else.get(v, base.get(v))
        if a is None:
            a = UNDEF
        if b is None:
            b = UNDEF
        if a is b or a == b:
            out[v] = a
        else:
            out[v] = sympy.Piecewise((a, cond), (b, True))
    return out


def parse_lhs(toks):
    """returns (key, rest tokens after '=')."""
    if toks[0][0] != 'id':
        raise Unsupported(f'statement starting with {toks[0][1]!r}')
    name = toks[0][1]
    if len(toks) > 1 and toks[1] == ('op', '('):
        j = 2
        idx = []
        while toks[j] != ('op', ')'):
            if toks[j][0] == 'num':
                idx.append(toks[j][1])
            elif toks[j] != ('op', ','):
                raise Unsupported('indexed assignment with non-constant index')
            j += 1
        key = f'{name}({",".join(idx)})'
        j += 1
    else:
        key = name
        j = 1
    if j >= len(toks) or toks[j] != ('op', '='):
        raise Unsupported(f'not an assignment: {name}')
    return key, toks[j + 1:]


def split_if(toks):
    """IF ( cond ) rest  ->  (cond tokens, rest tokens)"""
    assert toks[0] == ('id', 'IF')
    if toks[1] != ('op', '('):
        raise Unsupported('IF without parenthesis')
    depth = 0
    for j in range(1, len(toks)):
        if toks[j] == ('op', '('):
            depth += 1
        elif toks[j] == ('op', ')'):
            depth -= 1
            if depth == 0:
                return toks[2:j], toks[j + 1:]
    raise Unsupported('unbalanced IF')


def execute(lines, state, ctx):
    """execute a list of logical lines from `state`; returns the new state."""
    state = dict(state)
    i = 0
    n = len(lines)
    while i < n:
        toks = tokenize(lines[i])
        i += 1
        if not toks:
            continue
        head = toks[0]
        if head == ('id', 'IF'):
            condt, rest = split_if(toks)
            cond = Parser(condt, state, ctx).logical()
            if rest == [('id', 'THEN')]:
                # block IF: collect branches up to the matching ENDIF
                branches = [(cond, [])]
                depth = 0
                while True:
                    if i >= n:
                        raise Unsupported('IF block without ENDIF')
                    t2 = tokenize(lines[i])
                    i += 1
                    if not t2:
                        continue
                    h = [x[1] for x in t2[:2]]
                    is_if_then = t2[0] == ('id', 'IF') and t2[-1] == ('id', 'THEN')
                    if depth == 0 and (h[0] == 'ENDIF' or h[:2] == ['END', 'IF']):
                        break
                    if depth == 0 and (h[0] == 'ELSEIF' or h[:2] == ['ELSE', 'IF']):
                        t3 = t2[1:] if h[0] == 'ELSEIF' else t2[2:]
                        c2, r2 = split_if([('id', 'IF')] + t3)
                        if r2 != [('id', 'THEN')]:
                            raise Unsupported('ELSEIF without THEN')
                        branches.append((('COND', c2), []))
                        continue
                    if depth == 0 and h[0] == 'ELSE' and len(t2) == 1:
                        branches.append((sympy.true, []))
                        continue
                    if is_if_then:
                        depth += 1
                    elif h[0] == 'ENDIF' or h[:2] == ['END', 'IF']:
                        depth -= 1
                    branches[-1][1].append(lines[i - 1])
                # conditions are evaluated in the state before the block; exactly the first true branch executes
                conds = []
                for c, body in branches:
                    if isinstance(c, tuple):
                        c = Parser(c[1], state, ctx).logical()
                    conds.append(c)
                results = [execute(body, state, ctx) for _, body in branches]
                new = dict(state)
                acc = dict(state)       # the "no branch taken" state
                for c, r in reversed(list(zip(conds, results))):
                    acc = _merge(c, r, acc, state)
                state = acc
            else:
                key, rhs = parse_lhs(rest)
                p = Parser(rhs, state, ctx)
                val = p.arith()
                if not p.at_end():
                    raise Unsupported('trailing tokens')
                old = state.get(key, UNDEF)
                state[key] = sympy.Piecewise((val, cond), (old, True))
        elif head[0] == 'id' and head[1] in ('CALL', 'EXIT', 'DO', 'ENDDO', 'RETURN', 'WRITE', 'PRINT', 'OPEN',
                                             'CLOSE', 'REWIND', 'COMRES', 'FIRST', 'MAIN', 'LAST', 'REPLACE',
                                             'INCLUDE', 'CONTINUE', 'END'):
            raise Unsupported(f'statement {head[1]}')
        else:
            key, rhs = parse_lhs(toks)
            p = Parser(rhs, state, ctx)
            val = p.arith()
            if not p.at_end():
                raise Unsupported('trailing tokens')
            state[key] = val
    return state


# ---------------------------------------------------------------------------------------------------------------
# $THETA / $OMEGA / $SIGMA

def _fnum(t):
    u = t.upper()
    if u in ('INF', '+INF', 'INFINITY'):
        return float('inf')
    if u in ('-INF', '-INFINITY'):
        return float('-inf')
    v = float(u.replace('D', 'E'))
    if v >= 1000000:
        return float('inf')
    if v <= -1000000:
        return float('-inf')
    return v


THTOK = re.compile(r'\s*(\(|\)|,|[xX]\s*\d+|[A-Za-z_][A-Za-z0-9_]*|[+-]?(\d+\.\d*|\.\d+|\d+)([EeDd][+-]?\d+)?|[+-]?INF\w*)',
                   re.I)


def _tokens(body, pat=THTOK):
    text = ' '.join(strip_comment(l) for l in body.splitlines())
    out = []
    i = 0
    while i < len(text):
        if text[i].isspace():
            i += 1
            continue
        m = pat.match(text, i)
        if not m:
            raise Unsupported(f'parameter record token {text[i:i + 8]!r}')
        out.append(m.group(1).strip())
        i = m.end()
    return out


def parse_theta(body):
    """list of dict(init, lower, upper, fix)"""
    toks = _tokens(body)
    out = []
    i = 0
    while i < len(toks):
        t = toks[i]
        if t == '(':
            j = toks.index(')', i)
            inner = toks[i + 1:j]
            fix = any(x.upper() in ('FIX', 'FIXED') for x in inner)
            parts = []
            curp = []
            for x in inner:
                if x.upper() in ('FIX', 'FIXED'):
                    continue
                if x == ',':
                    parts.append(curp)
                    curp = []
                else:
                    curp.append(x)
            parts.append(curp)
            if len(parts) == 1 and len(parts[0]) > 1:       # space separated
                parts = [[x] for x in parts[0]]
            vals = [(_fnum(p[0]) if p else None) for p in parts]
            if len(vals) == 1:
                d = dict(init=vals[0], lower=float('-inf'), upper=float('inf'))
            elif len(vals) == 2:
                d = dict(lower=vals[0], init=vals[1], upper=float('inf'))
            elif len(vals) == 3:
                if vals[1] is None:
                    raise Unsupported('theta without initial estimate')
                d = dict(lower=vals[0], init=vals[1], upper=vals[2])
            else:
                raise Unsupported('theta with more than three values')
            if d['lower'] is None:
                d['lower'] = float('-inf')
            if d['upper'] is None:
                d['upper'] = float('inf')
            d['fix'] = fix
            i = j + 1
            rep = 1
            if i < len(toks) and re.fullmatch(r'[xX]\s*\d+', toks[i]):
                rep = int(toks[i][1:])
                i += 1
            if i < len(toks) and toks[i].upper() in ('FIX', 'FIXED'):
                d['fix'] = True
                i += 1
            for _ in range(rep):
                out.append(dict(d))
        elif t.upper() in ('FIX', 'FIXED'):
            if not out:
                raise Unsupported('FIX before value')
            out[-1]['fix'] = True
            i += 1
        elif re.match(r'^[+-]?(\d|\.|INF)', t, re.I):
            out.append(dict(init=_fnum(t), lower=float('-inf'), upper=float('inf'), fix=False))
            i += 1
        else:
            raise Unsupported(f'$THETA option {t}')
    for d in out:
        if d['lower'] == d['upper'] == d['init']:
            d['fix'] = True
    return out


def parse_omega(body, previous_block=None):
    """one $OMEGA/$SIGMA record -> list of blocks: dict(size, values (lower triangle row-wise, as given),
    fix (bool or per-value list), same(bool), sd/corr/chol flags)"""
    toks = _tokens(body)
    opts = dict(block=None, diagonal=None, same=False, fix=False, sd=False, corr=False, chol=False)
    vals = []       # (value, fix)
    i = 0
    while i < len(toks):
        t = toks[i]
        u = t.upper()
        if u.startswith('BLOCK') or u.startswith('DIAG'):
            size = None
            if i + 1 < len(toks) and toks[i + 1] == '(':
                j = toks.index(')', i)
                size = int(toks[i + 2])
                i = j + 1
            else:
                i += 1
            if u.startswith('BLOCK'):
                opts['block'] = size if size is not None else -1
            else:
                opts['diagonal'] = size
        elif u == 'SAME':
            opts['same'] = True
            opts['same_count'] = 1
            i += 1
            if i + 2 < len(toks) and toks[i] == '(' and toks[i + 2] == ')':
                # SAME(m): the previous block is repeated m times
                opts['same_count'] = int(toks[i + 1])
                i += 3
        elif u in ('FIX', 'FIXED'):
            if vals and opts['block'] is None:
                vals[-1] = (vals[-1][0], True)
            else:
                opts['fix'] = True
            i += 1
        elif u in ('SD', 'STANDARD'):
            opts['sd'] = True
            i += 1
        elif u in ('VARIANCE', 'COVARIANCE'):
            i += 1
        elif u in ('CORRELATION', 'CORRELATON'):
            opts['corr'] = True
            i += 1
        elif u == 'CHOLESKY':
            opts['chol'] = True
            i += 1
        elif t == '(':
            j = toks.index(')', i)
            inner = [x for x in toks[i + 1:j] if x != ',']
            fx = any(x.upper() in ('FIX', 'FIXED') for x in inner)
            flags = [x.upper() for x in inner if not re.match(r'^[+-]?(\d|\.)', x)]
            for fl in flags:
                if fl in ('SD', 'STANDARD'):
                    opts['sd'] = True
                elif fl in ('CORRELATION',):
                    opts['corr'] = True
                elif fl == 'CHOLESKY':
                    opts['chol'] = True
                elif fl not in ('FIX', 'FIXED', 'VARIANCE', 'COVARIANCE'):
                    raise Unsupported(f'omega option {fl}')
            nums = [_fnum(x) for x in inner if re.match(r'^[+-]?(\d|\.)', x)]
            i = j + 1
            rep = 1
            if i < len(toks) and re.fullmatch(r'[xX]\s*\d+', toks[i]):
                rep = int(toks[i][1:])
                i += 1
            for _ in range(rep):
                for v in nums:
                    vals.append((v, fx))
        elif re.match(r'^[+-]?(\d|\.)', t):
            vals.append((_fnum(t), False))
            i += 1
        elif u in ('VALUES', 'NAMES', 'UNINT'):
            raise Unsupported(f'omega option {u}')
        else:
            raise Unsupported(f'omega option {t}')
    if opts['block'] is not None:
        if opts['same']:
            if previous_block is None:
                raise Unsupported('SAME without previous block')
            return [dict(size=previous_block['size'], matrix=previous_block['matrix'], fix=previous_block['fix'],
                         same=True) for _ in range(opts.get('same_count', 1))]
        n = opts['block']
        if n == -1:
            raise Unsupported('BLOCK without size')
        if len(vals) != n * (n + 1) // 2:
            raise Unsupported('BLOCK with wrong number of values')
        low = [[0.0] * n for _ in range(n)]
        k = 0
        for r in range(n):
            for c in range(r + 1):
                low[r][c] = vals[k][0]
                k += 1
        mat = _to_cov(low, n, opts)
        return [dict(size=n, matrix=mat, fix=opts['fix'] or any(f for _, f in vals), same=False)]
    # diagonal
    out = []
    for v, fx in vals:
        var = v * v if opts['sd'] else v
        out.append(dict(size=1, matrix=[[var]], fix=fx or opts['fix'], same=False))
    if opts['diagonal'] is not None and opts['diagonal'] != len(out):
        raise Unsupported('DIAGONAL(n) with wrong number of values')
    return out


def _to_cov(low, n, opts):
    import math
    full = [[low[max(r, c)][min(r, c)] for c in range(n)] for r in range(n)]
    if opts['chol']:
        L = [[low[r][c] if c <= r else 0.0 for c in range(n)] for r in range(n)]
        return [[sum(L[r][k] * L[c][k] for k in range(n)) for c in range(n)] for r in range(n)]
    sd = [full[r][r] if opts['sd'] else math.sqrt(full[r][r]) for r in range(n)]
    out = [[0.0] * n for _ in range(n)]
    for r in range(n):
        for c in range(n):
            if r == c:
                out[r][c] = sd[r] * sd[r] if opts['sd'] else full[r][r]
            elif opts['corr']:
                out[r][c] = full[r][c] * sd[r] * sd[c]
            else:
                out[r][c] = full[r][c]
    return out


# ---------------------------------------------------------------------------------------------------------------
# PREDPP: ADVAN / TRANS table

ADVAN_COMPS = {
    1: ['CENTRAL'], 2: ['DEPOT', 'CENTRAL'], 3: ['CENTRAL', 'PERIPHERAL'], 4: ['DEPOT', 'CENTRAL', 'PERIPHERAL'],
    10: ['CENTRAL'], 11: ['CENTRAL', 'PERIPHERAL1', 'PERIPHERAL2'],
    12: ['DEPOT', 'CENTRAL', 'PERIPHERAL1', 'PERIPHERAL2'],
}
ADVAN_OBS = {1: 1, 2: 2, 3: 1, 4: 2, 10: 1, 11: 1, 12: 2}


def micro_constants(advan, trans, P):
    """P(name) -> value of the PK parameter in the final $PK state (leaf symbol if unassigned).  Returns the
    micro-constants NONMEM uses for this ADVAN/TRANS."""
    if advan in (1, 2):
        if trans == 1:
            k = P('K')
        elif trans == 2:
            k = P('CL') / P('V')
        else:
            raise Unsupported(f'ADVAN{advan} TRANS{trans}')
        return dict(K=k, **({'KA': P('KA')} if advan == 2 else {}))
    if advan in (3, 4):
        s = {3: ('12', '21', 'V1', 'V2'), 4: ('23', '32', 'V2', 'V3')}[advan]
        kcp, kpc, vc, vp = 'K' + s[0], 'K' + s[1], s[2], s[3]
        if trans == 1:
            d = {'K': P('K'), kcp: P(kcp), kpc: P(kpc)}
        elif trans == 3:
            d = {'K': P('CL') / P('V'), kcp: P('Q') / P('V'), kpc: P('Q') / (P('VSS') - P('V'))}
        elif trans == 4:
            d = {'K': P('CL') / P(vc), kcp: P('Q') / P(vc), kpc: P('Q') / P(vp)}
        elif trans in (5, 6):
            al, be = P('ALPHA'), P('BETA')
            k21 = (P('AOB') * be + al) / (P('AOB') + 1) if trans == 5 else P(kpc)
            k = al * be / k21
            d = {'K': k, kcp: al + be - k21 - k, kpc: k21}
        else:
            raise Unsupported(f'ADVAN{advan} TRANS{trans}')
        if advan == 4:
            d['KA'] = P('KA')
        return d
    if advan in (11, 12):
        s = {11: ('12', '21', '13', '31', 'V1', 'V2', 'V3'), 12: ('23', '32', '24', '42', 'V2', 'V3', 'V4')}[advan]
        k1, k1b, k2, k2b, vc, vp1, vp2 = 'K' + s[0], 'K' + s[1], 'K' + s[2], 'K' + s[3], s[4], s[5], s[6]
        if trans == 1:
            d = {'K': P('K'), k1: P(k1), k1b: P(k1b), k2: P(k2), k2b: P(k2b)}
        elif trans == 4:
            q1, q2 = ('Q2', 'Q3') if advan == 11 else ('Q3', 'Q4')
            d = {'K': P('CL') / P(vc), k1: P(q1) / P(vc), k1b: P(q1) / P(vp1), k2: P(q2) / P(vc), k2b: P(q2) / P(vp2)}
        elif trans == 6:
            al, be, ga = P('ALPHA'), P('BETA'), P('GAMMA')
            kb1, kb2 = P(k1b), P(k2b)
            ssum = al + be + ga
            psum = al * be + al * ga + be * ga
            k = al * be * ga / (kb1 * kb2)
            kk2 = (psum + kb2 * kb2 - kb2 * ssum - k * kb1) / (kb1 - kb2)
            kk1 = ssum - k - kk2 - kb1 - kb2
            d = {'K': k, k1: kk1, k1b: kb1, k2: kk2, k2b: kb2}
        else:
            raise Unsupported(f'ADVAN{advan} TRANS{trans}')
        if advan == 12:
            d['KA'] = P('KA')
        return d
    raise Unsupported(f'ADVAN{advan}')


def advan_odes(advan, mc, P):
    """dA_i/dt for the library ADVANs, as {compartment number: rhs} over symbols A(i)."""
    A = lambda i: sympy.Symbol(f'A({i})')      # noqa
    if advan == 1:
        return {1: -mc['K'] * A(1)}
    if advan == 2:
        return {1: -mc['KA'] * A(1), 2: mc['KA'] * A(1) - mc['K'] * A(2)}
    if advan == 3:
        return {1: -(mc['K'] + mc['K12']) * A(1) + mc['K21'] * A(2), 2: mc['K12'] * A(1) - mc['K21'] * A(2)}
    if advan == 4:
        return {1: -mc['KA'] * A(1),
                2: mc['KA'] * A(1) - (mc['K'] + mc['K23']) * A(2) + mc['K32'] * A(3),
                3: mc['K23'] * A(2) - mc['K32'] * A(3)}
    if advan == 10:
        return {1: -P('VM') * A(1) / (P('KM') + A(1))}
    if advan == 11:
        return {1: -(mc['K'] + mc['K12'] + mc['K13']) * A(1) + mc['K21'] * A(2) + mc['K31'] * A(3),
                2: mc['K12'] * A(1) - mc['K21'] * A(2), 3: mc['K13'] * A(1) - mc['K31'] * A(3)}
    if advan == 12:
        return {1: -mc['KA'] * A(1),
                2: mc['KA'] * A(1) - (mc['K'] + mc['K23'] + mc['K24']) * A(2) + mc['K32'] * A(3) + mc['K42'] * A(4),
                3: mc['K23'] * A(2) - mc['K32'] * A(3), 4: mc['K24'] * A(2) - mc['K42'] * A(4)}
    raise Unsupported(f'ADVAN{advan}')


def parse_model_record(body):
    """$MODEL -> list of (name, attributes)"""
    text = ' '.join(strip_comment(l) for l in body.splitlines())
    comps = []
    ncomp_decl = None
    for m in re.finditer(r'(COMP(?:ARTMENT)?S?|NCOMP(?:ARTMENTS)?|NCM)\s*=?\s*(\([^)]*\)|\w+)', text, re.I):
        key = m.group(1).upper()
        val = m.group(2)
        if key.startswith('NC'):
            ncomp_decl = int(val)
            continue
        if val.startswith('('):
            parts = re.split(r'[\s,]+', val[1:-1].strip())
            name = parts[0].strip("'\"").upper()
            attrs = [p.upper() for p in parts[1:]]
        else:
            name, attrs = val.upper(), []
        comps.append((name, attrs))
    if not comps and ncomp_decl:
        comps = [(f'COMP{i}', []) for i in range(1, ncomp_decl + 1)]
    if not comps:
        raise Unsupported('$MODEL without compartments')
    return comps


def general_linear_odes(ncomp, state):
    """ADVAN5/7: rate constants Kij / KiTj / Ki0 assigned in $PK."""
    A = lambda i: sympy.Symbol(f'A({i})')      # noqa
    rhs = {i: sympy.Integer(0) for i in range(1, ncomp + 1)}
    for key, val in state.items():
        m = re.fullmatch(r'K(\d+)T(\d+)', key)
        if m:
            a, b = int(m.group(1)), int(m.group(2))
        else:
            m = re.fullmatch(r'K(\d)(\d)', key)
            if not m:
                if re.fullmatch(r'K\d{3,4}', key):
                    raise Unsupported('ambiguous / multi-digit rate constant name')
                continue
            a, b = int(m.group(1)), int(m.group(2))
        if a < 1 or a > ncomp or b > ncomp + 1:
            continue
        rhs[a] = rhs[a] - val * A(a)
        if 1 <= b <= ncomp:
            rhs[b] = rhs[b] + val * A(a)
    return rhs


# ---------------------------------------------------------------------------------------------------------------
# whole control stream

class RefModel:
    pass


def interpret(text):
    recs = split_records(text)
    names = [n for n, _ in recs]
    if names.count('PROBLEM') > 1:
        raise Unsupported('multiple $PROBLEM')
    for bad in ('MIX', 'AES', 'AESINITIAL', 'INFN', 'PRIOR', 'INCLUDE', 'SIZES'):
        if bad in names and bad != 'SIZES':
            raise Unsupported(f'${bad}')
    # $ABBREVIATED: `REPLACE name=ETA(n)` (also THETA / EPS / ERR) is a textual replacement of `name` in the abbreviated
    # code; DERIV1 / DERIV2 / COMRES / COMSAV / CHECKMU / (NO)FASTDER do not change the model function.  Anything else
    # (selectors, REPLACE with ranges, FUNCTION, VECTOR) is outside the supported subset.
    replace_rules = []
    for n, b in recs:
        if n != 'ABBREVIATED':
            continue
        for line in b.splitlines():
            toks = strip_comment(line).split()
            i = 0
            while i < len(toks):
                t = toks[i].upper()
                if t == 'REPLACE' and i + 1 < len(toks):
                    m = re.fullmatch(r'(\w+)=((?:THETA|ETA|EPS|ERR)\(\d+\))', toks[i + 1], re.I)
                    if not m:
                        raise Unsupported('$ABBREVIATED REPLACE form')
                    replace_rules.append((m.group(1), m.group(2).upper()))
                    i += 2
                elif re.fullmatch(r'(DERIV1|DERIV2|COMRES|COMSAV|CHECKMU)(=\S+)?|NOFASTDER|FASTDER', t):
                    i += 1
                else:
                    raise Unsupported(f'$ABBREVIATED {toks[i]}')
    ref = RefModel()
    ref.records = recs

    def body(name):
        text_ = '\n'.join(b for n, b in recs if n == name)
        if name in ('PRED', 'PK', 'ERROR', 'DES'):
            for old, new in replace_rules:
                text_ = re.sub(r'(?<![\w.])' + re.escape(old) + r'(?![\w(])', new, text_, flags=re.I)
        return text_
    ref.thetas = []
    for n, b in recs:
        if n == 'THETA':
            ref.thetas += parse_theta(b)
    for kind in ('OMEGA', 'SIGMA'):
        blocks = []
        prev = None
        for n, b in recs:
            if n == kind:
                new = parse_omega(b, prev)
                blocks += new
                prev = new[-1] if new else prev
        setattr(ref, kind.lower() + '_blocks', blocks)
    ctx = Ctx()
    ref.advan = ref.trans = None
    ref.odes = {}
    ref.comp_names = []
    ref.obs = None
    if 'PRED' in names:
        ref.kind = 'PRED'
        ref.final = execute(logical_lines(body('PRED')), {}, ctx)
        ref.pk = {}
        return ref
    ref.kind = 'PK'
    sub = ' '.join(strip_comment(l) for l in body('SUBROUTINES').splitlines()).upper()
    ma = re.search(r'ADVAN\s*=?\s*(?:ADVAN)?(\d+)|ADVAN(\d+)', sub)
    mt = re.search(r'TRANS\s*=?\s*(?:TRANS)?(\d+)|TRANS(\d+)', sub)
    if not ma:
        raise Unsupported('no ADVAN')
    advan = int(ma.group(1) or ma.group(2))
    trans = int(mt.group(1) or mt.group(2)) if mt else 1
    ref.advan, ref.trans = advan, trans
    pk = execute(logical_lines(body('PK')), {}, ctx)
    ref.pk = pk

    def P(name):
        return pk.get(name, sympy.Symbol(name))
    if advan in ADVAN_COMPS:
        mc = micro_constants(advan, trans, P) if advan != 10 else {}
        ref.micro = mc
        ref.odes = advan_odes(advan, mc, P)
        ref.comp_names = ADVAN_COMPS[advan]
        ref.obs = ADVAN_OBS[advan]
        ref.dose_default = 1
    elif advan in (5, 7):
        if trans != 1:
            raise Unsupported('ADVAN5/7 with TRANS != 1')
        comps = parse_model_record(body('MODEL'))
        ref.comp_names = [c for c, _ in comps]
        ref.odes = general_linear_odes(len(comps), pk)
        ref.obs = next((i for i, (_, a) in enumerate(comps, 1) if 'DEFOBSERVATION' in a or 'DEFOBS' in a), None)
        if ref.obs is None:
            ref.obs = next((i for i, (c, _) in enumerate(comps, 1) if c == 'CENTRAL'), 1)
        ref.dose_default = next((i for i, (_, a) in enumerate(comps, 1) if 'DEFDOSE' in a), None)
    elif advan in (6, 8, 9, 13, 14, 15):
        comps = parse_model_record(body('MODEL'))
        ref.comp_names = [c for c, _ in comps]
        des = execute(logical_lines(body('DES')), dict(pk), ctx)
        for i in range(1, len(comps) + 1):
            if f'DADT({i})' in des:
                ref.odes[i] = des[f'DADT({i})']
        ref.obs = next((i for i, (_, a) in enumerate(comps, 1) if 'DEFOBSERVATION' in a or 'DEFOBS' in a), None)
        if ref.obs is None:
            ref.obs = next((i for i, (c, _) in enumerate(comps, 1) if c == 'CENTRAL'), 1)
        ref.dose_default = next((i for i, (_, a) in enumerate(comps, 1) if 'DEFDOSE' in a), None)
    else:
        raise Unsupported(f'ADVAN{advan}')
    # F = A(obs)/S_obs  (SC is a synonym of the scale of the central compartment)
    A_obs = sympy.Symbol(f'A({ref.obs})')
    scale = pk.get(f'S{ref.obs}')
    if scale is None and ref.comp_names[ref.obs - 1] == 'CENTRAL':
        scale = pk.get('SC')
    ref.F = A_obs / scale if scale is not None else A_obs
    err_state = dict(pk)
    err_state['F'] = ref.F
    ref.final = execute(logical_lines(body('ERROR')), err_state, ctx)
    ref.attach = {}
    for i in range(1, len(ref.comp_names) + 1):
        ref.attach[i] = dict(lag=pk.get(f'ALAG{i}', sympy.Integer(0)), bio=pk.get(f'F{i}', sympy.Integer(1)),
                             rate=pk.get(f'R{i}'), duration=pk.get(f'D{i}'))
    return ref
