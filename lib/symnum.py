"""symnum — a small symbolic executor for numeric kernels that run through numpy *object* arrays.

CrossHair realises its symbolic floats at every numpy boundary, so numpy code is out of its reach.  numpy does,
however, execute elementwise arithmetic, `np.sqrt`, `np.diag`, `np.outer`, `@` and boolean-mask assignment on arrays of
dtype=object by calling the Python operators / the `.sqrt()` method of the elements.  `SymReal` wraps a z3 Real term and
implements those operators, so the REAL pharmpy function runs unmodified on an object array and returns z3 terms.

Branches: a comparison yields a `SymBool`; when the code (or numpy) asks for its truth value, the explorer decides it
with the solver under the current path condition: if only one outcome is feasible it is taken, otherwise the path forks
(the function is re-executed with the recorded decision prefix, depth first).  Every feasible path is explored up to
`max_paths`; exceeding it is reported, never silently truncated.

Square roots are introduced as fresh variables `s` with `s >= 0 and s*s == x` (exact over the reals) and the side
condition `x >= 0` is recorded as a domain assumption of the path.
"""
import z3


class _Ctx:
    def __init__(self, prefix, base, timeout_ms):
        self.prefix = list(prefix)
        self.decisions = []        # (taken: bool, other_feasible: bool)
        self.path = []             # z3 constraints of decisions taken
        self.defs = []             # definitional constraints (sqrt, inverse)
        self.domain = []           # side conditions (sqrt argument >= 0, divisor != 0)
        self.base = list(base)
        self.sqrt_cache = {}
        self.nfresh = 0
        self.queries = 0
        self.timeout_ms = timeout_ms

    def fresh(self, stem):
        self.nfresh += 1
        return z3.Real(f'{stem}!{self.nfresh}')

    def feasible(self, cond):
        s = z3.Solver()
        s.set('timeout', self.timeout_ms)
        s.add(*self.base, *self.defs, *self.domain, *self.path, cond)
        self.queries += 1
        r = s.check()
        return str(r) != 'unsat'      # unknown counts as feasible (explored, decided later by the obligation)

    def decide(self, term):
        t = z3.simplify(term)
        if z3.is_true(t):
            return True
        if z3.is_false(t):
            return False
        i = len(self.decisions)
        if i < len(self.prefix):
            taken = self.prefix[i]
            self.decisions.append((taken, False))
        else:
            can_t = self.feasible(t)
            can_f = self.feasible(z3.Not(t))
            if can_t and can_f:
                taken = True
                self.decisions.append((True, True))
            elif can_t:
                taken = True
                self.decisions.append((True, False))
            else:
                taken = False
                self.decisions.append((False, False))
        self.path.append(t if taken else z3.Not(t))
        return taken


_CUR = [None]


def ctx():
    c = _CUR[0]
    if c is None:
        raise RuntimeError('symnum: no exploration in progress')
    return c


def _term(o):
    if isinstance(o, SymReal):
        return o.t
    if isinstance(o, bool):
        return z3.RealVal(int(o))
    if isinstance(o, int):
        return z3.RealVal(o)
    if isinstance(o, float):
        if o != o or o in (float('inf'), float('-inf')):
            raise ValueError('symnum: non-finite constant')
        return z3.RealVal(repr(o))
    try:
        import numpy as np
        if isinstance(o, (np.integer,)):
            return z3.RealVal(int(o))
        if isinstance(o, (np.floating,)):
            return z3.RealVal(repr(float(o)))
    except ImportError:
        pass
    return None


class SymBool:
    __slots__ = ('t',)

    def __init__(self, t):
        self.t = t

    def __bool__(self):
        return ctx().decide(self.t)

    def __and__(self, o):
        return SymBool(z3.And(self.t, o.t if isinstance(o, SymBool) else z3.BoolVal(bool(o))))

    __rand__ = __and__

    def __or__(self, o):
        return SymBool(z3.Or(self.t, o.t if isinstance(o, SymBool) else z3.BoolVal(bool(o))))

    __ror__ = __or__

    def __invert__(self):
        return SymBool(z3.Not(self.t))


class SymReal:
    __slots__ = ('t',)
    __array_priority__ = 1000

    def __init__(self, t):
        self.t = t

    def _bin(self, o, f):
        b = _term(o)
        if b is None:
            return NotImplemented
        return SymReal(f(self.t, b))

    def __add__(self, o):
        return self._bin(o, lambda a, b: a + b)

    def __radd__(self, o):
        return self._bin(o, lambda a, b: b + a)

    def __sub__(self, o):
        return self._bin(o, lambda a, b: a - b)

    def __rsub__(self, o):
        return self._bin(o, lambda a, b: b - a)

    def __mul__(self, o):
        return self._bin(o, lambda a, b: a * b)

    def __rmul__(self, o):
        return self._bin(o, lambda a, b: b * a)

    def _div(self, num, den):
        ctx().domain.append(den != 0)
        return num / den

    def __truediv__(self, o):
        return self._bin(o, lambda a, b: self._div(a, b))

    def __rtruediv__(self, o):
        return self._bin(o, lambda a, b: self._div(b, a))

    def __neg__(self):
        return SymReal(-self.t)

    def __pos__(self):
        return self

    def __abs__(self):
        return SymReal(z3.If(self.t >= 0, self.t, -self.t))

    def __pow__(self, o):
        if isinstance(o, int) and 0 <= o <= 4:
            r = z3.RealVal(1)
            for _ in range(o):
                r = r * self.t
            return SymReal(r)
        if o == 0.5:
            return self.sqrt()
        return NotImplemented

    def sqrt(self):
        c = ctx()
        key = z3.simplify(self.t).sexpr()
        if key not in c.sqrt_cache:
            s = c.fresh('sqrt')
            c.defs.append(z3.And(s >= 0, s * s == self.t))
            c.domain.append(self.t >= 0)
            c.sqrt_cache[key] = s
        return SymReal(c.sqrt_cache[key])

    def _cmp(self, o, f):
        b = _term(o)
        if b is None:
            return NotImplemented
        return SymBool(f(self.t, b))

    def __eq__(self, o):
        return self._cmp(o, lambda a, b: a == b)

    def __ne__(self, o):
        return self._cmp(o, lambda a, b: a != b)

    def __lt__(self, o):
        return self._cmp(o, lambda a, b: a < b)

    def __le__(self, o):
        return self._cmp(o, lambda a, b: a <= b)

    def __gt__(self, o):
        return self._cmp(o, lambda a, b: a > b)

    def __ge__(self, o):
        return self._cmp(o, lambda a, b: a >= b)

    __hash__ = None

    def __float__(self):
        raise TypeError('symnum: a symbolic real was forced to a Python float (code left the object-array domain)')

    def __repr__(self):
        return f'SymReal({self.t})'


class PathResult:
    def __init__(self, c, value, error):
        self.path = c.path
        self.defs = c.defs
        self.domain = c.domain
        self.value = value
        self.error = error
        self.decisions = [d for d, _ in c.decisions]


def explore(fn, base=(), max_paths=512, timeout_ms=10000):
    """Run fn() over every feasible decision path.  Returns (list of PathResult, stats)."""
    stack = [[]]
    out = []
    queries = 0
    complete = True
    while stack:
        if len(out) >= max_paths:
            complete = False
            break
        prefix = stack.pop()
        c = _Ctx(prefix, base, timeout_ms)
        _CUR[0] = c
        value, error = None, None
        try:
            value = fn()
        except Exception as e:  # noqa  (reported per path; the caller decides whether it is legitimate)
            error = e
        finally:
            _CUR[0] = None
        queries += c.queries
        out.append(PathResult(c, value, error))
        for i in range(len(prefix), len(c.decisions)):
            taken, other = c.decisions[i]
            if other:
                stack.append([d for d, _ in c.decisions[:i]] + [not taken])
    return out, dict(paths=len(out), complete=complete, feasibility_queries=queries)


def prove(pr, base, goal, timeout_ms=20000):
    """unsat of (base and path and defs and domain and not goal)  ->  'unsat' | 'sat' (+model) | 'unknown'"""
    s = z3.Solver()
    s.set('timeout', timeout_ms)
    s.add(*base, *pr.defs, *pr.domain, *pr.path, z3.Not(goal))
    r = str(s.check())
    if r == 'sat':
        return r, s.model()
    return r, None


def witness(pr, base, timeout_ms=20000):
    """the path is reachable (non-vacuity)"""
    s = z3.Solver()
    s.set('timeout', timeout_ms)
    s.add(*base, *pr.defs, *pr.domain, *pr.path)
    return str(s.check())
