"""Generates MANIFEST.json from the table below (kept in one place so that it stays valid)."""
import json
import os

VERIF = os.path.dirname(os.path.dirname(os.path.abspath(__file__)))

CHECKS = {}
NA = {}


def chk(pid, category, text, note, technique, design_ref, engine):
    CHECKS[pid] = dict(
        property_id=pid,
        quick_cmd=f'bin/check {pid} --tier quick',
        thorough_cmd=f'bin/check {pid} --tier thorough',
        evidence_file=f'/verif/evidence/{pid}.json',
        replay_cmd_template=f'bin/check {pid} --replay {{path}}',
        engine=engine,
        level_claimed=dict(category=category, text=text, design_ref=design_ref),
        level_note=note,
        technique=technique)


chk('C15', 'model_checking',
    'Inductive step over the real lock classes: from every symbolic pre-state satisfying the invariant (<=3 threads, '
    '<=2 processes, bounded hold counts) one real critical section is executed under CrossHair/z3 and the invariant, '
    'reader-writer exclusion, refusal rules and the no-lost-wake-up clause are asserted; plus a bounded 2-request '
    'history of the composed path_lock. One step from an arbitrary invariant state covers histories of any length '
    'within the bounds; a step that leaves its critical section and enters another one is interleaved with a complete '
    'rival request in between (rely/havoc at the gap; descriptor-pool race re-enacted with real threads and lockf).',
    'Trusted: contract models of Condition(RLock), Lock, POSIX lockf for two processes, os.open/close; the invariant; '
    'well-nested acquisitions. Counterexamples are re-enacted with real threads / real lockf / a real second process.',
    'symbolic execution (CrossHair+z3) of real lock code from symbolic invariant states; inductive step',
    'DESIGN.md section 3 C15', 'E3')

chk('C10', 'translation_validation',
    'Every straight-line program within the bound (<=3 statements exhaustively, 4 without piecewise; 3 assignables, 3 '
    'leaves, reassignment, self reference, piecewise, ODE templates) is run through the real dataflow analyses and z3 '
    'decides, for all numeric environments, agreement with an independent sequential reference interpreter: '
    'full_expression equals the executed value, every leaf missing from dependencies() is semantically irrelevant, '
    'remove_symbol_definitions preserves every remaining value, subs/reassign/find_assignment match the reference edit.',
    'Trusted: the reference interpreter (lib/semeq.py) and the sympy->z3 translation (polynomial/piecewise fragment, no '
    'uninterpreted functions needed here). Programs are enumerated, numeric inputs are solver-decided; sat models are '
    'replayed numerically on pharmpy expressions. Programs longer than the bound are outside the claim.',
    'z3 equivalence / semantic-dependency queries over enumerated programs (translation validation)',
    'DESIGN.md section 3 C10', 'E2')

chk('C05', 'translation_validation',
    'For all digraphs on <=3 named compartments x output subsets x dose placement (plus Michaelis-Menten, input, '
    'lag/bioavailability variants and all builder histories of length <=2 from 4 seeds) z3 decides, for all rate and '
    'amount values, that eqs, compartmental_matrix, amounts, names and zero_order_inputs describe the system the builder '
    'calls declared (harness-kept table keyed by compartment name): per-compartment balance, mass balance, M*A+u == eqs '
    'in one order, conversion back, subs (also of an amount function, with an amount-dependent rate) and dict round trip.',
    'Trusted: the harness table of declared flows; sympy->z3 translation; rates positive. n>3 (quick) and longer '
    'histories are outside the claim.',
    'z3 entrywise identities between pharmpy-produced ODE views and the declared graph',
    'DESIGN.md section 3 C05', 'E2')

chk('C16', 'model_checking',
    'The real transaction/snapshot/store_model/retrieve_model code runs under CrossHair over an in-memory file system; '
    'the crash point (before any of the first 30 file-system operations, torn writes included), the two stored models '
    'and the dataset sharing are symbolic. After restart: readers get a refusal or a complete entry, committed entries '
    'are intact, every key that was not mid-transaction can be stored and retrieved. Up to 12 (14) models with pairwise '
    'different datasets stored in sequence keep their own dataset files. Annotations and log lines are checked verbatim '
    'on symbolic strings; the annotation read-modify-write is one exclusive critical section.',
    'Trusted: in-memory FS contract, token-level models of writers/ModelHash, serialised transactions (C15). '
    'Counterexamples are re-enacted on a real directory with real models and writers before being reported; fixed '
    'conformance scenarios run on both sides in every run, and one that fails on the real directory is reported as a '
    '(concrete) violation.',
    'symbolic execution (CrossHair+z3) of real protocol code with symbolic crash point over a model file system',
    'DESIGN.md section 3 C16', 'E3')

chk('C01', 'translation_validation',
    'Every control stream of the repository corpus that this environment can read plus a generated family (precedence '
    'and associativity forms, all intrinsic/protected functions, all relational/logical spellings, logical and block '
    'IF templates, ADVAN1-4/10-12 x TRANS1-6 with S/SC/ALAG/F variants, ADVAN5/7, $DES, $ERROR forms, '
    '$THETA/$OMEGA/$SIGMA forms) is read by pharmpy and interpreted by an independent reference semantics of '
    'NM-TRAN/PREDPP; z3 decides for all thetas, etas, epsilons, data items and amounts that every variable (incl. F, Y) '
    'and every dA/dt agree (compartments matched by dynamics); parameters and covariance structure are compared exactly.',
    'Trusted: lib/nmref.py (reference semantics, DESIGN.md Appendix A; agrees with pharmpy on the whole readable corpus), '
    'sympy->z3 translation with uninterpreted exp/log (sound for equivalence; sat models replayed numerically). '
    'Programs outside the reference subset are skipped and counted.',
    'z3 equivalence between pharmpy model IR and an independent NM-TRAN reference semantics (translation validation)',
    'DESIGN.md section 3 C01', 'E2')

chk('C02', 'translation_validation',
    'For each start model and each history of public transformations within the bound (all length<=1 from 6 start '
    'models, length 2 from two, 22-op alphabet) pharmpy generates code; the reference semantics interprets the '
    'GENERATED code and z3 decides for all numeric inputs that it denotes the in-memory model (statements, dA/dt under '
    'the numbering the code defines, lag/bioavailability, dose compartment, parameters, covariance structure); the '
    'written-and-re-read model is compared with the in-memory one the same way, and the dataset read back through the '
    'generated $DATA/$INPUT equals the in-memory dataset; start models include two that were written to and read from '
    'disk with an explicit CMT column, and histories that only renumber etas.',
    'Trusted: lib/nmref.py (incl. $ABBR REPLACE, SAME(m)); positional THETA/ETA/EPS correspondence; write_model/read_model run concretely in a temp '
    'directory. Histories are enumerated, numeric inputs solver-decided. Known code-generation defects are listed in '
    'known_findings.json by (history pattern, obligation).',
    'z3 equivalence between generated NM-TRAN code (reference semantics) and the model IR; read-back equivalence',
    'DESIGN.md section 3 C02', 'E2')

chk('C07', 'translation_validation',
    'For corpus and generated start models and reachable variants x 15 refactorings (mu-referencing, declarative, '
    'cleanup, two compositions, greekify, rename of parameters / statement variables, simplify_expression, remove unused, join/split distributions, replace fixed thetas / non-random rvs, convert to generic, unload/load '
    'dataset) z3 decides for all inputs within parameter bounds that every commonly defined variable, every dA/dt and '
    'the dose attachments are unchanged up to the declared renaming; solve_ode_system by substitution into the ODE; '
    'prediction / gradient extractors against symbolic derivatives of the model function.',
    'Trusted: reference interpretation of model.statements (lib/semeq.py); uninterpreted exp/log with sound axioms; '
    'numeric replay of sat models. The pandas-based numeric evaluators are outside the claim.',
    'z3 equivalence of model functions before/after each refactoring (translation validation)',
    'DESIGN.md section 3 C07', 'E2')

chk('C11', 'translation_validation',
    'Partial claim (the algebra): for all collections of <=4 normal/joint-normal variables in <=3 blocks with symbolic '
    'entries and all operation sequences of length <=2 over join (fill / named), unjoin, selection, subs, + the real '
    'RandomVariables API is run and z3 decides, for all parameter values, that every variance, every covariance inside a '
    'block and every entry of covariance_matrix equal the harness table of declared (co)variances; names, levels, block '
    'membership and the order of uninvolved variables are compared structurally. Conversion clause: the real '
    'internals.math.cov2corr / corr2cov and modeling.calculate_{se,corr,cov,prec}_from_* run on numpy object arrays / '
    'pandas object frames of z3 Real terms (lib/symnum.py: every branch on an entry is decided or forked by the solver); '
    'on every path z3 decides the defining relation (corr_ij*sd_i*sd_j = cov_ij, P.C = I, se_i^2 = C_ii, labels kept) and '
    'the round trips cov -> (corr, se) -> cov for ALL matrices of size n <= 3 (thorough: inverse-free ones n = 4); UCP '
    'matrix kernel: estimation._descale_matrix(u0, _scale_matrix(A)) = A for all A = L.L^T, n <= 3, every sign pattern '
    'of the off-diagonal Cholesky entries (initial UCPs 0.1 / +-0.1 by NONMEM convention; cholesky = contract stub).',
    'NOT claimed: nearest PSD repair, parameters_sdcorr (only a concrete companion probe, probe:sdcorr, on six fixed '
    'collections incl. variance parameters shared between distributions), the theta part of UCP scaling (np.linalg eig/svd, math.log and '
    'symengine substitution, out of solver reach); float rounding. Trusted: the harness table; sympy->z3 translation; numpy object-'
    'array semantics; np.linalg.inv replaced by its contract (A.X = X.A = I).',
    'z3 entrywise equality of covariance structures after real RandomVariables operations; symbolic execution of the '
    'real conversion kernels over numpy object arrays of z3 terms',
    'DESIGN.md section 3 C11', 'E2')

chk('C06', 'other',
    'Partial claim. Bounded-exhaustive symbolic execution of the real constructors and value-object protocol: '
    'Parameter.create/replace keep lower <= init <= upper and init not NaN, or raise ValueError, for every IEEE double '
    'triple; Parameters.create/+/replace and RandomVariables.create give unique names or ValueError; == is reflexive, '
    'symmetric, !=-consistent and consistent with hash and copy/deepcopy for Parameter, Parameters, ColumnInfo, DataInfo, '
    'VariabilityLevel/Hierarchy, EstimationStep, SimulationStep, ExecutionSteps; public properties cannot be assigned '
    'and replace() leaves the original unchanged.',
    'NOT claimed as a solver verdict: "no public function mutates its argument incl. DataFrame contents" (pandas/symengine '
    'are not symbolically reachable) - a concrete companion probe (sampling; evidence entry probe:no_mutation) calls '
    '~185 pharmpy.modeling functions on four start models and compares a deep snapshot of the input before/after; '
    'statement/code well-formedness, Expr-bearing classes and Model. Trusted: structural model of '
    'builtin hash (failing laws re-decided with the real hash), Unit table, np.isnan/float wrappers, FakeDist.',
    'symbolic execution (CrossHair+z3, IEEE FP theory) of real constructors, __eq__/__hash__, copy, replace',
    'DESIGN.md section 3 C06', 'E1')

chk('C12', 'other',
    'Partial claim. For every symbolic field valuation within the bounds (strings <=3, all floats and ints, flags, each '
    'option over its table, collections <=2-3) of Parameter, Parameters, ColumnInfo, DataInfo, VariabilityLevel/Hierarchy, '
    'EstimationStep, SimulationStep, ExecutionSteps, LogEntry: to_dict contains only JSON types and leaves the object '
    'unchanged, from_dict(to_dict(x)) == x, and from_dict(json.loads(json.dumps(to_dict(x)))) == x.',
    'NOT claimed as a solver verdict: ModelHash stability across processes / PYTHONHASHSEED / construction order and '
    'its sensitivity to content (two concrete companion probes, sampling: one model keyed in four interpreters; 40 '
    'models with pairwise different datasets created one after the other in one interpreter must get 40 keys, name / '
    'description ignored, inits / statements / steps not), the generic-code round trip and the Expr-bearing components '
    '(a third probe: twelve model variants with joint distributions, rich compartmental systems, piecewise effects, BLQ '
    'likelihood, falsy step options must parse back equal and with the same key). Trusted: JSON contract model (cross-checked against the real json '
    'module on failing paths, samples and jsonreal_* obligations) and the stubs shared with C06.',
    'symbolic execution (CrossHair+z3) of real to_dict/from_dict with a structural JSON model',
    'DESIGN.md section 3 C12', 'E1')

chk('C08', 'translation_validation',
    'Request sequences over the MFL feature alphabet (absorption, elimination, peripherals, transits, lag time, '
    'bioavailability; all of length 1 and 2, and all triples (c=v1, other category, c=v2) from an IV and an oral start '
    'model) run through the real setters from corpus models. z3 decides for all numeric '
    'inputs that requesting a feature twice equals once and that undoing a feature restores the previous model function '
    '(statements, dA/dt matched by dynamics, dose attachments, unmatched parameters by position). The detector / '
    'other-category / totality clauses are finite concrete comparisons and are labelled so.',
    'Trusted: lib/semeq.py reference interpretation; refusal kinds ValueError/NotImplementedError; the absorption-family '
    'members (absorption, transits, lag) interact, so their detector and reversibility clauses are demanded only from '
    'the default state. Metabolite/effect/TMDD features are outside.',
    'z3 model-function equivalence for idempotence/reversibility of real feature setters + concrete detectors',
    'DESIGN.md section 3 C08', 'E2')

chk('C09', 'translation_validation',
    'The real extension functions are applied to corpus models and z3 decides for all numeric inputs: the extended '
    'parameter equals op(old parameter, documented covariate-effect template) with the centring statistic recomputed from '
    'the dataset by the harness; neutrality at the reference covariate value / eta = 0 / reference weight; IIV forms '
    'add/prop/exp/log as documented; eta transformations neutral at eta = 0; error-model setters give Y = f + noise(f, '
    'eps) of the named model and leave f unchanged; KA = 1/MAT, D1 = 2 MAT, transit rates n/MDT or (n+1)/MDT; removing '
    'an extension restores the previous model function. Also: each transformed eta equals its documented transformation '
    '(one call / separate calls), BLQ transformation composed with the power error model (both orders), sibling models '
    'sharing one data file with different filters, categorical covariates varying within individuals.',
    'Trusted: templates written from the docstrings; lib/semeq.py; uninterpreted exp/log/pow with sound axioms and '
    'numeric replay. Also: add_iov neutral at eta 0 / remove_iov restores, IIV on RUV template, time-varying error '
    'model, BLQ M3/M4 likelihood and SD, remove_iiv on existing / transformed etas, transit-count sequences. '
    'dtbs/weighted error models are outside.',
    'z3 identities between real extension results and documented formulas',
    'DESIGN.md section 3 C09', 'E2')

chk('C03', 'other',
    'Mechanism level, bounded symbolic execution (CrossHair/z3): the real lark record parsers on every text of <=2 '
    '(thorough 3) characters over 7-character per-record alphabets (reject, or str(root)==T; also through NMTranParser), '
    'and the code that makes the round trip and frame conditions hold: the ignored-character tokenizer (<=3/4 chars), '
    'interleave_ignored / with_ignored_tokens on stand-in trees with symbolic token ranges (8 shapes), NMTranParser '
    'record splitting (<=4/5 chars), CodeRecord.update_statements + _index_statements_diff bookkeeping (<=2 statements '
    'of 3, also statements owning two parse-tree nodes), AttrTree edit helpers (<=3/4 children), record-level edits of '
    'streams with duplicate records; and at model level: control streams assembled from one variant per record slot '
    '(10 slots, 2-4 variants, table-indexed) are read by the real Model.parse_model_from_string and code(update(M)) == T, '
    'and after one edit (theta init, description, sigma init, a $PK statement, the model name, the estimation method) every '
    'unrelated record is preserved in order, the other lines of the edited $PK record are kept verbatim, comments of '
    're-written records survive exactly; a statement appended at an unterminated end of the stream stays on its own line.',
    'Partial: a grammar defect that needs more than 2-3 characters to show is NOT detected; model-level texts are the '
    'stated slot table (solver enumerates it, real code runs concretely per entry); '
    'real statement printing and AbbreviatedRecordParser are outside. Trusted: lark.Token stand-in, '
    'identity record parser in the splitting obligation, _statement_to_nodes stub, identity-equality Assignment subclass; '
    'counterexamples are re-evaluated with the real lark.Token / parsers.',
    'symbolic execution (CrossHair+z3) of real parser / CST code, bounded',
    'DESIGN.md section 3 C03', 'E1')

chk('C04', 'other',
    'Partial, mechanism level: CrossHair/z3 on the real lcs.diff (script reproduces old and new and keeps a longest '
    'common subsequence, sequences <=3), reorder_diff, update_thetas and update_random_variable_records over contract '
    'stubs of the record classes (every record layout and every keep/change/remove/add edit within k<=3: each record '
    'receives exactly its own parameters, unchanged records are returned as the same object), parameters_from_blocks / '
    'rvs_from_blocks numbering incl. SAME (<=3 blocks), a z3 integer lemma for triangular_root; and the REAL '
    'ThetaRecord.update/remove and OmegaRecord.update/remove on tables of 15 (24) $THETA and 21 (33) $OMEGA/$SIGMA record '
    'texts x edits: the independent reader nmref.parse_theta/parse_omega re-reads exactly the requested parameters, '
    'pharmpy re-reads the same, a no-op edit is byte-identical, only the changed tokens are respelled; at model level the '
    'parameters (by NAME) and random variables re-read from the generated code equal the in-memory ones after 17 '
    'public-API edits over the record-layout table, over four etas in multi-value records and over five etas (diagonal '
    'record + BLOCK(3), members split off).',
    '$ABBR and IOV/SAME updates and the composition update_thetas -> real records at model level (beyond C02/C03) are '
    'outside. Record texts are table-indexed (solver enumerates, real code runs concretely per entry). Reordering kept '
    'thetas/etas is outside the edit alphabet of the property. Nine deviation regions are known findings.',
    'symbolic execution (CrossHair+z3) of real diff / record-update bookkeeping over contract stubs; z3 lemma',
    'DESIGN.md section 3 C04', 'E1')

chk('C13', 'other',
    'Partial (lexical kernel): bounded symbolic execution (CrossHair/z3) of the real separator regex (AST-extracted from '
    'the source), NMTRANDataIO prefilter, _convert_data_item / convert_fortran_number and parse_column_info against a '
    'reference reader written from docs/NONMEM.rst: all rows/texts <=4 (thorough 5) characters and all items <=3-4 '
    'characters over the stated alphabets, <=2 $INPUT options; plus z3 regex-theory equivalence of the separator and '
    'comment regex literals with the documented languages (no length bound).',
    'NOT claimed as a solver verdict: pd.read_table assembly / padding and the IGNORE/ACCEPT filters (two concrete '
    'companion probes, sampling: the real read_nonmem_dataset on two fixed data texts / 16 filter lists must agree cell '
    'by cell, with exact float equality, with the composition of the reference kernel; a third probe writes seven model '
    'variants with write_model and compares the dataset read back), TIME/DATE. Trusted: the '
    'reference reader, np.float64 recorder (Python float syntax), StringIO constructor recorder, pandas '
    '`pat.split(line.strip())` (checked at run time), stub $INPUT stream. Counterexamples are re-evaluated unstubbed.',
    'symbolic execution (CrossHair+z3) of real dataset lexing code + z3 regex language equivalence',
    'DESIGN.md section 3 C13', 'E1')

chk('C17', 'other',
    'Bounded symbolic execution (CrossHair/z3) of the real WorkflowBuilder / Workflow / insert_context / execute_workflow '
    'task rewriting: for <=4 (thorough 5) tasks with symbolic edge sets, symbolic int and short string static inputs and '
    'every subset of context-taking tasks, as_dask_dict evaluated by a small evaluator of the dask graph specification '
    'equals a topological evaluation of the declared graph (each task once, statics then predecessors in entry order); '
    'add_task, insert_workflow (N:N, N:1, 1:N; N:M refused), replace_task and + keep exactly the declared tasks/edges; '
    'task keys of two graphs are disjoint; value-equal tasks (same name, function, input) stay distinct tasks; builder '
    'histories with read-only observations between edits (add, observe, replace a task, gather all current sinks).',
    'Trusted: the dask graph-spec evaluator, deterministic uuid stand-in, networkx dict-factory rebinding (CrossHair), '
    'dispatcher stub; dask schedulers are trusted (counterexamples are replayed on dask.threaded.get). More tasks than '
    'the bound and tuple/list/Model static inputs are outside.',
    'symbolic execution (CrossHair+z3) of real workflow construction code vs reference topological evaluation',
    'DESIGN.md section 3 C17', 'E1')

chk('C18', 'other',
    'Bounded symbolic execution (CrossHair/z3): for every operand pair within the stated option tables ModelFeatures '
    '+, -, ==, contain_subset and least_number_of_transformations agree with set operations on the expanded options; '
    'partitions / subsets are exact for all distinct element values n<=4 (5); modelsearch exhaustive / stepwise / '
    'reduced_stepwise and the iivsearch brute-force builders enumerate exactly the documented candidates, once each with '
    'unique names, for every subset of a 6 (8)-key universe and of a universe whose base model has lag time / first-order '
    'absorption (LAGTIME(OFF), INST as features); stringify(parse(.)) is the identity on the table statements.',
    'Object side, plus LET references in COVARIATE statements (table of statement shapes); MFL text as arbitrary input, '
    'expand/@built-in refs and runtime IIV strategies are outside. Operand options '
    'are table-indexed (one solver path per entry, concrete execution after indexing). 12 deviation regions are separate '
    'finding obligations listed in known_findings.json.',
    'symbolic execution (CrossHair+z3) of real MFL algebra / enumeration code vs set semantics',
    'DESIGN.md section 3 C18', 'E1')

chk('C19', 'other',
    'Partial: CrossHair/z3 on the real rank_models / get_rankval / is_strictness_fulfilled / lrt functions with contract '
    'stubs for numpy, pandas and scipy (integer OFVs, NaN flags, cut-offs, penalties, parent maps; <=3 (4) candidates): '
    'eligibility, deltas, competition ranking with shared ranks, failed candidates never above eligible ones, best = top '
    'eligible; plus z3 Real likelihoods passed through the real calculate_aic / calculate_bic (4 types) / lrt.test / '
    'p_value on 8 corpus models and compared with the documented formulas over independently counted parameters.',
    'Per-class strictness atoms (rse_theta/omega/sigma, final_zero_gradient_*) run over a contract model of the pandas '
    'Series operations. NOT claimed as a solver verdict: float OFVs, numpy-bound strictness atoms, calculate_bic_penalty, and all '
    'bootstrap / cdd / simeval / shrinkage / delta-method statistics (numpy/pandas; a concrete companion probe, '
    'probe:statistics, compares bootstrap, case-deletion, shrinkage and delta-method statistics on fixed synthetic '
    'estimates with their defining formulas). Trusted: FakeNp/FakePd contract stubs, linear chi-square table.',
    'symbolic execution (CrossHair+z3) of real ranking code + z3 term equality for information criteria',
    'DESIGN.md section 3 C19', 'E1')

chk('C20', 'other',
    'Partial claim (one clause: "covariance, correlation, precision and standard errors reported together satisfy their '
    'defining relations"). The real tools.external.nonmem.results.calculate_cov_cor_coi_ses, and through it the real '
    'modeling.calculate_*_from_*, run on pandas object frames of z3 Real terms (lib/symnum.py, solver-decided branches) '
    'for all 9 availability patterns of (cov, cor+ses, coi, ses); the inputs present are consistent views of one '
    'symbolic covariance matrix; z3 decides for ALL matrices of size n <= 3 that the four outputs exist, keep their '
    'labels and satisfy cov = C, cor_ij s_i s_j = C_ij, coi.C = I, se_i^2 = C_ii.',
    'NOT claimed: NONMEMTableFile / ExtTable / PhiTable / CovTable parsing, row designations, renaming, results JSON '
    'round trip (pandas C reader and DataFrame indexing - no input can be symbolic); a concrete companion probe '
    '(probe:table_files, sampling) reads synthetic .ext/.cov/.cor/.coi/.phi/$TABLE files written by an independent '
    'writer and compares values, labels and designated rows exactly; probe:parse_results compares read_modelfit_results '
    'on the pheno_real run with an independent reader of its output files; probe:results_json the JSON round trip. Trusted: np.linalg.inv replaced by its contract '
    '(unique inverse), numpy/pandas object-array semantics, exact sqrt; float rounding outside.',
    'symbolic execution of the real covariance-step derivation over numpy/pandas object arrays of z3 terms (z3 decides '
    'every branch and the defining relations)',
    'DESIGN.md section 12.7 / 12.8', 'E4')

NA['C14'] = ('derivations are vectorised pandas pipelines (groupby/cumsum/explode/query); CrossHair realises at the '
             'first DataFrame call and no faithful SMT semantics of pandas exists here; solver-generated datasets '
             'would be sampling')


def main():
    props = [json.loads(l)['id'] for l in open(os.path.join(VERIF, 'properties.jsonl'))]
    pending = 'not yet built in this round: listed until its check lands (see DESIGN.md)'
    na = []
    for p in props:
        if p in CHECKS:
            continue
        na.append(dict(property_id=p, reason=NA.get(p, pending)))
    man = dict(
        version=1,
        setup_cmd='bin/ensure_env',
        hooks=dict(guard='PHARMPY_VERIF',
                   enable='no source hooks: all stubbing is done from the harness by rebinding names in module '
                          'namespaces; checks export PHARMPY_VERIF=1 for completeness',
                   baseline_off_cmd='cd /repo && /venv/bin/python -m pytest -ra -q -p no:cacheprovider --timeout=900 '
                                    '--continue-on-collection-errors',
                   source_commits=[], add_only=True),
        engines=[
            dict(name='xhair', path='lib/xhair.py', kind_free_text='CrossHair (z3) symbolic execution of real pharmpy '
                 'functions, one process per obligation, reachability twins, concrete replay',
                 serves_properties=[p for p in CHECKS if CHECKS[p]['engine'] in ('E1', 'E3')]),
            dict(name='semeq', path='lib/semeq', kind_free_text='sympy->z3 translation of the expressions pharmpy '
                 'produces + independent NM-TRAN reference semantics; equivalence queries, numeric replay',
                 serves_properties=[p for p in CHECKS if CHECKS[p]['engine'] == 'E2']),
            dict(name='symnum', path='lib/symnum.py', kind_free_text='symbolic execution of numeric kernels through numpy '
                 '/ pandas object arrays of z3 Real terms; branches decided or forked by the solver; numeric replay',
                 serves_properties=[p for p in CHECKS if CHECKS[p]['engine'] == 'E4'] + ['C11']),
        ],
        checks=[CHECKS[p] for p in props if p in CHECKS],
        not_applicable=na,
        notes='Exit codes: 0 ok, 1 VIOLATION (replayed on real code), 2 harness error. See DESIGN.md.')
    with open(os.path.join(VERIF, 'MANIFEST.json'), 'w') as f:
        json.dump(man, f, indent=1)


if __name__ == '__main__':
    main()
