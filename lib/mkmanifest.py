"""Generates MANIFEST.json from the table below (kept in one place so that it stays valid)."""
import json
import os

VERIF = os.path.dirname(os.path.dirname(os.path.abspath(__file__)))

CHECKS = {}
NA = {}


def chk(pid, category, text, note, technique, design_ref, engine):
    CHECKS[pid] = dict(
        property_id=pid,
        quick_cmd=f'bin/check {pid} --tier quick',
        thorough_cmd=f'bin/check {pid} --tier thorough',
        evidence_file=f'/verif/evidence/{pid}.json',
        replay_cmd_template=f'bin/check {pid} --replay {{path}}',
        engine=engine,
        level_claimed=dict(category=category, text=text, design_ref=design_ref),
        level_note=note,
        technique=technique)


chk('C15', 'model_checking',
    'Inductive step over the real lock classes: from every symbolic pre-state satisfying the invariant (<=3 threads, '
    '<=2 processes, bounded hold counts) one real critical section is executed under CrossHair/z3 and the invariant, '
    'reader-writer exclusion, refusal rules and the no-lost-wake-up clause are asserted; plus a bounded 2-request '
    'history of the composed path_lock. One step from an arbitrary invariant state covers histories of any length '
    'within the bounds.',
    'Trusted: contract models of Condition(RLock), Lock, POSIX lockf for two processes, os.open/close; the invariant; '
    'well-nested acquisitions. Counterexamples are re-enacted with real threads / real lockf / a real second process.',
    'symbolic execution (CrossHair+z3) of real lock code from symbolic invariant states; inductive step',
    'DESIGN.md section 3 C15', 'E3')

NA['C14'] = ('derivations are vectorised pandas pipelines (groupby/cumsum/explode/query); CrossHair realises at the '
             'first DataFrame call and no faithful SMT semantics of pandas exists here; solver-generated datasets '
             'would be sampling')
NA['C20'] = ('table/result parsing is pandas C reader plus DataFrame indexing; no input of these functions can be '
             'symbolic and the parsing semantics live in C')


def main():
    props = [json.loads(l)['id'] for l in open(os.path.join(VERIF, 'properties.jsonl'))]
    pending = 'not yet built in this round: listed until its check lands (see DESIGN.md)'
    na = []
    for p in props:
        if p in CHECKS:
            continue
        na.append(dict(property_id=p, reason=NA.get(p, pending)))
    man = dict(
        version=1,
        setup_cmd='bin/ensure_env',
        hooks=dict(guard='PHARMPY_VERIF',
                   enable='no source hooks: all stubbing is done from the harness by rebinding names in module '
                          'namespaces; checks export PHARMPY_VERIF=1 for completeness',
                   baseline_off_cmd='cd /repo && /venv/bin/python -m pytest -ra -q -p no:cacheprovider --timeout=900 '
                                    '--continue-on-collection-errors',
                   source_commits=[], add_only=True),
        engines=[
            dict(name='xhair', path='lib/xhair.py', kind_free_text='CrossHair (z3) symbolic execution of real pharmpy '
                 'functions, one process per obligation, reachability twins, concrete replay',
                 serves_properties=[p for p in CHECKS if CHECKS[p]['engine'] in ('E1', 'E3')]),
            dict(name='semeq', path='lib/semeq', kind_free_text='sympy->z3 translation of the expressions pharmpy '
                 'produces + independent NM-TRAN reference semantics; equivalence queries, numeric replay',
                 serves_properties=[p for p in CHECKS if CHECKS[p]['engine'] == 'E2']),
        ],
        checks=[CHECKS[p] for p in props if p in CHECKS],
        not_applicable=na,
        notes='Exit codes: 0 ok, 1 VIOLATION (replayed on real code), 2 harness error. See DESIGN.md.')
    with open(os.path.join(VERIF, 'MANIFEST.json'), 'w') as f:
        json.dump(man, f, indent=1)


if __name__ == '__main__':
    main()
