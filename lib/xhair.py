"""E1 runner: one `crosshair check` process per obligation, classified, counterexamples replayed concretely.

Conventions for harness functions (PEP316):  they return True iff the property holds on the explored path
(`post: _ == True`), take only builtin-typed arguments, and list legitimate refusals under `raises:`.
A reachability twin is a function named `<name>__twin` with the same pre: and body whose post is violated exactly
when the body reaches its end (it returns False at the end): CrossHair must produce a counterexample for it.
"""
import ast
import concurrent.futures as cf
import json
import os
import re
import subprocess
import sys
import time

from vcommon import VERIF

PY = os.path.join(VERIF, '.venv', 'bin', 'python')
XH = os.path.join(VERIF, '.venv', 'bin', 'crosshair')


class Ob:
    def __init__(self, name, file, func, timeout=60, kind='prop', env=None, expect=None):
        self.name, self.file, self.func, self.timeout, self.kind = name, file, func, timeout, kind
        self.env = dict(env or {})
        self.expect = expect


def _func_line(path, func):
    with open(path) as f:
        tree = ast.parse(f.read())
    for node in ast.walk(tree):
        if isinstance(node, ast.FunctionDef) and node.name == func:
            return node.body[0].lineno  # a line inside the def (the docstring)
    raise KeyError(f'{func} not in {path}')


def _declared_raises(path, func):
    with open(path) as f:
        tree = ast.parse(f.read())
    for node in ast.walk(tree):
        if isinstance(node, ast.FunctionDef) and node.name == func:
            doc = ast.get_docstring(node) or ''
            out = []
            for line in doc.splitlines():
                line = line.strip()
                if line.startswith('raises:'):
                    out += [x.strip() for x in line[len('raises:'):].split(',') if x.strip()]
            return out
    return []


def _post_allows_none(path, func):
    with open(path) as f:
        tree = ast.parse(f.read())
    for node in ast.walk(tree):
        if isinstance(node, ast.FunctionDef) and node.name == func:
            doc = ast.get_docstring(node) or ''
            return any(line.strip().startswith('post:') and 'None' in line for line in doc.splitlines())
    return False


def run_one(ob):
    path = ob.file if os.path.isabs(ob.file) else os.path.join(VERIF, 'harness', ob.file)
    line = _func_line(path, ob.func)
    env = dict(os.environ)
    env.update({k: str(v) for k, v in ob.env.items()})
    env['PYTHONPATH'] = os.pathsep.join([os.path.join(VERIF, 'lib'), os.path.join(VERIF, 'harness'),
                                         env.get('PYTHONPATH', '')])
    env.setdefault('PYTHONHASHSEED', '0')
    cmd = [XH, 'check', '--report_all', '--per_condition_timeout', str(ob.timeout),
           '--per_path_timeout', str(max(10, ob.timeout // 2)), f'{path}:{line}']
    t0 = time.time()
    try:
        p = subprocess.run(cmd, capture_output=True, text=True, env=env, timeout=ob.timeout * 1.6 + 60,
                           cwd=os.path.join(VERIF, 'harness'))
        out = (p.stdout or '') + (p.stderr or '')
    except subprocess.TimeoutExpired as e:
        out = 'PROCESS-TIMEOUT ' + str(e.stdout or '')
    dt = time.time() - t0
    res = dict(ob=ob, time=dt, raw=out.strip()[-1500:])
    m = re.search(r'error: (.*?) when calling (.*)$', out, re.M | re.S)
    if 'Confirmed over all paths' in out:
        res['cls'] = 'confirmed'
    elif m:
        call = m.group(2).strip()
        call = re.sub(r'\s*\(which returns .*\)\s*$', '', call, flags=re.S)
        res['cls'] = 'cex'
        res['msg'] = m.group(1).strip()
        res['call'] = call.splitlines()[0] if '\n' in call and call.count('(') == call.splitlines()[0].count('(') else call
    elif 'Unable to meet precondition' in out:
        res['cls'] = 'nopre'
    elif 'Not confirmed' in out or 'PROCESS-TIMEOUT' in out:
        res['cls'] = 'unknown'
    else:
        res['cls'] = 'error'
    return res


def replay_call(ob, call):
    """Evaluate the counterexample call concretely (no tracing) in a fresh interpreter."""
    path = ob.file if os.path.isabs(ob.file) else os.path.join(VERIF, 'harness', ob.file)
    env = dict(os.environ)
    env.update({k: str(v) for k, v in ob.env.items()})
    env['PYTHONPATH'] = os.pathsep.join([os.path.join(VERIF, 'lib'), os.path.join(VERIF, 'harness'),
                                         env.get('PYTHONPATH', '')])
    env.setdefault('PYTHONHASHSEED', '0')
    code = (
        "import sys, json, importlib.util\n"
        f"spec = importlib.util.spec_from_file_location('h', {path!r}); h = importlib.util.module_from_spec(spec)\n"
        "sys.modules['h'] = h; spec.loader.exec_module(h)\n"
        "try:\n"
        f"    r = eval({call!r}, h.__dict__)\n"
        "    print('REPLAY ' + json.dumps({'result': repr(r), 'ok': r is True or r == True}))\n"
        "except Exception as e:\n"
        "    print('REPLAY ' + json.dumps({'exception': type(e).__name__, 'msg': str(e)[:300], 'ok': False}))\n"
    )
    try:
        p = subprocess.run([PY, '-c', code], capture_output=True, text=True, env=env, timeout=300,
                           cwd=os.path.join(VERIF, 'harness'))
    except subprocess.TimeoutExpired:
        return dict(ok=None, note='replay timeout')
    for line in p.stdout.splitlines():
        if line.startswith('REPLAY '):
            d = json.loads(line[7:])
            if d.get('exception') and d['exception'] in _declared_raises(path, ob.func):
                d['ok'] = True
            elif d.get('result') == 'None' and _post_allows_none(path, ob.func):
                # the harness declares None as "input outside the obligation" (post: _ in (True, None))
                d['ok'] = True
            elif d.get('exception') in ('AttributeError', 'TypeError') and \
                    re.search(r"'(Fake\w*|Mem\w*|_[A-Z]\w*)'", d.get('msg', '')):
                # the real code used a part of an interface that a contract stub of the harness does not model
                # (e.g. iterating an in-memory file): a limitation of the harness, never a verdict about pharmpy
                d['ok'] = None
                d['note'] = 'raised inside a contract stub of the harness (interface not modelled)'
            return d
    return dict(ok=None, note='replay produced no verdict', stderr=p.stderr[-500:])


def run_obligations(run, obs, jobs=None, key_of=None, confirm=None):
    """Run all obligations in parallel; record into `run` (vcommon.Run)."""
    jobs = jobs or int(os.environ.get('VERIF_JOBS', 0)) or min(16, os.cpu_count() or 4)
    subprocess.run([os.path.join(VERIF, 'bin', 'ensure_env')], check=True)
    results = []
    with cf.ThreadPoolExecutor(max_workers=jobs) as ex:
        for r in ex.map(run_one, obs):
            results.append(r)
    for r in results:
        ob = r['ob']
        if ob.kind == 'twin':
            if r['cls'] == 'cex':
                run.add(ob.name, 'witness-ok', r['time'])
            elif r['cls'] in ('confirmed', 'nopre'):
                run.add(ob.name, 'vacuous', r['time'], r['raw'][-300:])
                run.harness_error(f'reachability twin {ob.name} not refuted ({r["cls"]}): obligation is vacuous')
            elif r['cls'] == 'error':
                run.add(ob.name, 'error', r['time'], r['raw'][-300:])
                run.harness_error(f'twin {ob.name}: crosshair error: {r["raw"][-300:]}')
            else:
                run.add(ob.name, 'inconclusive', r['time'], 'twin not decided within budget')
            continue
        if r['cls'] == 'confirmed':
            run.add(ob.name, 'discharged', r['time'])
        elif r['cls'] == 'cex':
            rep = replay_call(ob, r['call'])
            conf = None
            if rep.get('ok') is False and confirm is not None:
                # second stage: re-enact with the real OS primitives / unstubbed code
                conf = confirm(ob, r['call'], rep)
                rep = dict(rep, real=conf)
                if conf.get('ok') is not False:
                    rep['ok'] = None
            if rep.get('ok') is False:
                key = f'{ob.name} {r["call"]}'
                if key_of:
                    key = key_of(ob, r['call'], rep) or key
                v = run.report_violation(ob.name, key,
                                         dict(kind='crosshair', harness=ob.file, func=ob.func, call=r['call'],
                                              env=ob.env, concrete=rep),
                                         f'{r["msg"]} when calling {r["call"]} (concrete replay: {rep})')
                run.add(ob.name, v, r['time'], dict(call=r['call'], msg=r['msg'], replay=rep))
            else:
                run.add(ob.name, 'inconclusive', r['time'],
                        dict(note='counterexample did not reproduce concretely (sat-unreplayable)',
                             call=r['call'], msg=r['msg'], replay=rep))
        elif r['cls'] == 'nopre':
            run.add(ob.name, 'inconclusive', r['time'], 'Unable to meet precondition (twin decides vacuity)')
        elif r['cls'] == 'unknown':
            run.add(ob.name, 'inconclusive', r['time'], 'Not confirmed within budget (bug hunting only)')
        else:
            run.add(ob.name, 'error', r['time'], r['raw'][-400:])
            run.harness_error(f'{ob.name}: crosshair produced no verdict: {r["raw"][-300:]}')
    return results


def run_probes(run, probes):
    """Concrete companions of symbolic obligations: (Ob, call expression) pairs evaluated in a fresh interpreter
    WITHOUT tracing.  CrossHair neutralises some library machinery while tracing (e.g. functools.lru_cache), so an
    effect that lives there is only visible concretely.  A probe returning False is reported like a replayed
    counterexample; probes are labelled as concrete in the evidence (they are not solver verdicts)."""
    for ob, call in probes:
        rep = replay_call(ob, call)
        name = f'probe:{ob.name}'
        if rep.get('ok') is False:
            v = run.report_violation(name, f'{name} {call}', dict(kind='crosshair', harness=ob.file, func=ob.func,
                                                                     call=call, env=ob.env, concrete=rep),
                                     f'concrete probe {call} -> {rep}')
            run.add(name, v, 0, dict(call=call, replay=rep))
        elif rep.get('ok') is True:
            run.add(name, 'witness-ok', 0, dict(call=call))
        else:
            run.add(name, 'inconclusive', 0, dict(call=call, replay=rep))


def replay_file(path):
    """`bin/check Cxx --replay file` for crosshair-kind replays."""
    with open(path) as f:
        d = json.load(f)
    rp = d['replay']
    ob = Ob(d['obligation'], rp['harness'], rp['func'], env=rp.get('env'))
    rep = replay_call(ob, rp['call'])
    print(json.dumps(rep))
    return 1 if rep.get('ok') is False else 0
