"""C06 — concrete companion probe (sampling, not a solver verdict): no public modeling function modifies the model it
is given.  The immutability clause cannot be made symbolic (every path runs through pandas / symengine), so it is not
claimed; this probe only observes it on a fixed family: every function of `pharmpy.modeling` that takes a model first and
either needs no further argument or has an entry in ARGS is called on three start models; a deep snapshot of the input
(name, description, parameters, random variables, statements, dependent variables, datainfo, execution steps, dataset
contents / dtypes / index / column order, generated code, the control stream text and the value of hash()) taken before
the call must equal the snapshot taken after it.  What the function returns or raises is irrelevant here.
"""
import inspect
import multiprocessing as mp
import os
import warnings

warnings.simplefilter('ignore')

SKIP_PREFIX = ('plot_', 'print_', 'display_', 'write_', 'sample_', 'read_', 'load_example', 'bump_model_number',
               'check_dataset', 'calculate_eta_shrinkage', 'calculate_individual', 'calculate_pk_parameters')

ARGS = {
    'add_covariate_effect': [dict(parameter='CL', covariate='WGT', effect='exp'), dict(parameter='CL', covariate='WT', effect='pow')],
    'add_effect_compartment': [dict(expr='linear')],
    'add_indirect_effect': [dict(expr='linear')],
    'set_direct_effect': [dict(expr='emax')],
    'add_estimation_step': [dict(method='IMP')],
    'add_iiv': [dict(list_of_parameters='S1', expression='exp'), dict(list_of_parameters='MAT', expression='exp')],
    'add_individual_parameter': [dict(name='NEWP')],
    'add_iov': [dict(occ='FA1'), dict(occ='VISI')],
    'add_parameter_uncertainty_step': [dict(parameter_uncertainty_method='SANDWICH')],
    'add_population_parameter': [dict(name='POP_NEW', init=1.5)],
    'add_predictions': [dict(pred=['IPRED'])],
    'add_residuals': [dict(res=['CWRES'])],
    'append_estimation_step_options': [dict(tool_options={'SADDLE_RESET': 1}, idx=0)],
    'convert_model': [dict(to_format='generic'), dict(to_format='nonmem')],
    'drop_columns': [dict(column_names=['FA2']), dict(column_names=['WGT'], mark=True), dict(column_names=['AGE'])],
    'undrop_columns': [dict(column_names=['FA2'])],
    'filter_dataset': [dict(expr='TIME > 2')],
    'fix_parameters': [dict(parameter_names=['POP_CL'])],
    'fix_or_unfix_parameters': [dict(parameters={'POP_CL': True})],
    'fix_parameters_to': [dict(inits={'POP_CL': 0.01})],
    'unfix_parameters': [dict(parameter_names=['POP_CL'])],
    'unfix_parameters_to': [dict(inits={'POP_CL': 0.01})],
    'unconstrain_parameters': [dict(parameter_names=['POP_CL'])],
    'rename_symbols': [dict(new_names={'CL': 'CLX'})],
    'remove_covariate_effect': [dict(parameter='CL', covariate='WGT')],
    'remove_estimation_step': [dict(idx=0)],
    'set_covariates': [dict(covariates=['WGT']), dict(covariates=['WT'])],
    'set_description': [dict(new_description='something else')],
    'set_dvid': [dict(name='FA1')],
    'set_estimation_step': [dict(method='IMP', idx=0)],
    'set_initial_condition': [dict(compartment='CENTRAL', expression=10)],
    'set_initial_estimates': [dict(inits={'POP_CL': 0.0071})],
    'set_lloq_data': [dict(value=0.1)],
    'set_lower_bounds': [dict(bounds={'POP_CL': 0.001})],
    'set_upper_bounds': [dict(bounds={'POP_CL': 100})],
    'set_name': [dict(new_name='renamed')],
    'set_ode_solver': [dict(solver='LSODA')],
    'set_peripheral_compartments': [dict(n=2)],
    'set_reference_values': [dict(refs={'WGT': 2.5})],
    'set_time_varying_error_model': [dict(cutoff=1.5)],
    'set_tmdd': [dict(type='qss')],
    'set_transit_compartments': [dict(n=2)],
    'set_zero_order_input': [dict(compartment='CENTRAL', expression=10)],
    'simplify_expression': [dict(expr='CL/V*V')],
    'get_parameter_rv': [dict(parameter='CL')],
    'get_rv_parameters': [dict(rv='ETA_CL'), dict(rv='ETA_1')],
    'has_random_effect': [dict(parameter='CL')],
    'has_covariate_effect': [dict(parameter='CL', covariate='WGT')],
    'get_unit_of': [dict(variable='TIME')],
    'create_symbol': [dict(stem='X')],
    'evaluate_expression': [dict(expression='CL*2')],
    'calculate_aic': [dict(likelihood=100.0)],
    'calculate_bic': [dict(likelihood=100.0)],
    'bin_observations': [dict(method='equal_width', nbins=4)],
    'is_real': [dict(expr='CL')],
    'set_dataset': [],
}

START = ['pheno', 'mox2', 'rich', 'clock']

CLOCK_CODE = """$PROBLEM clock times and additional doses
$INPUT ID DAT2=DROP TIME AMT ADDL II DV WGT
$DATA data.csv IGNORE=@
$SUBROUTINES ADVAN1 TRANS2
$PK
CL = THETA(1)*EXP(ETA(1))
V = THETA(2)*EXP(ETA(2))
S1 = V
$ERROR
Y = F + F*EPS(1)
$THETA (0,0.1)
$THETA (0,5)
$OMEGA 0.1
$OMEGA 0.1
$SIGMA 0.02
$ESTIMATION METHOD=1 INTERACTION
"""

CLOCK_DATA = """ID,DATE,TIME,AMT,ADDL,II,DV,WGT
1,2022-06-22,08:00,100,2,12,0,70
1,2022-06-22,09:30,0,0,0,12.5,70
1,2022-06-22,14:15,0,0,0,8.1,70
1,2022-06-23,08:00,0,0,0,2.2,71
2,2022-06-24,10:00,100,1,24,0,80
2,2022-06-24,10:45,0,0,0,14.0,80
2,2022-06-25,07:30,0,0,0,1.9,80
"""


def start_model(label):
    import pharmpy.modeling as pm
    if label == 'pheno':
        return pm.load_example_model('pheno')
    from pharmpy.model import Model
    if label == 'clock':
        import atexit
        import shutil
        import tempfile
        d = tempfile.mkdtemp(prefix='c06frame_')
        atexit.register(shutil.rmtree, d, True)
        with open(os.path.join(d, 'run1.mod'), 'w') as f:
            f.write(CLOCK_CODE)
        with open(os.path.join(d, 'data.csv'), 'w') as f:
            f.write(CLOCK_DATA)
        return Model.parse_model(os.path.join(d, 'run1.mod'))
    repo = os.environ.get('VERIF_REPO', '/repo')
    src = [p for p in os.sys.path if p.endswith('/src') and os.path.isdir(os.path.join(p, 'pharmpy'))]
    if src and not src[0].startswith(repo):
        repo = os.path.dirname(src[0])
    m = Model.parse_model(os.path.join(repo, 'tests/testdata/nonmem/models/mox2.mod'))
    if label == 'mox2':
        return m
    # a model with non-default features: joint etas, lag time, bioavailability, a peripheral compartment, a dependent
    # variable added by a PD extension
    m = pm.create_joint_distribution(m, m.random_variables.iiv.names[:2])
    m = pm.add_lag_time(m)
    m = pm.add_bioavailability(m)
    m = pm.add_peripheral_compartment(m)
    return m


def snapshot(m):
    import pandas as pd
    d = {}

    def put(k, f):
        try:
            d[k] = f()
        except Exception as e:  # noqa
            d[k] = f'<{type(e).__name__}>'
    put('name', lambda: m.name)
    put('description', lambda: m.description)
    put('parameters', lambda: repr(m.parameters.to_dict()))
    put('rvs', lambda: repr(m.random_variables.to_dict()))
    put('statements', lambda: repr(m.statements.to_dict()))
    put('dvs', lambda: repr(sorted((str(k), v) for k, v in dict(m.dependent_variables).items())))
    put('obstrans', lambda: repr(sorted((str(k), str(v)) for k, v in dict(m.observation_transformation).items())))
    put('datainfo', lambda: repr(m.datainfo.to_dict()))
    put('steps', lambda: repr(m.execution_steps.to_dict()))
    put('value_type', lambda: m.value_type)
    put('iie', lambda: None if m.initial_individual_estimates is None else
        int(pd.util.hash_pandas_object(m.initial_individual_estimates).sum()))
    df = m.dataset
    if df is not None:
        put('data.columns', lambda: [str(c) for c in df.columns])
        put('data.dtypes', lambda: [str(t) for t in df.dtypes])
        put('data.index', lambda: int(pd.util.hash_pandas_object(pd.Series(df.index)).sum()))
        put('data.hash', lambda: int(pd.util.hash_pandas_object(df, index=False).sum()))
        put('data.attrs', lambda: repr(dict(df.attrs)))
    put('code', lambda: m.code)
    put('stream', lambda: str(m.internals.control_stream) if hasattr(m.internals, 'control_stream') else None)
    put('hash', lambda: hash(m))
    return d


def functions():
    import pharmpy.modeling as pm
    out = []
    for n in sorted(pm.__all__):
        f = getattr(pm, n)
        if not callable(f) or n.startswith(SKIP_PREFIX):
            continue
        try:
            ps = list(inspect.signature(f).parameters.values())
        except (TypeError, ValueError):
            continue
        if not ps or ps[0].name != 'model':
            continue
        req = [p.name for p in ps[1:] if p.default is inspect._empty and
               p.kind in (p.POSITIONAL_OR_KEYWORD, p.POSITIONAL_ONLY)]
        if n in ARGS:
            for kw in ARGS[n]:
                out.append((n, kw))
        elif not req:
            out.append((n, {}))
    return out


def illformed(m):
    """-> list of well-formedness defects of a model returned by the API (independent of pharmpy's own validator)"""
    out = []
    try:
        pn = m.parameters.names
        if len(set(pn)) != len(pn):
            out.append('parameter names not unique')
        for p in m.parameters:
            if not (p.lower <= p.init <= p.upper) or p.init != p.init:
                out.append(f'parameter {p.name}: init {p.init} outside [{p.lower}, {p.upper}]')
        rn = m.random_variables.names
        if len(set(rn)) != len(rn):
            out.append('random variable names not unique')
        if len(set(m.datainfo.names)) != len(m.datainfo.names):
            out.append('column names not unique')
        defined = set(pn) | set(rn) | set(m.datainfo.names) | {'t'}
        for st in m.statements:
            if hasattr(st, 'symbol'):
                for x in st.expression.free_symbols:
                    nm = str(x)
                    if nm not in defined:
                        out.append(f'{st.symbol} uses undefined symbol {nm}')
                defined.add(str(st.symbol))
            else:
                amounts = {str(a) for a in st.amounts}
                for x in st.free_symbols:
                    nm = str(x)
                    if nm not in defined and nm not in amounts and not nm.startswith('A_'):
                        out.append(f'ODE system uses undefined symbol {nm}')
                defined |= amounts
                defined |= {str(a).split('(')[0] for a in st.amounts}
        for dv in m.dependent_variables:
            if str(dv) not in defined:
                out.append(f'dependent variable {dv} is not defined')
    except Exception as e:  # noqa
        out.append(f'inspection failed: {type(e).__name__}: {e}')
    try:
        m.code
    except Exception as e:  # noqa
        out.append(f'code cannot be generated: {type(e).__name__}: {str(e)[:80]}')
    return out[:3]


_M = {}


def _task(t):
    import pharmpy.modeling as pm
    label, fname, kw = t
    if label not in _M:
        try:
            _M[label] = start_model(label)
        except Exception:  # noqa  (a derived start model that cannot be built is skipped)
            _M[label] = None
    m = _M[label]
    if m is None:
        return (label, fname, repr(kw), 'nostart', [], [])
    before = snapshot(m)
    status = 'ok'
    ill = []
    try:
        res = getattr(pm, fname)(m, **kw)
        from pharmpy.model import Model
        if isinstance(res, Model):
            ill = illformed(res)
    except BaseException as e:  # noqa  (what the function does with its own result is not the subject)
        status = type(e).__name__
    after = snapshot(m)
    changed = sorted(k for k in set(before) | set(after) if before.get(k) != after.get(k))
    if changed:
        # the start model of this worker is no longer trustworthy
        _M.pop(label, None)
    return (label, fname, repr(kw), status, changed, ill)


KNOWN_ILLFORMED = [('rich', 'set_transit_compartments', 'ALAG1')]     # see known_findings.json (C06 / C02)


def _is_known(l, f, ill):
    return any(l == kl and f == kf and all(kw in x for x in ill) for kl, kf, kw in KNOWN_ILLFORMED)


def results_wellformed(nproc: int = 8, known_only: bool = False):
    """Concrete companion (sampling): every Model returned by the calls of the no_mutation family is well formed -
    unique names, initial values within bounds, every symbol used by a statement / the ODE system is a parameter, a
    random variable, a data column, t or defined earlier, and the code can be generated."""
    if known_only:
        tasks = [(l, f, {'n': 2}) for l, f, _ in KNOWN_ILLFORMED]
        res = [_task(t) for t in tasks]
        bad = [(l, f, k, ill) for l, f, k, s, c, ill in res if ill]
    else:
        tasks = [(label, fn, kw) for label in START for fn, kw in functions()]
        res = _pooled(tasks, nproc)
        bad = [(l, f, k, ill) for l, f, k, s, c, ill in res if ill and not _is_known(l, f, ill)]
    if bad:
        raise AssertionError('ill-formed model returned by: ' + '; '.join(f'{f}({k}) on {l}: {i}' for l, f, k, i in bad[:6]))
    return True


# second level: the function is applied to a model that already carries the product of a data function (a derived
# column may make a function take another path, e.g. skip the copy it normally makes)
DERIVED = {
    'pheno+tad': ('pheno', 'add_time_after_dose', {}),
    'pheno+admid': ('pheno', 'add_admid', {}),
    'pheno+cmt': ('pheno', 'add_cmt', {}),
    'clock+tad': ('clock', 'add_time_after_dose', {}),
    'clock+translated': ('clock', 'translate_nmtran_time', {}),
    'pheno+dropped': ('pheno', 'drop_columns', {'column_names': ['FA2'], 'mark': True}),
}
_start_model_plain = start_model


def start_model(label):  # noqa: F811
    if label in DERIVED:
        import pharmpy.modeling as pm
        base, fn, kw = DERIVED[label]
        return getattr(pm, fn)(_start_model_plain(base), **kw)
    return _start_model_plain(label)


def _pooled(tasks, nproc):
    """run the tasks in a pool; every temporary directory of the workers lives under one root that is removed here
    (terminated pool workers do not run their atexit handlers)"""
    import shutil
    import tempfile
    root = tempfile.mkdtemp(prefix='c06root_')
    old = tempfile.tempdir
    tempfile.tempdir = root
    try:
        with mp.Pool(nproc) as pool:
            return pool.map(_task, tasks, chunksize=4)
    finally:
        tempfile.tempdir = old
        shutil.rmtree(root, ignore_errors=True)


def no_mutation(nproc: int = 8):
    tasks = [(label, fn, kw) for label in START + list(DERIVED) for fn, kw in functions()]
    res = _pooled(tasks, nproc)
    bad = [(l, f, k, c) for l, f, k, s, c, _ in res if c]
    called = sum(1 for r in res if r[3] == 'ok')
    if called < 300:
        raise AssertionError(f'only {called} calls succeeded: the probe is not exercising the API')
    if bad:
        raise AssertionError('input model modified by: ' + '; '.join(f'{f}({k}) on {l}: {c}' for l, f, k, c in bad[:6]))
    return True


if __name__ == '__main__':
    import time
    t0 = time.time()
    tasks = [(label, fn, kw) for label in START + list(DERIVED) for fn, kw in functions()]
    with mp.Pool(8) as pool:
        res = pool.map(_task, tasks, chunksize=4)
    import collections
    print(collections.Counter(r[3] for r in res))
    for r in res:
        if r[4]:
            print('MUTATED', r)
        if r[5]:
            print('ILLFORMED', r[0], r[1], r[2], r[5])
    print(len(tasks), time.time() - t0)


def replace_validates(omitted: bool = False):
    """Concrete companion (sampling): objects the API returns are well formed - Model.replace / Model.create refuse a
    model in which a statement uses a symbol that is neither a parameter, a random variable, a data column, the time
    variable nor defined earlier; this must not depend on WHICH arguments are passed together or on whether an argument is
    the object the model already holds."""
    import pharmpy.modeling as pm
    from pharmpy.model import Parameters, RandomVariables
    m = pm.load_example_model('pheno')
    bad = []

    def refused(label, f):
        try:
            m2 = f()
        except ValueError:
            return
        except Exception as e:  # noqa
            bad.append(f'{label}: raised {type(e).__name__} instead of ValueError')
            return
        # accepted: then every symbol must be defined
        free = set()
        defined = {str(s) for s in m2.parameters.symbols} | {str(s) for s in m2.random_variables.symbols} | \
            set(m2.datainfo.names) | {'t'}
        for st in m2.statements:
            for s in st.rhs_symbols:
                if str(s) not in defined and not str(s).startswith('A_'):
                    free.add(str(s))
            if hasattr(st, 'symbol'):
                defined.add(str(st.symbol))
        if free:
            bad.append(f'{label}: accepted a model with undefined symbols {sorted(free)[:3]}')
    fewer_p = Parameters.create([p for p in m.parameters if p.name != 'POP_CL'])
    fewer_rv = RandomVariables.create([d for d in m.random_variables if 'ETA_CL' not in d.names])
    di = m.datainfo
    fewer_di = type(di).create([c for c in di if c.name != 'WGT'], path=di.path, separator=di.separator)
    df = m.dataset.drop(columns=['WGT'])
    same, copy = m.statements, m.statements[0:len(m.statements)]
    cases = (('omitted', None),) if omitted else (('same object', same), ('equal copy', copy))
    for tag, st in cases:
        kw = {} if st is None else dict(statements=st)
        refused(f'parameters without POP_CL, statements {tag}', lambda: m.replace(parameters=fewer_p, **kw))
        refused(f'random variables without ETA_CL, statements {tag}',
                lambda: m.replace(random_variables=fewer_rv, **kw))
        refused(f'datainfo/dataset without WGT, statements {tag}',
                lambda: m.replace(datainfo=fewer_di, dataset=df, **kw))
    # control: a consistent replacement is accepted
    try:
        m.replace(parameters=m.parameters, statements=m.statements)
        m.replace(statements=m.statements)
    except Exception as e:  # noqa
        bad.append(f'consistent replacement refused: {type(e).__name__}: {e}')
    if bad:
        raise AssertionError('; '.join(bad[:4]))
    return True
