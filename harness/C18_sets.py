"""C18 (b) — partitions / subsets over symbolic, pairwise distinct element values.

The elements are symbolic ints (any values; z3 decides every comparison the real sorting code makes), the number of
elements is pinned by VH_N (one process per n).  Checked against definitions, not against another enumerator:
  partitions(xs): every output is a partition of xs (non-empty parts, every element exactly once), the outputs are
                  pairwise different as set partitions, there are Bell(n) of them, and the documented canonical form and
                  order hold (parts shortlex-sorted; partitions ordered by number of parts, part sizes, then parts).
  subsets(xs, min, max) and the two non-empty variants: outputs are sub-sequences of xs (positions strictly
                  increasing), pairwise different, exactly those whose size is admitted (count = sum of binomials), in the
                  documented order (by size, then as itertools.combinations lists them = lexicographic in positions).
"""
import os
from typing import List

try:
    import crosshair.core as _cc
    _cc.consider_shortcircuit = lambda *a, **k: None     # see C18_mfl.py
except ImportError:
    pass

from pharmpy.internals.set.partitions import partitions  # noqa: E402
from pharmpy.internals.set.subsets import non_empty_proper_subsets, non_empty_subsets, subsets  # noqa: E402

N = int(os.environ.get('VH_N', '3'))
BELL = [1, 1, 2, 5, 15, 52, 203]
# optional case split: VH_ORDER="2,0,1" pins the relative order xs[2] < xs[0] < xs[1] (one process per ordering)
ORDER = [int(t) for t in os.environ.get('VH_ORDER', '').split(',') if t != '']


def _ordered(xs):
    return all(xs[ORDER[i]] < xs[ORDER[i + 1]] for i in range(len(ORDER) - 1))


def _distinct(xs):
    return all(xs[i] != xs[j] for i in range(len(xs)) for j in range(i))


def _binom(n, r):
    if r < 0 or r > n:
        return 0
    out = 1
    for i in range(r):
        out = out * (n - i) // (i + 1)
    return out


def _positions(xs, sub):
    """Positions in xs of the elements of sub, or None if some element is not in xs."""
    pos = []
    for v in sub:
        found = None
        for i, x in enumerate(xs):
            if x == v:
                found = i
        if found is None:
            return None
        pos.append(found)
    return pos


def parts_ok(xs: List[int]) -> bool:
    """
    pre: len(xs) == N and _distinct(xs) and _ordered(xs)
    post: _ == True
    """
    ps = list(partitions(xs))
    if len(ps) != BELL[N]:
        return False
    # enumeration is a pure function of its argument: asking again (searches are re-run in one process) gives the same
    if list(partitions(list(xs))) != ps or list(partitions(tuple(xs))) != ps:
        return False
    blocks = []
    for p in ps:
        if not isinstance(p, tuple) or any(not isinstance(part, tuple) or len(part) == 0 for part in p):
            return False
        pos = []
        for part in p:
            q = _positions(xs, part)
            if q is None:
                return False
            pos.append(q)
        flat = sorted(i for q in pos for i in q)
        if flat != list(range(N)):
            return False          # not a partition: an element is missing or occurs twice
        blocks.append(frozenset(frozenset(q) for q in pos))
        # canonical form: parts shortlex-sorted
        keys = [(len(part), part) for part in p]
        if any(keys[i] > keys[i + 1] for i in range(len(keys) - 1)):
            return False
    if len(set(blocks)) != len(blocks):
        return False              # the same set partition twice
    # documented order of the partitions
    okeys = [(len(p), tuple(len(part) for part in p), p) for p in ps]
    return all(okeys[i] <= okeys[i + 1] for i in range(len(okeys) - 1))


def parts_ok__twin(xs: List[int]) -> bool:
    """
    pre: len(xs) == N and _distinct(xs) and _ordered(xs)
    post: _ == True
    """
    return not parts_ok(xs)


def _subsets_ok(xs, out, lo, hi):
    """out must be exactly the sub-sequences of xs with lo <= size <= hi, by size, then lexicographic in positions."""
    n = len(xs)
    want = sum(_binom(n, r) for r in range(max(lo, 0), min(hi, n) + 1))
    if len(out) != want:
        return False
    keys = []
    for sub in out:
        if not isinstance(sub, tuple):
            return False
        pos = _positions(xs, sub)
        if pos is None or any(pos[i] >= pos[i + 1] for i in range(len(pos) - 1)):
            return False
        if not (lo <= len(sub) <= hi):
            return False
        keys.append((len(pos), pos))
    # strictly increasing keys = documented order and pairwise different at once
    return all(keys[i] < keys[i + 1] for i in range(len(keys) - 1))


def subsets_ok(xs: List[int], lo: int, hi: int) -> bool:
    """
    pre: len(xs) == N and _distinct(xs) and _ordered(xs)
    pre: 0 <= lo <= N + 1 and -N - 2 <= hi <= N + 1
    post: _ == True
    """
    out = list(subsets(xs, min_size=lo, max_size=hi))
    eff_hi = N + hi + 1 if hi < 0 else hi        # documented: a negative maximum is relative to the length
    ok = _subsets_ok(xs, out, lo, eff_hi)
    if lo == 0 and hi == -1:
        ok = ok and list(subsets(xs)) == out and len(out) == 2 ** N      # defaults = the power set
    return ok


def subsets_ok__twin(xs: List[int], lo: int, hi: int) -> bool:
    """
    pre: len(xs) == N and _distinct(xs) and _ordered(xs)
    pre: 0 <= lo <= N + 1 and -N - 2 <= hi <= N + 1
    post: _ == True
    """
    return not subsets_ok(xs, lo, hi)


def nonempty_ok(xs: List[int]) -> bool:
    """
    pre: len(xs) == N and _distinct(xs) and _ordered(xs)
    post: _ == True
    """
    a = list(non_empty_subsets(xs))
    b = list(non_empty_proper_subsets(xs))
    return _subsets_ok(xs, a, 1, N) and len(a) == 2 ** N - 1 and \
        _subsets_ok(xs, b, 1, N - 1) and len(b) == max(2 ** N - 2, 0)


def nonempty_ok__twin(xs: List[int]) -> bool:
    """
    pre: len(xs) == N and _distinct(xs) and _ordered(xs)
    post: _ == True
    """
    return not nonempty_ok(xs)
