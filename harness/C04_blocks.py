"""C04 (5) — naming of OMEGA/SIGMA elements and random effects from the parsed block list.

The real `parsing.parameters_from_blocks` and `parsing.rvs_from_blocks` run on block lists in the format
`OmegaRecord.parse` returns: (names, inits, fix, same).  The layout is symbolic: per block a code (table index) for
DIAGONAL item / BLOCK(2) / BLOCK(3) / BLOCK SAME, whether it carries comment names, whether it is FIX; up to VH_NB blocks.
Reference = NM-TRAN's numbering rule written independently: element (r, c) of a BLOCK(n) starting after `off` etas is
OMEGA(off+r, off+c), 1 <= c <= r <= n; SAME repeats the previous size without new parameters; etas are numbered
cumulatively.
"""
import os
import warnings

warnings.simplefilter('ignore')

try:
    import crosshair.core as _cc
    _cc.consider_shortcircuit = lambda *a, **k: None     # see C18_mfl.py: always execute callees
    from crosshair.tracers import NoTracing as _NoTracing
except ImportError:
    import contextlib
    _NoTracing = contextlib.nullcontext

import pharmpy.model.external.nonmem.parsing as PRS  # noqa: E402
from pharmpy.internals.math import triangular_root  # noqa: E402
from pharmpy.model import ModelSyntaxError  # noqa: E402

NB = int(os.environ.get('VH_NB', '3'))             # exact number of blocks (one process per value), <= 4
RECORD = os.environ.get('VH_RECORD', 'OMEGA')
# block kinds: (size, same, named, fix)
KINDS = [(1, False, False, False), (1, False, True, True), (2, False, False, False), (2, False, True, False),
         (3, False, False, True), (3, False, True, False), (0, True, False, False)]
NKIND = len(KINDS)
C0LO = int(os.environ.get('VH_C0LO', '0'))         # optional case split on the kind of the first block
C0HI = int(os.environ.get('VH_C0HI', str(NKIND)))


def _pick(x, lo, hi):
    while hi - lo > 1:
        mid = (lo + hi) // 2
        if x < mid:
            hi = mid
        else:
            lo = mid
    return lo


def _blocks(codes):
    blocks = []
    for bi, code in enumerate(codes):
        size, same, named, fix = KINDS[code]
        if same:
            blocks.append((None, None, None, True))
            continue
        m = size * (size + 1) // 2
        names = [f'P{bi}_{i}' if named else None for i in range(m)]
        inits = [float(10 * bi + i + 1) for i in range(m)]
        blocks.append((names, inits, fix, False))
    return blocks


def _body(c0, c1, c2, c3):
    codes = [c0, c1, c2, c3][:NB]
    blocks = _blocks(codes)
    prefix = 'ETA' if RECORD == 'OMEGA' else 'EPS'
    if codes and KINDS[codes[0]][1]:
        try:
            PRS.parameters_from_blocks(blocks, set(), RECORD)
        except ModelSyntaxError:
            return True                   # documented refusal: the first block cannot be SAME
        raise AssertionError('a leading SAME block was accepted')
    params, name_map = PRS.parameters_from_blocks(blocks, {'Y', 'TVCL'}, RECORD)
    # ---- reference numbering ----
    want_params = []       # (nonmem name, pharmpy name, init, is diagonal, fix)
    want_etas = []         # per block: (first eta number, size, [nonmem names of its lower triangle], same)
    off = 0
    prev = None
    for bi, code in enumerate(codes):
        size, same, named, fix = KINDS[code]
        if same:
            size = prev[1]
            want_etas.append((off + 1, size, prev[2], True))
        else:
            tri = []
            i = 0
            for r in range(1, size + 1):
                for c in range(1, r + 1):
                    nm = f'{RECORD}({off + r},{off + c})'
                    pname = f'P{bi}_{i}' if named else f'{RECORD}_{off + r}_{off + c}'
                    want_params.append((nm, pname, float(10 * bi + i + 1), r == c, fix))
                    tri.append(nm)
                    i += 1
            if triangular_root(len(tri)) != size:
                raise AssertionError(f'triangular_root({len(tri)}) != {size}')
            prev = (off + 1, size, tri)
            want_etas.append((off + 1, size, tri, False))
        off += size
    if [(p.name, p.init, p.fix) for p in params] != [(w[1], w[2], w[4]) for w in want_params]:
        raise AssertionError(f'parameters {[(p.name, p.init, p.fix) for p in params]} expected {want_params}')
    if any((p.lower == 0) != w[3] for p, w in zip(params, want_params)):
        raise AssertionError('only diagonal elements have the lower bound 0')
    if name_map != {w[0]: w[1] for w in want_params}:
        raise AssertionError(f'name map {name_map}')
    # ---- random effects ----
    abbr = {f'{prefix}(2)': 'MY_ETA'}
    rvs, eta_map = PRS.rvs_from_blocks(abbr, blocks, params, prefix)
    nm2p = {w[0]: w[1] for w in want_params}
    if len(rvs) != len(want_etas):
        raise AssertionError(f'{len(rvs)} distributions for {len(want_etas)} blocks')
    for k, (dist, (first, size, tri, same)) in enumerate(zip(rvs, want_etas)):
        names = ['MY_ETA' if first + i == 2 else f'{prefix}_{first + i}' for i in range(size)]
        if list(dist.names) != names:
            raise AssertionError(f'block {k}: etas {dist.names}, expected {names}')
        if size == 1:
            got = [dist.variance.name]
        else:
            got = [dist.variance[r, c].name for r in range(size) for c in range(r + 1)]
            if any(dist.variance[r, c] != dist.variance[c, r] for r in range(size) for c in range(size)):
                raise AssertionError('covariance matrix not symmetric')
        if got != [nm2p[t] for t in tri]:
            raise AssertionError(f'block {k}: covariance uses {got}, expected {[nm2p[t] for t in tri]}')
        nxt_same = k + 1 < len(want_etas) and want_etas[k + 1][3]
        level = 'RUV' if prefix == 'EPS' else ('IOV' if same or nxt_same else 'IIV')
        if dist.level.upper() != level:
            raise AssertionError(f'block {k}: level {dist.level}, expected {level}')
    want_map = {}
    for first, size, _, _ in want_etas:
        for i in range(size):
            nm = 'MY_ETA' if first + i == 2 else f'{prefix}_{first + i}'
            want_map[f'{prefix}({first + i})'] = nm
            if prefix == 'EPS':
                want_map[f'ERR({first + i})'] = nm
    if eta_map != want_map:
        raise AssertionError(f'eta map {eta_map} expected {want_map}')
    return True


def _lim(i):
    if i >= NB:
        return 1
    return min(C0HI, NKIND) if i == 0 else NKIND


def _lo(i):
    return C0LO if i == 0 and NB > 0 else 0


def blocks_ok(c0: int, c1: int, c2: int, c3: int) -> bool:
    """
    pre: _lo(0) <= c0 < _lim(0) and 0 <= c1 < _lim(1) and 0 <= c2 < _lim(2) and 0 <= c3 < _lim(3)
    post: _ == True
    """
    codes = [_pick(c, _lo(i), _lim(i)) for i, c in enumerate((c0, c1, c2, c3))]
    with _NoTracing():
        return _body(*codes)


def blocks_ok__twin(c0: int, c1: int, c2: int, c3: int) -> bool:
    """
    pre: _lo(0) <= c0 < _lim(0) and 0 <= c1 < _lim(1) and 0 <= c2 < _lim(2) and 0 <= c3 < _lim(3)
    post: _ == True
    """
    codes = [_pick(c, _lo(i), _lim(i)) for i, c in enumerate((c0, c1, c2, c3))]
    with _NoTracing():
        return _body(*codes) is not True
