"""C12 — concrete companion probe (not a solver obligation): the key of a model (ModelHash) and the generic model code
do not depend on the interpreter process.  The same multi-compartment model is built in n fresh interpreters with
different PYTHONHASHSEED values; all must report the same key and the same dict serialisation of the ODE system."""
import json
import os
import subprocess
import sys

SCRIPT = r'''
import json, warnings
warnings.simplefilter('ignore')
from pharmpy.modeling import load_example_model, set_first_order_absorption, add_peripheral_compartment
from pharmpy.workflows.hashing import ModelHash
from pharmpy.modeling import convert_model
m = add_peripheral_compartment(set_first_order_absorption(load_example_model('pheno')))
d = m.statements.ode_system.to_dict()
print('KEY ' + json.dumps(dict(key=str(ModelHash(m)), comps=[c.get('name', c.get('class')) for c in d['compartments']],
                               generic=convert_model(m, 'generic').code)))
'''


def hash_across_processes(n):
    src = [p for p in sys.path if p.endswith('/src')]
    env0 = dict(os.environ)
    out = []
    for seed in range(n):
        env = dict(env0, PYTHONHASHSEED=str(seed))
        if src:
            env['PYTHONPATH'] = os.pathsep.join(src + [env0.get('PYTHONPATH', '')])
        p = subprocess.run([sys.executable, '-W', 'ignore', '-c', SCRIPT], capture_output=True, text=True, env=env,
                           timeout=300)
        line = [ln for ln in p.stdout.splitlines() if ln.startswith('KEY ')]
        if not line:
            raise AssertionError(f'no key from interpreter {seed}: {p.stderr[-300:]}')
        out.append(json.loads(line[0][4:]))
    return all(o == out[0] for o in out)
