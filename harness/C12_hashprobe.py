"""C12 — concrete companion probe (not a solver obligation): the key of a model (ModelHash) and the generic model code
do not depend on the interpreter process.  The same multi-compartment model is built in n fresh interpreters with
different PYTHONHASHSEED values; all must report the same key and the same dict serialisation of the ODE system."""
import json
import os
import subprocess
import sys

SCRIPT = r'''
import json, warnings
warnings.simplefilter('ignore')
from pharmpy.modeling import load_example_model, set_first_order_absorption, add_peripheral_compartment
from pharmpy.workflows.hashing import ModelHash
from pharmpy.modeling import convert_model
m = add_peripheral_compartment(set_first_order_absorption(load_example_model('pheno')))
d = m.statements.ode_system.to_dict()
print('KEY ' + json.dumps(dict(key=str(ModelHash(m)), comps=[c.get('name', c.get('class')) for c in d['compartments']],
                               generic=convert_model(m, 'generic').code)))
'''


def hash_across_processes(n):
    src = [p for p in sys.path if p.endswith('/src')]
    env0 = dict(os.environ)
    out = []
    for seed in range(n):
        env = dict(env0, PYTHONHASHSEED=str(seed))
        if src:
            env['PYTHONPATH'] = os.pathsep.join(src + [env0.get('PYTHONPATH', '')])
        p = subprocess.run([sys.executable, '-W', 'ignore', '-c', SCRIPT], capture_output=True, text=True, env=env,
                           timeout=300)
        line = [ln for ln in p.stdout.splitlines() if ln.startswith('KEY ')]
        if not line:
            raise AssertionError(f'no key from interpreter {seed}: {p.stderr[-300:]}')
        out.append(json.loads(line[0][4:]))
    return all(o == out[0] for o in out)


def hash_distinguishes(n):
    """In ONE interpreter: n models whose datasets differ pairwise are created one after the other (each dataset object
    is dropped before the next is built, so CPython may reuse its address) and keyed; all keys must differ.  The key
    must also ignore name / description and react to a changed initial estimate, statement and estimation step."""
    import gc
    import warnings
    warnings.simplefilter('ignore')
    from pharmpy.modeling import (load_example_model, set_initial_estimates, set_name, set_description,
                                  set_additive_error_model, set_estimation_step)
    from pharmpy.workflows.hashing import ModelHash
    base = load_example_model('pheno')
    df0 = base.dataset
    ModelHash(base)            # the base dataset has been keyed before the derived datasets are made from it
    keys = {}
    for i in range(n):
        df = df0.copy()
        df.loc[df.index[i % len(df)], 'WGT'] = 100.0 + i
        m = base.replace(dataset=df)
        k = str(ModelHash(m))
        del m, df
        gc.collect()
        if k in keys:
            return False
        keys[k] = i
    k0 = str(ModelHash(base))
    same = [set_name(base, 'other'), set_description(base, 'another description')]
    diff = [set_initial_estimates(base, {'POP_CL': 0.0123}), set_additive_error_model(base),
            set_estimation_step(base, 'IMP', idx=0)]
    return all(str(ModelHash(m)) == k0 for m in same) and all(str(ModelHash(m)) != k0 for m in diff)


def generic_roundtrip():
    """Concrete companion (sampling): the generic model code (JSON of Model.to_dict) of a family of models with
    Expr-bearing components - joint distributions, a compartmental system with lag time / bioavailability / peripheral /
    transit compartments / nonlinear elimination, piecewise covariate effects, several dependent variables, estimation
    steps with falsy option values - parses back to an EQUAL model with the same key; the statements, random variables,
    parameters, execution steps, datainfo, dependent variables and observation transformation are compared one by one."""
    import os
    import warnings
    warnings.simplefilter('ignore')
    import pharmpy.modeling as pm
    from pharmpy.model import Model
    from pharmpy.workflows.hashing import ModelHash
    base = pm.load_example_model('pheno')
    variants = {'pheno': base}

    def add(name, f):
        try:
            variants[name] = f()
        except Exception as e:  # noqa  (a variant that cannot be built is not the subject)
            variants[name] = e
    add('joint', lambda: pm.create_joint_distribution(base, individual_estimates=None))
    add('oral_rich', lambda: pm.add_peripheral_compartment(pm.add_bioavailability(pm.add_lag_time(
        pm.set_first_order_absorption(base)))))
    add('transits_mm', lambda: pm.set_michaelis_menten_elimination(pm.set_transit_compartments(base, 2)))
    add('zo_abs', lambda: pm.set_zero_order_absorption(base))
    add('covariates', lambda: pm.add_covariate_effect(pm.add_covariate_effect(base, 'CL', 'WGT', 'pow'), 'VC', 'APGR', 'cat'))
    add('iov', lambda: pm.add_iov(base, 'FA1', ['CL']))
    add('combined_blq', lambda: pm.transform_blq(pm.set_combined_error_model(base), method='m3', lloq=0.1))
    add('metabolite', lambda: pm.add_metabolite(base))
    add('steps', lambda: pm.add_estimation_step(pm.set_estimation_step(base, 'IMP', idx=0, auto=False, niter=0, isample=0,
                                                                    keep_every_nth_iter=0), 'SAEM', niter=10))
    add('simulation', lambda: pm.set_simulation(base, n=3, seed=0))
    add('fixed_bounds', lambda: pm.set_upper_bounds(pm.fix_parameters(base, ['POP_VC']), {'POP_CL': 1.0}))
    add('boxcox', lambda: pm.transform_etas_boxcox(base, ['ETA_CL']))
    bad = []
    done = 0
    for name, m in variants.items():
        if isinstance(m, Exception):
            continue
        g = pm.convert_model(m, 'generic')
        back = Model.parse_model_from_string(g.code)
        done += 1
        parts = dict(statements=back.statements == g.statements, parameters=back.parameters == g.parameters,
                     random_variables=back.random_variables == g.random_variables,
                     execution_steps=back.execution_steps == g.execution_steps, datainfo=back.datainfo == g.datainfo,
                     dependent_variables=dict(back.dependent_variables) == dict(g.dependent_variables),
                     observation_transformation=dict(back.observation_transformation) == dict(g.observation_transformation),
                     model=back == g,
                     # the generic code does not carry the data: the key is compared with the same dataset attached
                     key=str(ModelHash(back.replace(dataset=g.dataset, datainfo=g.datainfo))) == str(ModelHash(g)),
                     statement_text=[str(s) for s in back.statements] == [str(s) for s in g.statements])
        if back.statements.ode_system is not None:
            a, b = back.statements.ode_system, g.statements.ode_system
            parts['ode'] = (a == b and [str(e) for e in a.eqs] == [str(e) for e in b.eqs] and
                            a.compartment_names == b.compartment_names)
        wrong = [k for k, v in parts.items() if not v]
        if wrong:
            bad.append(f'{name}: {wrong}')
    if done < 8:
        raise AssertionError(f'only {done} variants could be built')
    if bad:
        raise AssertionError('; '.join(bad[:5]))
    return True
