"""C12 — concrete companion probe (not a solver obligation): the key of a model (ModelHash) and the generic model code
do not depend on the interpreter process.  The same multi-compartment model is built in n fresh interpreters with
different PYTHONHASHSEED values; all must report the same key and the same dict serialisation of the ODE system."""
import json
import os
import subprocess
import sys

SCRIPT = r'''
import json, warnings
warnings.simplefilter('ignore')
from pharmpy.modeling import load_example_model, set_first_order_absorption, add_peripheral_compartment
from pharmpy.workflows.hashing import ModelHash
from pharmpy.modeling import convert_model
m = add_peripheral_compartment(set_first_order_absorption(load_example_model('pheno')))
d = m.statements.ode_system.to_dict()
print('KEY ' + json.dumps(dict(key=str(ModelHash(m)), comps=[c.get('name', c.get('class')) for c in d['compartments']],
                               generic=convert_model(m, 'generic').code)))
'''


def hash_across_processes(n):
    src = [p for p in sys.path if p.endswith('/src')]
    env0 = dict(os.environ)
    out = []
    for seed in range(n):
        env = dict(env0, PYTHONHASHSEED=str(seed))
        if src:
            env['PYTHONPATH'] = os.pathsep.join(src + [env0.get('PYTHONPATH', '')])
        p = subprocess.run([sys.executable, '-W', 'ignore', '-c', SCRIPT], capture_output=True, text=True, env=env,
                           timeout=300)
        line = [ln for ln in p.stdout.splitlines() if ln.startswith('KEY ')]
        if not line:
            raise AssertionError(f'no key from interpreter {seed}: {p.stderr[-300:]}')
        out.append(json.loads(line[0][4:]))
    return all(o == out[0] for o in out)


def hash_distinguishes(n):
    """In ONE interpreter: n models whose datasets differ pairwise are created one after the other (each dataset object
    is dropped before the next is built, so CPython may reuse its address) and keyed; all keys must differ.  The key
    must also ignore name / description and react to a changed initial estimate, statement and estimation step."""
    import gc
    import warnings
    warnings.simplefilter('ignore')
    from pharmpy.modeling import (load_example_model, set_initial_estimates, set_name, set_description,
                                  set_additive_error_model, set_estimation_step)
    from pharmpy.workflows.hashing import ModelHash
    base = load_example_model('pheno')
    df0 = base.dataset
    keys = {}
    for i in range(n):
        df = df0.copy()
        df.loc[df.index[i % len(df)], 'WGT'] = 100.0 + i
        m = base.replace(dataset=df)
        k = str(ModelHash(m))
        del m, df
        gc.collect()
        if k in keys:
            return False
        keys[k] = i
    k0 = str(ModelHash(base))
    same = [set_name(base, 'other'), set_description(base, 'another description')]
    diff = [set_initial_estimates(base, {'POP_CL': 0.0123}), set_additive_error_model(base),
            set_estimation_step(base, 'IMP', idx=0)]
    return all(str(ModelHash(m)) == k0 for m in same) and all(str(ModelHash(m)) != k0 for m in diff)
