"""C04 — model level: parameters(read(code(E(read(L))))) == parameters(E(read(L))) and likewise for the random
variables, for record layouts L assembled from the slot table of C03_model (several spellings of $THETA, $OMEGA,
$SIGMA incl. name comments, BLOCK, DIAGONAL, FIX, odd number spelling) and edits E of the public API.

The solver enumerates the table (symbolic indexes fixed by bisection); the real parse / edit / update_source / re-parse
run on the concrete text of each path.  VH_EDIT pins the edit.
"""
import os
import warnings

warnings.simplefilter('ignore')

try:
    from crosshair.tracers import NoTracing as _NoTracing
except ImportError:
    import contextlib
    _NoTracing = contextlib.nullcontext

import C03_model as B  # noqa: E402  (slot table, _pick)
from pharmpy.model import Model  # noqa: E402
import pharmpy.modeling as pm  # noqa: E402

EDIT = int(os.environ.get('VH_EDIT', '0'))
SL = (5, 6, 7, 8)            # slots that vary here: $ERROR, $THETA, $OMEGA, $SIGMA
NS = [len(B.SLOTS[i]) for i in SL]

EDITS = ['none', 'theta_init', 'theta_fix', 'theta_unfix_all', 'theta_bounds', 'theta_remove_upper', 'omega_init',
         'sigma_init', 'add_theta', 'add_iiv', 'remove_iiv_last', 'remove_iiv_first', 'join', 'split', 'fix_omega',
         'fix_all', 'block3_second_update']


def _apply(m, edit):
    names = m.parameters.names
    th = [p.name for p in m.parameters if p.symbol in m.statements.free_symbols and 'THETA' in p.name.upper() or
          p.name.startswith(('TV', 'POP'))]
    th = th or list(names[:2])
    om = [p for p in m.random_variables.etas.parameter_names]
    sg = [p for p in m.random_variables.epsilons.parameter_names]
    e = EDITS[edit]
    if e == 'none':
        return m
    if e == 'theta_init':
        return pm.set_initial_estimates(m, {th[0]: 0.75})
    if e == 'theta_fix':
        return pm.fix_parameters(m, [th[0]])
    if e == 'theta_unfix_all':
        return pm.unfix_parameters(m, list(th))
    if e == 'theta_bounds':
        return pm.set_upper_bounds(pm.set_lower_bounds(m, {th[0]: 0.125}), {th[0]: 8})
    if e == 'theta_remove_upper':
        return pm.unconstrain_parameters(m, [th[-1]])
    if e == 'omega_init':
        return pm.set_initial_estimates(m, {om[0]: 0.15})
    if e == 'sigma_init':
        return pm.set_initial_estimates(m, {sg[0]: 0.25})
    if e == 'add_theta':
        return pm.add_population_parameter(m, 'POP_NEW', 2.5, lower=0)
    if e == 'add_iiv':
        return pm.add_iiv(m, 'S1', 'exp')
    if e == 'remove_iiv_last':
        return pm.remove_iiv(m, m.random_variables.etas.names[-1])
    if e == 'remove_iiv_first':
        return pm.remove_iiv(m, m.random_variables.etas.names[0])
    if e == 'join':
        return pm.create_joint_distribution(m, individual_estimates=None)
    if e == 'split':
        return pm.split_joint_distribution(m)
    if e == 'fix_omega':
        return pm.fix_parameters(m, [om[0]])
    if e == 'fix_all':
        return pm.fix_parameters(m, list(names))
    if e == 'block3_second_update':
        # a BLOCK(3) record is created (first update) and then goes through a second update of an unrelated parameter
        m1 = pm.create_joint_distribution(pm.add_iiv(m, 'S1', 'exp'), individual_estimates=None).update_source()
        m1 = pm.set_initial_estimates(m1, {m1.random_variables.etas.parameter_names[1]: 0.0123})
        return pm.set_initial_estimates(m1.update_source(), {th[0]: 0.75})
    raise AssertionError(e)


import re  # noqa: E402

_DEFAULT = re.compile(r'^(THETA_\d+|OMEGA_\d+_\d+|SIGMA_\d+_\d+)_*$')


def _pvec(m):
    """parameters per class (theta / omega / sigma), in model order within the class"""
    om = set(m.random_variables.etas.parameter_names)
    sg = set(m.random_variables.epsilons.parameter_names)
    out = {'theta': [], 'omega': [], 'sigma': []}
    for p in m.parameters:
        c = 'omega' if p.name in om else ('sigma' if p.name in sg else 'theta')
        out[c].append((p.name, float(p.init), float(p.lower), float(p.upper), bool(p.fix)))
    return out


def _close(a, b):
    return a == b or abs(a - b) <= 1e-12 * max(1.0, abs(a), abs(b))


def _same_name(x, y):
    # default names (THETA_n, OMEGA_i_j, SIGMA_i_j) ARE positions: they legitimately change when a parameter before
    # them is removed or inserted; every other name must be carried through the text
    return x == y or (_DEFAULT.match(x) and _DEFAULT.match(y))


def _same_params(a, b, exact=True):
    """per class: parameters correspond by NAME (any order: the order inside a class is not semantic, e.g. a new
    covariance is appended in memory and written row-wise).  `exact=False` (only after the removal of a random effect
    that precedes default-named ones - a known deviation, see finding_default_name_after_removal): parameters with a
    default name (THETA_n, OMEGA_i_j, SIGMA_i_j) are compared as multisets of values"""
    def eq(x, y):
        return x[4] == y[4] and all(_close(u, v) for u, v in zip(x[1:4], y[1:4]))
    if exact:
        for c in ('theta', 'omega', 'sigma'):
            na, nb = {x[0]: x for x in a[c]}, {y[0]: y for y in b[c]}
            if len(na) != len(a[c]) or set(na) != set(nb) or any(not eq(na[n], nb[n]) for n in na):
                return False
        return True
    for c in ('theta', 'omega', 'sigma'):
        if len(a[c]) != len(b[c]):
            return False
        na = {x[0]: x for x in a[c] if not _DEFAULT.match(x[0])}
        nb = {y[0]: y for y in b[c] if not _DEFAULT.match(y[0])}
        if set(na) != set(nb) or any(not eq(na[n], nb[n]) for n in na):
            return False
        # default-named ones: the same values as multisets (which eta each belongs to is compared through the random
        # variables, _same_rvs: the distributions in eta order with their (co)variance values)
        da = sorted(x[1:] for x in a[c] if _DEFAULT.match(x[0]))
        db = sorted(y[1:] for y in b[c] if _DEFAULT.match(y[0]))
        if len(da) != len(db) or any(not eq((None,) + x, (None,) + y) for x, y in zip(da, db)):
            return False
    return True


def _rvs(m):
    """etas and epsilons separately (their relative order in the collection is not semantic); variances by value"""
    inits = {p.name: float(p.init) for p in m.parameters}
    out = {'eta': [], 'eps': []}
    for grp, dists in (('eta', m.random_variables.etas), ('eps', m.random_variables.epsilons)):
        for d in dists:
            var = d.variance
            if hasattr(var, 'rows'):
                vals = tuple(round(inits.get(str(var[i, j]), float('nan')), 12)
                             for i in range(var.rows) for j in range(i + 1))
            else:
                vals = (round(inits.get(str(var), float('nan')), 12),)
            out[grp].append((tuple(n for n in d.names), str(d.level), vals))
    return out


def _same_rvs(a, b):
    for g in ('eta', 'eps'):
        if len(a[g]) != len(b[g]):
            return False
        for x, y in zip(a[g], b[g]):
            if x[1] != y[1] or x[2] != y[2] or len(x[0]) != len(y[0]):
                return False
            if not all(n1 == n2 or (re.match(r'^(ETA|EPS)_\d+$', n1) and re.match(r'^(ETA|EPS)_\d+$', n2))
                       for n1, n2 in zip(x[0], y[0])):
                return False
    return True


REGION = os.environ.get('VH_REGION', 'main')


def _body(idx, edit):
    # known finding (C04-default-omega-name-after-removal): removing the FIRST random effect leaves the later,
    # default-named OMEGA_2_2 in memory while the generated code re-reads it as OMEGA_1_1 (no name comment is
    # written).  Region 'default_name_after_removal' demands exact names there; the main region compares the
    # default-named parameters of that one edit by value.
    loose = EDITS[edit] == 'remove_iiv_first'
    if REGION == 'default_name_after_removal':
        if not loose:
            return None
        loose = False
    full = [0] * len(B.SLOTS)
    for s, j in zip(SL, idx):
        full[s] = j
    text = ''.join(B.SLOTS[i][j] for i, j in enumerate(full))
    m = Model.parse_model_from_string(text)
    try:
        m2 = _apply(m, edit)
    except (ValueError, NotImplementedError):
        return None                   # documented refusal of the edit on this layout
    m2 = m2.update_source()
    code = m2.code
    try:
        back = Model.parse_model_from_string(code)
    except Exception as e:            # noqa
        raise AssertionError(f'{EDITS[edit]} on {text!r}: generated code cannot be read again '
                             f'({type(e).__name__}: {str(e)[:120]}): {code!r}')
    if not _same_params(_pvec(back), _pvec(m2), exact=not loose):
        raise AssertionError(f'{EDITS[edit]} on layout {idx}: re-read parameters {_pvec(back)} != in-memory {_pvec(m2)}; '
                             f'code {code!r}')
    if not _same_rvs(_rvs(back), _rvs(m2)):
        raise AssertionError(f'{EDITS[edit]} on layout {idx}: re-read random variables {_rvs(back)} != in-memory '
                             f'{_rvs(m2)}; code {code!r}')
    return True


def model_params(i5: int, i6: int, i7: int, i8: int) -> bool:
    """
    pre: 0 <= i5 < NS[0] and 0 <= i6 < NS[1] and 0 <= i7 < NS[2] and 0 <= i8 < NS[3]
    post: _ in (True, None)
    """
    idx = [B._pick(x, 0, n) for x, n in zip((i5, i6, i7, i8), NS)]
    with _NoTracing():
        return _body(idx, EDIT)


def model_params__twin(i5: int, i6: int, i7: int, i8: int) -> bool:
    """
    pre: 0 <= i5 < NS[0] and 0 <= i6 < NS[1] and 0 <= i7 < NS[2] and 0 <= i8 < NS[3]
    post: _ == True
    """
    idx = [B._pick(x, 0, n) for x, n in zip((i5, i6, i7, i8), NS)]
    with _NoTracing():
        return _body(idx, EDIT) is not True


# ---------------------------------------------------------------------------------------------------------------
# four etas over several multi-value records: edits that remove / join all etas of ONE record

PK4 = ('$SUBROUTINE ADVAN1 TRANS2\n$PK\nCL = THETA(1)*EXP(ETA(1))\nV = THETA(2)*EXP(ETA(2))\nS1 = V*EXP(ETA(3))\n'
       'ZZ = EXP(ETA(4))\n')
OMEGA4 = ['$OMEGA 0.1 0.2 ; first two\n$OMEGA 0.3 0.4 ; last two\n',
          '$OMEGA 0.1 0.2\n$OMEGA 0.3\n$OMEGA 0.4\n',
          '$OMEGA 0.1\n$OMEGA 0.2 0.3 0.4\n',
          '$OMEGA 0.1 ; IIV_A\n 0.2 ; IIV_B\n$OMEGA 0.3 ; IIV_C\n 0.4 ; IIV_D\n',
          '$OMEGA 0.1 0.2 0.3 0.4\n',
          '$OMEGA BLOCK(2)\n0.1\n0.01 0.2\n$OMEGA 0.3 0.4\n']
EDITS4 = ['none', 'remove_12', 'remove_34', 'remove_1', 'remove_4', 'remove_23', 'join_12', 'join_34', 'join_23', 'join_all',
          'remove_12_then_init']
NO4, NE4 = len(OMEGA4), len(EDITS4)


def _apply4(m, e):
    etas = m.random_variables.etas.names
    pick = lambda ks: [etas[k - 1] for k in ks]      # noqa: E731
    if e == 'none':
        return m
    if e.startswith('remove_') and e != 'remove_12_then_init':
        return pm.remove_iiv(m, pick([int(c) for c in e.split('_')[1]]))
    if e == 'join_all':
        return pm.create_joint_distribution(m, individual_estimates=None)
    if e.startswith('join_'):
        return pm.create_joint_distribution(m, pick([int(c) for c in e.split('_')[1]]), individual_estimates=None)
    m1 = pm.remove_iiv(m, pick([1, 2])).update_source()
    return pm.set_initial_estimates(m1, {m1.random_variables.etas.parameter_names[-1]: 0.45})


REGION4 = os.environ.get('VH_REGION', 'main')


def _body4(lay, edit):
    # known finding (C04-omega-insert-into-diag): a joint block created from the middle values of one multi-value
    # diagonal record; kept apart so that the main region is checked strictly
    region = 'join_middle_of_diag' if (EDITS4[edit] == 'join_23' and OMEGA4[lay] == '$OMEGA 0.1 0.2 0.3 0.4\n') else 'main'
    if region != REGION4:
        return None
    text = ''.join(B.SLOTS[i][0] for i in range(4)) + PK4 + B.SLOTS[5][0] + B.SLOTS[6][0] + OMEGA4[lay] + \
        B.SLOTS[8][0] + B.SLOTS[9][0]
    m = Model.parse_model_from_string(text)
    try:
        m2 = _apply4(m, EDITS4[edit])
    except (ValueError, NotImplementedError):
        return None
    m2 = m2.update_source()
    code = m2.code
    try:
        back = Model.parse_model_from_string(code)
    except Exception as e:            # noqa
        raise AssertionError(f'{EDITS4[edit]} on {OMEGA4[lay]!r}: generated code cannot be read again '
                             f'({type(e).__name__}: {str(e)[:120]}): {code!r}')
    if not _same_params(_pvec(back), _pvec(m2), exact=not EDITS4[edit].startswith('remove_')):
        raise AssertionError(f'{EDITS4[edit]} on {OMEGA4[lay]!r}: re-read parameters {_pvec(back)} != in-memory '
                             f'{_pvec(m2)}; code {code!r}')
    if not _same_rvs(_rvs(back), _rvs(m2)):
        raise AssertionError(f'{EDITS4[edit]} on {OMEGA4[lay]!r}: re-read random variables {_rvs(back)} != in-memory '
                             f'{_rvs(m2)}; code {code!r}')
    # comments of values that stay must stay
    for c in ('IIV_A', 'IIV_B', 'IIV_C', 'IIV_D'):
        if c in OMEGA4[lay] and c in m2.parameters.names and c not in code:
            raise AssertionError(f'{EDITS4[edit]} on {OMEGA4[lay]!r}: name comment {c} lost: {code!r}')
    return True


def model_params4(lay: int, edit: int) -> bool:
    """
    pre: 0 <= lay < NO4 and 0 <= edit < NE4
    post: _ in (True, None)
    """
    codes = [B._pick(lay, 0, NO4), B._pick(edit, 0, NE4)]
    with _NoTracing():
        return _body4(*codes)


def model_params4__twin(lay: int, edit: int) -> bool:
    """
    pre: 0 <= lay < NO4 and 0 <= edit < NE4
    post: _ == True
    """
    codes = [B._pick(lay, 0, NO4), B._pick(edit, 0, NE4)]
    with _NoTracing():
        return _body4(*codes) is not True


# ---------------------------------------------------------------------------------------------------------------
# five etas: a multi-value diagonal record followed by a BLOCK(3); parts of the block are split off, so records of
# default-named omegas are re-written at other positions than their names say (their names must be carried by comments)

PK5 = ('$SUBROUTINE ADVAN1 TRANS2\n$PK\nCL = THETA(1)*EXP(ETA(1))\nV = THETA(2)*EXP(ETA(2))\nS1 = V*EXP(ETA(3))\n'
       'ZZ = EXP(ETA(4))\nZY = EXP(ETA(5))\n')
OMEGA5 = ['$OMEGA 0.1 0.2\n$OMEGA BLOCK(3)\n0.3\n0.01 0.4\n0.01 0.02 0.5\n',
          '$OMEGA BLOCK(3)\n0.1\n0.01 0.2\n0.01 0.02 0.3\n$OMEGA 0.4 0.5\n',
          '$OMEGA 0.1\n$OMEGA BLOCK(3)\n0.2\n0.01 0.3\n0.01 0.02 0.4\n$OMEGA 0.5\n',
          '$OMEGA 0.1 0.2 ; two\n$OMEGA BLOCK(2)\n0.3\n0.01 0.4\n$OMEGA 0.5\n']
EDITS5 = ['split_a', 'split_b', 'split_c', 'split_ab', 'split_bc', 'split_ac', 'split_all', 'join_first_two', 'join_all',
          'split_bc_then_init']
NO5, NE5 = len(OMEGA5), len(EDITS5)


def _apply5(m, e):
    # a, b, c: the members of the (first) joint block
    block = next(d for d in m.random_variables.etas if len(d.names) > 1)
    member = dict(zip('abc', block.names))
    if e == 'split_all':
        return pm.split_joint_distribution(m)
    if e == 'join_all':
        return pm.create_joint_distribution(m, individual_estimates=None)
    if e == 'join_first_two':
        return pm.create_joint_distribution(m, m.random_variables.etas.names[:2], individual_estimates=None)
    keys = e.split('_')[1]
    names = [member[k] for k in keys if k in member]
    if len(names) != len(keys):
        raise ValueError('block too small')
    m1 = pm.split_joint_distribution(m, names)
    if e.endswith('then_init'):
        m1 = m1.update_source()
        return pm.set_initial_estimates(m1, {m1.random_variables.etas.parameter_names[-1]: 0.45})
    return m1


def _body5(lay, edit):
    text = ''.join(B.SLOTS[i][0] for i in range(4)) + PK5 + B.SLOTS[5][0] + B.SLOTS[6][0] + OMEGA5[lay] + \
        B.SLOTS[8][0] + B.SLOTS[9][0]
    m = Model.parse_model_from_string(text)
    try:
        m2 = _apply5(m, EDITS5[edit])
    except (ValueError, NotImplementedError):
        return None
    m2 = m2.update_source()
    code = m2.code
    try:
        back = Model.parse_model_from_string(code)
    except Exception as e:            # noqa
        raise AssertionError(f'{EDITS5[edit]} on {OMEGA5[lay]!r}: generated code cannot be read again '
                             f'({type(e).__name__}: {str(e)[:120]}): {code!r}')
    if not _same_params(_pvec(back), _pvec(m2), exact=True):
        raise AssertionError(f'{EDITS5[edit]} on {OMEGA5[lay]!r}: re-read parameters {_pvec(back)} != in-memory '
                             f'{_pvec(m2)}; code {code!r}')
    if not _same_rvs(_rvs(back), _rvs(m2)):
        raise AssertionError(f'{EDITS5[edit]} on {OMEGA5[lay]!r}: re-read random variables {_rvs(back)} != in-memory '
                             f'{_rvs(m2)}; code {code!r}')
    return True


def model_params5(lay: int, edit: int) -> bool:
    """
    pre: 0 <= lay < NO5 and 0 <= edit < NE5
    post: _ in (True, None)
    """
    codes = [B._pick(lay, 0, NO5), B._pick(edit, 0, NE5)]
    with _NoTracing():
        return _body5(*codes)


def model_params5__twin(lay: int, edit: int) -> bool:
    """
    pre: 0 <= lay < NO5 and 0 <= edit < NE5
    post: _ == True
    """
    codes = [B._pick(lay, 0, NO5), B._pick(edit, 0, NE5)]
    with _NoTracing():
        return _body5(*codes) is not True
