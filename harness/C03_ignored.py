"""C03 obligations 1 and 2 — the code that re-inserts ignored characters so that AttrTree.__str__ gives back the source:
pharmpy.internals.parse.ignored._tokenize_ignored_characters, interleave_ignored, with_ignored_tokens.

lark.Token is a str subclass (forces realisation): inside the pharmpy module it is rebound to a plain stand-in class.
Trees are real lark.Tree objects whose leaves are stand-in tokens with symbolic, ordered, non-overlapping ranges.
"""
import os
import warnings

warnings.simplefilter('ignore')

from lark import Tree  # noqa: E402
from lark.tree import Meta  # noqa: E402

import pharmpy.internals.parse.ignored as ign  # noqa: E402

NL = chr(10)
CR = chr(13)
TAB = chr(9)
NUL = chr(0)


class FakeToken:
    def __init__(self, type, value, start_pos=None, end_pos=None):
        self.type = type
        self.value = value
        self.start_pos = start_pos
        self.end_pos = end_pos

    def __str__(self):
        return self.value


REAL = os.environ.get('VH_REAL') == '1'     # second-stage confirmation: real lark.Token, nothing rebound
if REAL:
    from lark import Token as FakeToken  # noqa: E402,F811
else:
    ign.Token = FakeToken
    _LARK_VERSION = ign.version('lark')
    ign.version = lambda name: _LARK_VERSION      # importlib.metadata lookup per tree node -> constant

TOKALPHA = ' ' + NUL + TAB + ';' + CR + NL + '&x'
TOK_MAX = int(os.environ.get('VH_TOKMAX', '3'))
TOK_LEN = int(os.environ.get('VH_TOKLEN', '-1'))
TOK_FIRST = int(os.environ.get('VH_TOKFIRST', '-1'))
WSCH = ' ' + NUL + TAB


def _tok_split(s):
    if TOK_LEN >= 0 and len(s) != TOK_LEN:
        return False
    if TOK_FIRST >= 0 and (len(s) < 1 or s[0] != TOKALPHA[TOK_FIRST]):
        return False
    return True


def ref_tokens(s, i, j):
    """Reference tokenisation of s[i:j] into WS / COMMENT / NEWLINE / CONT (definitions.lark: WS = [ NUL TAB]+,
    COMMENT = ;[^CR LF]*, NEWLINE = CR?LF; CONT = &[^CR LF]*); None when s[i:j] is not made of ignorable tokens."""
    out = []
    k = i
    while k < j:
        c = s[k]
        e = k + 1
        if c in WSCH:
            while e < j and s[e] in WSCH:
                e += 1
            out.append(('WS', k, e))
        elif c == ';' or c == '&':
            while e < j and s[e] != CR and s[e] != NL:
                e += 1
            out.append(('COMMENT' if c == ';' else 'CONT', k, e))
        elif c == NL:
            out.append(('NEWLINE', k, e))
        elif c == CR and e < j and s[e] == NL:
            e += 1
            out.append(('NEWLINE', k, e))
        else:
            return None
        k = e
    return out


def tokenize(s: str, i: int, j: int) -> bool:
    """
    Tokens concatenate to s[i:j] with the right types and positions; text that is not ignorable raises the documented
    AssertionError (or still concatenates to s[i:j]).
    pre: len(s) <= TOK_MAX and 0 <= i <= j <= len(s) and _tok_split(s)
    pre: all(c in TOKALPHA for c in s)
    post: _ == True
    """
    ref = ref_tokens(s, i, j)
    try:
        toks = list(ign._tokenize_ignored_characters(s, i, j))
    except AssertionError:
        return ref is None
    if ''.join(t.value for t in toks) != s[i:j]:
        return False
    if ref is None:
        return True
    return [(t.type, t.start_pos, t.end_pos) for t in toks] == ref and \
        all(t.value == s[t.start_pos:t.end_pos] for t in toks)


def tokenize__twin(s: str, i: int, j: int) -> bool:
    """
    pre: len(s) <= TOK_MAX and 0 <= i <= j <= len(s) and _tok_split(s)
    pre: all(c in TOKALPHA for c in s)
    pre: j - i >= 2 and ref_tokens(s, i, j) is not None
    post: _ == True
    """
    return not tokenize(s, i, j)


# --------------------------------------------------------------------------------------------------------------
# obligation 2

SRCALPHA = ' ;' + NL + '&xy'
SRC_MAX = int(os.environ.get('VH_SRCMAX', '4'))
SRC_LEN = int(os.environ.get('VH_SRCLEN', '-1'))
SRC_FIRST = int(os.environ.get('VH_SRCFIRST', '-1'))
SHAPE = int(os.environ.get('VH_SHAPE', '-1'))


def _src_split(s, shape=None):
    if SRC_LEN >= 0 and len(s) != SRC_LEN:
        return False
    if SRC_FIRST >= 0 and (len(s) < 1 or s[0] != SRCALPHA[SRC_FIRST]):
        return False
    if shape is not None and SHAPE >= 0 and shape != SHAPE:
        return False
    return True


def gap_ok(s, i, j):
    """every character between two tokens / around the tree is ignorable"""
    return ref_tokens(s, i, j) is not None


def _meta(a, b):
    m = Meta()
    m.start_pos = a
    m.end_pos = b
    m.empty = False
    return m


def _leaves(t):
    out = []
    for c in t.children:
        if isinstance(c, Tree):
            out.extend(_leaves(c))
        else:
            out.append(c)
    return out


def interleave2(s: str, a0: int, a1: int, b0: int, b1: int) -> bool:
    """
    interleave_ignored on two sibling tokens [a0,a1) [b0,b1): the result concatenates to s[a0:b1] and keeps both
    tokens (identity) in order.
    pre: len(s) <= SRC_MAX and 0 <= a0 < a1 <= b0 < b1 <= len(s) and _src_split(s)
    pre: all(c in SRCALPHA for c in s)
    pre: gap_ok(s, a1, b0)
    post: _ == True
    """
    t1 = FakeToken('A', s[a0:a1], start_pos=a0, end_pos=a1)
    t2 = FakeToken('B', s[b0:b1], start_pos=b0, end_pos=b1)
    out = ign.interleave_ignored(s, [t1, t2])
    return ''.join(t.value for t in out) == s[a0:b1] and out[0] is t1 and out[-1] is t2 and \
        all(t.type in ('WS', 'COMMENT', 'NEWLINE', 'CONT') for t in out[1:-1])


def interleave3(s: str, a0: int, a1: int, b0: int, b1: int, c0: int, c1: int) -> bool:
    """
    Three siblings: token, subtree (one token) or token, token.
    pre: len(s) <= SRC_MAX and 0 <= a0 < a1 <= b0 < b1 <= c0 < c1 <= len(s) and _src_split(s)
    pre: all(c in SRCALPHA for c in s)
    pre: gap_ok(s, a1, b0) and gap_ok(s, b1, c0)
    post: _ == True
    """
    t1 = FakeToken('A', s[a0:a1], start_pos=a0, end_pos=a1)
    t2 = FakeToken('B', s[b0:b1], start_pos=b0, end_pos=b1)
    t3 = FakeToken('C', s[c0:c1], start_pos=c0, end_pos=c1)
    sub = Tree('sub', [t2], _meta(b0, b1))
    out = ign.interleave_ignored(s, [t1, sub, t3])
    flat = []
    for x in out:
        flat.extend(_leaves(x) if isinstance(x, Tree) else [x])
    return ''.join(t.value for t in flat) == s[a0:c1] and out[0] is t1 and out[-1] is t3 and sub in out


def build_tree(s, shape, a0, a1, b0, b1, c0, c1):
    """Stand-in parse trees as lark produces them with propagate_positions (meta = first/last token of the subtree).
    shape 0: root[]   1: root[A]   2: root[A B]   3: root[A sub[B]]   4: root[sub[A B] C]   5: root[A sub[B C]]
    6: root[sub[A] sub2[B C]]   7: root[A B C]"""
    A = FakeToken('A', s[a0:a1], start_pos=a0, end_pos=a1)
    B = FakeToken('B', s[b0:b1], start_pos=b0, end_pos=b1)
    C = FakeToken('C', s[c0:c1], start_pos=c0, end_pos=c1)
    if shape == 0:
        return Tree('root', [], Meta()), 0
    if shape == 1:
        return Tree('root', [A], _meta(a0, a1)), 1
    if shape == 2:
        return Tree('root', [A, B], _meta(a0, b1)), 2
    if shape == 3:
        return Tree('root', [A, Tree('sub', [B], _meta(b0, b1))], _meta(a0, b1)), 2
    if shape == 4:
        return Tree('root', [Tree('sub', [A, B], _meta(a0, b1)), C], _meta(a0, c1)), 3
    if shape == 5:
        return Tree('root', [A, Tree('sub', [B, C], _meta(b0, c1))], _meta(a0, c1)), 3
    if shape == 6:
        return Tree('root', [Tree('sub', [A], _meta(a0, a1)), Tree('sub2', [B, C], _meta(b0, c1))], _meta(a0, c1)), 3
    return Tree('root', [A, B, C], _meta(a0, c1)), 3


NSHAPES = 8


def shape_pre(s, shape, a0, a1, b0, b1, c0, c1):
    n = len(s)
    if not 0 <= shape < NSHAPES:
        return False
    ntok = [0, 1, 2, 2, 3, 3, 3, 3][shape]
    if ntok == 0:
        return gap_ok(s, 0, n) and a0 == a1 == b0 == b1 == c0 == c1 == 0
    if not 0 <= a0 < a1 <= n:
        return False
    if not gap_ok(s, 0, a0):
        return False
    if ntok == 1:
        return gap_ok(s, a1, n) and b0 == b1 == c0 == c1 == 0
    if not a1 <= b0 < b1 <= n or not gap_ok(s, a1, b0):
        return False
    if ntok == 2:
        return gap_ok(s, b1, n) and c0 == c1 == 0
    if not b1 <= c0 < c1 <= n or not gap_ok(s, b1, c0):
        return False
    return gap_ok(s, c1, n)


def whole_tree(s: str, shape: int, a0: int, a1: int, b0: int, b1: int, c0: int, c1: int) -> bool:
    """
    with_ignored_tokens on a stand-in tree over source s in which every character outside a token is ignorable: the
    leaves of the result concatenate to s (what AttrTree.__str__ relies on), the original tokens are all there, in
    order, and every added leaf is an ignored-type token.
    pre: len(s) <= SRC_MAX and _src_split(s, shape)
    pre: all(c in SRCALPHA for c in s)
    pre: shape_pre(s, shape, a0, a1, b0, b1, c0, c1)
    post: _ == True
    """
    tree, ntok = build_tree(s, shape, a0, a1, b0, b1, c0, c1)
    out = ign.with_ignored_tokens(s, tree)
    leaves = _leaves(out)
    if ''.join(t.value for t in leaves) != s:
        return False
    orig = [t for t in leaves if t.type in ('A', 'B', 'C')]
    if [t.type for t in orig] != ['A', 'B', 'C'][:ntok]:
        return False
    if not all(t.type in ('A', 'B', 'C', 'WS', 'COMMENT', 'NEWLINE', 'CONT') for t in leaves):
        return False
    return out.data == 'root' and out.meta.start_pos == 0 and out.meta.end_pos == len(s)


def interleave2__twin(s: str, a0: int, a1: int, b0: int, b1: int) -> bool:
    """
    pre: len(s) <= SRC_MAX and 0 <= a0 < a1 <= b0 < b1 <= len(s) and _src_split(s)
    pre: all(c in SRCALPHA for c in s)
    pre: gap_ok(s, a1, b0) and b0 - a1 >= 2
    post: _ == True
    """
    return not interleave2(s, a0, a1, b0, b1)


def interleave3__twin(s: str, a0: int, a1: int, b0: int, b1: int, c0: int, c1: int) -> bool:
    """
    pre: len(s) <= SRC_MAX and 0 <= a0 < a1 <= b0 < b1 <= c0 < c1 <= len(s) and _src_split(s)
    pre: all(c in SRCALPHA for c in s)
    pre: gap_ok(s, a1, b0) and gap_ok(s, b1, c0) and c0 - b1 >= 1
    post: _ == True
    """
    return not interleave3(s, a0, a1, b0, b1, c0, c1)


def whole_tree__twin(s: str, shape: int, a0: int, a1: int, b0: int, b1: int, c0: int, c1: int) -> bool:
    """
    pre: len(s) <= SRC_MAX and _src_split(s, shape)
    pre: all(c in SRCALPHA for c in s)
    pre: shape_pre(s, shape, a0, a1, b0, b1, c0, c1) and shape >= 2 and b0 - a1 >= 1 and a0 >= 1
    post: _ == True
    """
    return not whole_tree(s, shape, a0, a1, b0, b1, c0, c1)
