"""Shared by the C06 and C12 harnesses: builders of the Expr-free value objects from symbolic field values, the
structural model of the builtin `hash`, the reachability filter (an object counts only if the validating
constructor `create` reproduces exactly its fields) and small helpers.

Stubs (installed by rebinding names in the namespaces of the real pharmpy modules; no pharmpy source is touched):

* `hash`  (parameters, datainfo, execution_steps, random_variables, internals.immutable): **structural hash**.
  `H(t)` returns a wrapper `HV` around the (nested) tuple of leaf values that the class feeds to `hash`; two `HV`
  are equal iff the tuples are elementwise `==`.  Contract used: for builtin str/int/bool/float(non-NaN)/None/tuple,
  `x == y  =>  hash(x) == hash(y)`, hence  HV equal => builtin hashes equal.  (The builtin hash realises every
  symbolic value, which would turn each obligation into an enumeration of all values.)  When an obligation fails
  under the structural hash it is re-decided with the **builtin** hash (`real_hash_mode`) before False is returned,
  so a reported counterexample always holds with the real `hash`.
* `np.isnan`  (parameters):  `x != x`.
* `float` (parameters, only inside the create/replace obligations): identity on numbers wrapped into `Num`, whose
  comparisons are those of the wrapped (symbolic) float and whose `__format__` is constant: the f-string in the
  ValueError message would otherwise realise the float.
"""
import os
import sys
from pathlib import Path

import pharmpy.internals.immutable as IM
import pharmpy.model.datainfo as D
import pharmpy.model.execution_steps as X
import pharmpy.model.parameters as P
import pharmpy.model.random_variables as R
from pharmpy.basic import Unit
from pharmpy.internals.immutable import frozenmapping

THOROUGH = os.environ.get('VH_TIER', 'quick') == 'thorough'


def _force_ieee_floats():
    """CrossHair models `float` either by z3 reals (default, 98%) or by the z3 floating-point theory.  Every path
    through the real-number model is capped at "unknown" by CrossHair itself (it is an approximation), so symbolic
    floats could never be confirmed.  Under CrossHair this harness selects the exact IEEE-754 binary64 model
    (NaN, +-inf, -0.0 included) as the only representation.  No effect outside CrossHair (concrete replay)."""
    bl = sys.modules.get('crosshair.libimpl.builtinslib')
    if bl is not None and hasattr(bl, 'PreciseIeeeSymbolicFloat') and hasattr(bl, '_PYTYPE_TO_WRAPPER_TYPE'):
        bl._PYTYPE_TO_WRAPPER_TYPE[float] = ((bl.PreciseIeeeSymbolicFloat, 1.0),)


_force_ieee_floats()

PHARMPY_VALUE_CLASSES = (P.Parameter, P.Parameters, D.ColumnInfo, D.DataInfo, R.VariabilityLevel,
                         R.VariabilityHierarchy, X.ExecutionStep, X.ExecutionSteps, frozenmapping)
_HASH_MODULES = (P, D, X, R, IM)

# concrete tables; a symbolic index selects the entry (sympy-backed values cannot be symbolic)
UNIT_SOURCES = [1, 'kg', 'mg/L', 'h']
UNITS = [Unit.unitless()] + [Unit(x) for x in UNIT_SOURCES[1:]]


class UnitMemo:
    """Stands for the name `Unit` inside pharmpy.model.datainfo.  `Unit(x)` substitutes ~200 sympy unit symbols,
    which takes tens of seconds per call under CrossHair's tracer; the units used by the harness are computed once
    at import by the real `Unit` code and looked up here (Unit(u) for a Unit u returns u: the real constructor copies
    the expression).  A source that was not precomputed falls through to the real class."""

    def __init__(self):
        self.by_source = {}
        for src, u in zip(UNIT_SOURCES, UNITS):
            self.by_source[src] = u
            self.by_source[u.serialize()] = Unit.deserialize(u.serialize())
            self.by_source[str(u)] = Unit(str(u))

    def __call__(self, source):
        if isinstance(source, Unit):
            return source
        if isinstance(source, (str, int)) and source in self.by_source:
            return self.by_source[source]
        return Unit(source)

    def unitless(self):
        return UNITS[0]

    def deserialize(self, s):
        return self(s)


D.Unit = UnitMemo()


# ---------------------------------------------------------------------------------------------------------
# structural hash

class HV:
    """Value of the structural hash: equal iff the hashed tuples are elementwise equal."""
    __slots__ = ('t',)

    def __init__(self, t):
        self.t = t

    def __eq__(self, other):
        if not isinstance(other, HV):
            return False
        return self.t == other.t

    def __ne__(self, other):
        return not self.__eq__(other)

    __hash__ = None

    def __repr__(self):
        return f'HV({self.t!r})'


def H(x):
    if isinstance(x, tuple):
        return HV(tuple(H(e) for e in x))
    if isinstance(x, PHARMPY_VALUE_CLASSES):
        return x.__hash__()
    return x


def install_structural_hash():
    for m in _HASH_MODULES:
        m.hash = H


def uninstall_structural_hash():
    for m in _HASH_MODULES:
        if 'hash' in m.__dict__:
            del m.hash


def _clear_hash_caches(o, depth=0):
    if depth > 6:
        return
    if isinstance(o, frozenmapping):
        o._hash = None
        for v in o._mapping.values():
            _clear_hash_caches(v, depth + 1)
    elif isinstance(o, PHARMPY_VALUE_CLASSES):
        o.__dict__.pop('_hash', None)
        for v in list(o.__dict__.values()):
            _clear_hash_caches(v, depth + 1)
    elif isinstance(o, tuple):
        for v in o:
            _clear_hash_caches(v, depth + 1)


class real_hash_mode:
    """Context: builtin hash everywhere, cached hashes dropped (before and after)."""

    def __init__(self, *objs):
        self.objs = objs

    def __enter__(self):
        uninstall_structural_hash()
        for o in self.objs:
            _clear_hash_caches(o)

    def __exit__(self, *a):
        for o in self.objs:
            _clear_hash_caches(o)
        install_structural_hash()


def decide_real(fn, *objs):
    """Re-decide a failing law with the builtin `hash` on concrete values.  Under CrossHair the objects are realised
    and the check runs outside the tracer (CrossHair may replace a builtin hash() call by a fresh symbolic int, which
    the C-level tuple hash rejects)."""
    tracing = False
    try:
        from crosshair.core import deep_realize
        from crosshair.tracers import NoTracing, is_tracing
        tracing = is_tracing()
    except ImportError:
        pass
    if tracing:
        objs = deep_realize(objs)
        with NoTracing():
            with real_hash_mode(*objs):
                return fn(*objs)
    with real_hash_mode(*objs):
        return fn(*objs)


def shash(o):
    """The object's own __hash__ method (structural while the stub is installed)."""
    return o.__hash__()


# ---------------------------------------------------------------------------------------------------------
# np.isnan / float

class FakeNp:
    @staticmethod
    def isnan(x):
        return x != x


P.np = FakeNp


class Num:
    """A float whose string formatting is cut off; everything else is the wrapped value's behaviour."""
    __slots__ = ('v',)

    def __init__(self, v):
        self.v = v

    @staticmethod
    def _v(o):
        return o.v if isinstance(o, Num) else o

    def __lt__(self, o):
        return self.v < Num._v(o)

    def __le__(self, o):
        return self.v <= Num._v(o)

    def __gt__(self, o):
        return self.v > Num._v(o)

    def __ge__(self, o):
        return self.v >= Num._v(o)

    def __eq__(self, o):
        return self.v == Num._v(o)

    def __ne__(self, o):
        return self.v != Num._v(o)

    def __neg__(self):
        return Num(-self.v)

    def __float__(self):
        return float(self.v)

    def __hash__(self):
        return hash(self.v)

    def __format__(self, spec):
        return '<number>'

    def __ch_deep_realize__(self, memo):
        # CrossHair deep-realises every object that reaches an f-string; hand it a value-free placeholder instead
        return _NUMFMT

    def __repr__(self):
        return f'Num({self.v!r})'


class _NumFmt:
    def __format__(self, spec):
        return '<number>'


_NUMFMT = _NumFmt()


_real_float = float


def _num(x=0.0):
    if isinstance(x, Num):
        return x
    if isinstance(x, str):
        return Num(_real_float(x))
    if isinstance(x, bool):
        return Num(1.0 if x else 0.0)
    if isinstance(x, int):
        return Num(x * 1.0)
    if isinstance(x, _real_float):
        return Num(x)
    return Num(_real_float(x))


class num_float_mode:
    def __enter__(self):
        P.float = _num

    def __exit__(self, *a):
        if 'float' in P.__dict__:
            del P.float


# ---------------------------------------------------------------------------------------------------------
# fields / snapshots

def fields(o):
    return {k: v for k, v in o.__dict__.items() if k != '_hash'}


def same_fields(a, b):
    """Field-wise equality of two objects of the same class (used for the reachability filter and for classes
    without __eq__)."""
    if type(a) is not type(b):
        return False
    fa, fb = fields(a), fields(b)
    if list(fa.keys()) != list(fb.keys()):
        return False
    for k in fa:
        va, vb = fa[k], fb[k]
        if isinstance(va, tuple) and isinstance(vb, tuple) and va and isinstance(va[0], PHARMPY_VALUE_CLASSES):
            if len(va) != len(vb):
                return False
            for x, y in zip(va, vb):
                if not same_fields(x, y):
                    return False
        elif isinstance(va, frozenmapping) or isinstance(vb, frozenmapping):
            if not (isinstance(va, frozenmapping) and isinstance(vb, frozenmapping)):
                return False
            if list(va.items()) != list(vb.items()):
                return False
        else:
            if type(va) is tuple and type(vb) is not tuple:
                return False
            if (va is None) != (vb is None):
                return False
            if va is not None and not (va == vb):
                return False
    return True


def snapshot(o):
    return list(fields(o).items())


def _same_value(v1, v2):
    if v1 is v2:
        return True
    if (v1 is None) != (v2 is None):
        return False
    if isinstance(v1, tuple) != isinstance(v2, tuple) or isinstance(v1, str) != isinstance(v2, str):
        return False
    return bool(v1 == v2)


def unchanged(o, snap):
    """Same field names in the same order; every field is still the identical object or (identity of small concrete
    strings/ints is not meaningful) an equal value of the same kind."""
    now = list(fields(o).items())
    if len(now) != len(snap):
        return False
    for (k1, v1), (k2, v2) in zip(now, snap):
        if k1 != k2 or not _same_value(v1, v2):
            return False
    return True


def property_names(cls):
    return [n for n in dir(cls) if not n.startswith('_') and isinstance(getattr(cls, n, None), property)]


# ---------------------------------------------------------------------------------------------------------
# builders (plain constructors: a superset of what create() admits)

def mk_param(name, init, lower, upper, fix):
    return P.Parameter(name, init, lower, upper, fix)


def reach_param(p):
    with num_float_mode():      # the ValueError message must not realise the floats
        try:
            q = P.Parameter.create(p._name, p._init, p._lower, p._upper, p._fix)
        except Exception:
            return False
        return same_fields(p, q)


def mk_params(ps):
    return P.Parameters(tuple(ps))


def reach_params(ps):
    try:
        q = P.Parameters.create(ps._params)
    except Exception:
        return False
    return all(reach_param(p) for p in ps._params) and len(q) == len(ps)


KEYS = ['a', 'b', 'c']   # dict keys are hashed by the interpreter, so they are concrete: a symbolic index selects


def mk_cats(kind, c1, c2, key=0):
    """kind 0: None, 1: tuple (c1,), 2: tuple (c1, c2), 3: mapping {KEYS[key]: c1},
    4: mapping {KEYS[key]: c1, KEYS[key+1]: c2}"""
    if kind == 0:
        return None
    if kind == 1:
        return (c1,)
    if kind == 2:
        return (c1, c2)
    if kind == 3:
        return frozenmapping({KEYS[key]: c1})
    return frozenmapping({KEYS[key]: c1, KEYS[(key + 1) % len(KEYS)]: c2})


def mk_col(name, type, unit_i, scale, continuous, cats, drop, datatype, descriptor):
    return D.ColumnInfo(name=name, type=type, unit=UNITS[unit_i], scale=scale, continuous=continuous,
                        categories=cats, drop=drop, datatype=datatype, descriptor=descriptor)


def reach_col(c):
    try:
        q = D.ColumnInfo.create(**{k[1:]: v for k, v in fields(c).items()})
    except Exception:
        return False
    return same_fields(c, q)


def mk_di(cols, has_path, separator, mdt):
    return D.DataInfo(columns=tuple(cols), path=Path('/d/x.csv') if has_path else None, separator=separator,
                      missing_data_token=mdt)


def reach_di(di):
    try:
        q = D.DataInfo.create(di._columns, di._path, di._separator, di._missing_data_token)
    except Exception:
        return False
    return all(reach_col(c) for c in di._columns) and same_fields(di, q)


def mk_vl(name, reference, group):
    return R.VariabilityLevel(name, reference, group)


def reach_vl(v):
    return same_fields(v, R.VariabilityLevel.create(v._name, v._reference, v._group))


def mk_vh(levels):
    return R.VariabilityHierarchy(tuple(levels))


def reach_vh(h):
    try:
        q = R.VariabilityHierarchy.create(h._levels)
    except Exception:
        return False
    return all(reach_vl(v) for v in h._levels) and len(q._levels) == len(h._levels)


def mk_opts(n, k1, v1, k2, v2):
    """k1, k2: indexes into KEYS"""
    if n == 0:
        return frozenmapping({})
    if n == 1:
        return frozenmapping({KEYS[k1]: v1})
    return frozenmapping({KEYS[k1]: v1, KEYS[k2]: v2})


def mk_strs(n, s1, s2):
    return () if n == 0 else ((s1,) if n == 1 else (s1, s2))


def mk_est(method, interaction, pum, evaluation, maxeval, laplace, isample, niter, auto, keep, residuals,
           predictions, solver, rtol, atol, opts, ies):
    return X.EstimationStep(method, interaction=interaction, parameter_uncertainty_method=pum,
                            evaluation=evaluation, maximum_evaluations=maxeval, laplace=laplace, isample=isample,
                            niter=niter, auto=auto, keep_every_nth_iter=keep, residuals=residuals,
                            predictions=predictions, solver=solver, solver_rtol=rtol, solver_atol=atol,
                            tool_options=opts, derivatives=(), individual_eta_samples=ies)


def reach_est(e):
    try:
        q = X.EstimationStep.create(**{k[1:]: v for k, v in fields(e).items()})
    except Exception:
        return False
    return same_fields(e, q)


def mk_sim(n, seed, solver, rtol, atol, opts):
    return X.SimulationStep(n=n, seed=seed, solver=solver, solver_rtol=rtol, solver_atol=atol, tool_options=opts)


def reach_sim(s):
    """SimulationStep.create ignores solver*/tool_options; the plain constructor (used by from_dict) sets them, so
    every field combination with n >= 1 that create or from_dict can produce counts."""
    try:
        return bool(s._n >= 1)
    except Exception:
        return False


def mk_steps(steps):
    return X.ExecutionSteps(tuple(steps))


def reach_steps(s):
    for st in s._steps:
        if isinstance(st, X.EstimationStep):
            if not reach_est(st):
                return False
        elif not reach_sim(st):
            return False
    return True


REACH = {
    P.Parameter: reach_param, P.Parameters: reach_params, D.ColumnInfo: reach_col, D.DataInfo: reach_di,
    R.VariabilityLevel: reach_vl, R.VariabilityHierarchy: reach_vh, X.EstimationStep: reach_est,
    X.SimulationStep: reach_sim, X.ExecutionSteps: reach_steps,
}


def reachable(*objs):
    for o in objs:
        if not REACH[type(o)](o):
            return False
    return True


def small(s, n=3, alphabet=None):
    if len(s) > n:
        return False
    if alphabet is not None:
        return all(c in alphabet for c in s)
    return True
