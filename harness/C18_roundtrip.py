"""C18 (d) — stringify o parse round trip, object side symbolic.

The statement / search-space OBJECT is chosen by symbolic table indexes (solver-enumerated paths); on each path the real
`stringify` renders it and the real lark-based `parse` reads the text back (the parse itself runs on the concrete text
of that path). MFL text as an *input* (arbitrary strings) is out of reach for CrossHair (lark realises) — not claimed.

rt_statement : parse(stringify([s])) == [s]   field by field, for one statement of kind VH_KIND
rt_space     : parse(repr(M), mfl_class=True) expands to the same option sets as M, M = ModelFeatures.create(...)
"""
import os
import warnings

warnings.simplefilter('ignore')

from C18_mfl import (  # noqa: E402  (also disables CrossHair short-circuiting, see there)
    _NoTracing, _names, _nes, _pick, expand, MODES, CLS, DEPOT_T, PMODE_T, IEM_T, IEP_T,
)
from pharmpy.tools.mfl.parse import ModelFeatures, parse  # noqa: E402
from pharmpy.tools.mfl.statement.definition import Let  # noqa: E402
from pharmpy.tools.mfl.statement.feature.allometry import Allometry  # noqa: E402
from pharmpy.tools.mfl.statement.feature.covariate import Covariate, Ref  # noqa: E402
from pharmpy.tools.mfl.statement.feature.indirect_effect import IndirectEffect  # noqa: E402
from pharmpy.tools.mfl.statement.feature.peripherals import Peripherals  # noqa: E402
from pharmpy.tools.mfl.statement.feature.symbols import Name, Option, Wildcard  # noqa: E402
from pharmpy.tools.mfl.statement.feature.transits import Transits  # noqa: E402
from pharmpy.tools.mfl.stringify import stringify  # noqa: E402

import lark  # noqa: E402
import pharmpy.tools.mfl.parse as _P  # noqa: E402

# Stub: `_parse` builds `Lark(grammar, ..., cache=True)` on every call; loading/saving lark's on-disk cache is a file
# side effect that CrossHair blocks. The same real lark LALR parser for pharmpy's real grammar is built once here (same
# options, no disk cache) and handed out by the rebinding below.
_PARSERS = {}


def _lark_once(grammar, **kw):
    kw.pop('cache', None)
    key = (grammar, tuple(sorted(kw.items())))
    if key not in _PARSERS:
        _PARSERS[key] = lark.Lark(grammar, cache=False, **kw)
    return _PARSERS[key]


_P.Lark = _lark_once
parse('ABSORPTION(FO)')      # build the parser now, outside any analysis

KIND = os.environ.get('VH_KIND', 'modes')
REGION = os.environ.get('VH_REGION', 'main')

# count lists as the grammar can write them: single numbers, ranges a..b (rendered back as a range), explicit lists
# (ascending with a gap, descending)
COUNTS = [(0,), (1,), (3,), (0, 1), (1, 2), (0, 1, 2), (1, 2, 3), (0, 2), (0, 1, 3), (2, 0), (1, 0), (10, 11)]
MODE_KINDS = ('absorption', 'elimination', 'lagtime', 'direct_effect', 'effect_comp', 'metabolite')
MODE_ALL = [(c, CLS[c](_names(s))) for c in MODE_KINDS for s in _nes(MODES[c])] + \
           [(c, CLS[c](Wildcard())) for c in MODE_KINDS]
# also non-canonical order of a list
MODE_ALL += [('absorption', CLS['absorption'](_names(('INST', 'FO')))),
             ('elimination', CLS['elimination'](_names(('MIX-FO-MM', 'FO', 'ZO'))))]
PARS = [('CL',), ('CL', 'V'), ('V', 'CL', 'MAT'), Ref('IIV'), Ref('PK'), Wildcard()]
COVS = [('WGT',), ('WGT', 'AGE'), ('CRCL', 'AGE', 'SEX'), Ref('CONTINUOUS'), Ref('CATEGORICAL'), Wildcard()]
FPS = [('EXP',), ('LIN', 'POW'), ('CAT', 'CAT2'), ('PIECE_LIN', 'EXP', 'CUSTOM'), Wildcard()]
LETS = [('CONTINUOUS', ('AGE',)), ('CONTINUOUS', ('AGE', 'WGT')), ('my_list', ('CL', 'V', 'MAT')), ('X', ('A1-B',))]
ALLO = [('WT', 70.0), ('WGT', 70.0), ('WT', 50.0), ('WT', 70.5)]


def _canon(v):
    """Structural form of a statement: class name + fields, Names by name, no reliance on the classes' own __eq__."""
    if isinstance(v, (Name, Ref)):
        return (type(v).__name__, v.name)
    if isinstance(v, Wildcard):
        return ('Wildcard',)
    if isinstance(v, Option):
        return ('Option', v.option)
    if isinstance(v, (tuple, list)):
        return ('tuple',) + tuple(_canon(x) for x in v)
    if hasattr(v, '__dataclass_fields__'):
        return (type(v).__name__,) + tuple((f, _canon(getattr(v, f))) for f in v.__dataclass_fields__)
    return v


def _statement(kind, i, j, k, l, m):
    """Statement number (i, j, k, l, m) of the given kind, or None when the code is out of the kind's range."""
    if kind == 'modes':
        return MODE_ALL[i][1] if i < len(MODE_ALL) and j == k == l == m == 0 else None
    if kind == 'transits':
        return Transits(COUNTS[i], DEPOT_T[j]) if i < len(COUNTS) and j < len(DEPOT_T) and k == l == m == 0 else None
    if kind == 'peripherals':
        return Peripherals(COUNTS[i], PMODE_T[j]) if i < len(COUNTS) and j < len(PMODE_T) and k == l == m == 0 \
            else None
    if kind == 'indirect':
        # the grammar has single production modes or `*` (no list)
        ok = i < len(IEM_T) and j < len(IEP_T) and k == l == m == 0 and \
            (isinstance(IEP_T[j], Wildcard) or len(IEP_T[j]) == 1)
        return IndirectEffect(IEM_T[i], IEP_T[j]) if ok else None
    if kind == 'covariate':
        if not (i < len(PARS) and j < len(COVS) and k < len(FPS) and l < 2 and m < 2):
            return None
        if m == 0 and isinstance(FPS[k], Wildcard):
            return None        # documented refusal: mandatory effects need to be explicit (validate_mfl_list)
        return Covariate(PARS[i], COVS[j], FPS[k], '+' if l else '*', Option(bool(m)))
    if kind == 'let':
        return Let(*LETS[i]) if i < len(LETS) and j == k == l == m == 0 else None
    if kind == 'allometry':
        return Allometry(*ALLO[i]) if i < len(ALLO) and j == k == l == m == 0 else None
    raise RuntimeError(kind)


def _region_statement(st):
    if isinstance(st, Allometry):
        # finding allometry_roundtrip: the default reference is omitted by stringify but required by the interpreter
        # (IndexError), any other reference is a float that _stringify_attribute refuses (TypeError)
        return 'allometry_roundtrip'
    if isinstance(st, Covariate) and not isinstance(st.parameter, Ref) and not isinstance(st.covariate, Ref) and \
            (isinstance(st.parameter, Wildcard) or isinstance(st.covariate, Wildcard)):
        # finding cov_wildcard_parse: validate_mfl_list iterates the `*` of the documented COVARIATE?(*, *, *)
        return 'cov_wildcard_parse'
    return 'main'


DIMS = dict(modes=(len(MODE_ALL), 1, 1, 1, 1), transits=(len(COUNTS), len(DEPOT_T), 1, 1, 1),
            peripherals=(len(COUNTS), len(PMODE_T), 1, 1, 1), indirect=(len(IEM_T), len(IEP_T), 1, 1, 1),
            covariate=(len(PARS), len(COVS), len(FPS), 2, 2), let=(len(LETS), 1, 1, 1, 1),
            allometry=(len(ALLO), 1, 1, 1, 1))[KIND]


def _body_statement(i, j, k, l, m):
    st = _statement(KIND, i, j, k, l, m)
    if st is None or _region_statement(st) != REGION:
        return None
    text = stringify([st])
    back = parse(text)
    if len(back) != 1 or _canon(back[0]) != _canon(st):
        raise AssertionError(f'{text!r} parsed back as {back!r}')
    return True


def rt_statement(i: int, j: int, k: int, l: int, m: int) -> bool:
    """
    pre: 0 <= i < DIMS[0] and 0 <= j < DIMS[1] and 0 <= k < DIMS[2] and 0 <= l < DIMS[3] and 0 <= m < DIMS[4]
    post: _ in (True, None)
    """
    codes = [_pick(v, 0, n) for v, n in zip((i, j, k, l, m), DIMS)]
    with _NoTracing():
        return _body_statement(*codes)


def rt_statement__twin(i: int, j: int, k: int, l: int, m: int) -> bool:
    """
    pre: 0 <= i < DIMS[0] and 0 <= j < DIMS[1] and 0 <= k < DIMS[2] and 0 <= l < DIMS[3] and 0 <= m < DIMS[4]
    post: _ == True
    """
    codes = [_pick(v, 0, n) for v, n in zip((i, j, k, l, m), DIMS)]
    with _NoTracing():
        return _body_statement(*codes) is not True


# ---- whole search space: repr -> parse(mfl_class=True) -----------------------------------------------------------------
# (the first entries of every table are the ones the quick tier keeps)
ABS_T = [None, CLS['absorption'](_names(('FO', 'ZO'))), CLS['absorption'](Wildcard()),
         CLS['absorption'](_names(('FO',))), CLS['absorption'](_names(('ZO', 'SEQ-ZO-FO', 'INST')))]
ELI_T = [None, CLS['elimination'](_names(('FO', 'MIX-FO-MM'))), CLS['elimination'](Wildcard()),
         CLS['elimination'](_names(('MM',)))]
LAG_T = [None, CLS['lagtime'](Wildcard()), CLS['lagtime'](_names(('ON',))), CLS['lagtime'](_names(('ON', 'OFF')))]
TRA_T = [(), (Transits((0,), (Name('DEPOT'),)), Transits((2, 3), (Name('NODEPOT'),))), (Transits((1, 2), Wildcard()),),
         (Transits((1,)),), (Transits((0, 1, 3), (Name('NODEPOT'),)),)]
PER_T = [(), (Peripherals((1, 2)), Peripherals((0, 1), (Name('MET'),))), (Peripherals((2,), Wildcard()),),
         (Peripherals((1,)),), (Peripherals((0, 1, 2)),)]
COV_T = [(), (Covariate(('CL',), ('WGT', 'AGE'), Wildcard(), '*', Option(True)), Covariate(('V',), ('SEX',), ('CAT',), '+')),
         (Covariate(Ref('IIV'), Ref('CONTINUOUS'), ('LIN', 'POW'), '*', Option(True)),),
         (Covariate(('CL', 'V'), ('WGT',), ('EXP',)),)]
PD_T = [dict(), dict(effect_comp=CLS['effect_comp'](Wildcard()),
                     indirect_effect=(IndirectEffect(_names(('EMAX',)), Wildcard()),)),
        dict(direct_effect=CLS['direct_effect'](_names(('LINEAR', 'EMAX')))),
        dict(metabolite=CLS['metabolite'](_names(('PSC', 'BASIC'))))]
SPACE_DIMS = [len(ABS_T), len(ELI_T), len(LAG_T), len(TRA_T), len(PER_T), len(COV_T), len(PD_T)]
if os.environ.get('VH_SIZE', 'quick') != 'thorough':
    SPACE_DIMS = [3, 2, 2, 3, 3, 3, 2]
A_LO = int(os.environ.get('VH_ALO', '0'))
A_HI = int(os.environ.get('VH_AHI', str(SPACE_DIMS[0])))


def _canon_cov(cs):
    return sorted(repr(_canon(c)) for c in cs)


def _body_space(a, e, g, t, p, c, d):
    kw = dict(absorption=ABS_T[a], elimination=ELI_T[e], lagtime=LAG_T[g], transits=TRA_T[t], peripherals=PER_T[p],
              covariate=COV_T[c])
    kw.update(PD_T[d])
    mf = ModelFeatures.create(**kw)
    text = repr(mf)
    if text == '':
        return None           # the empty space has no printed form to parse
    back = parse(text, mfl_class=True)
    # references (@NAME) cannot be expanded without a model: compare those statements structurally
    if any(isinstance(x.parameter, Ref) or isinstance(x.covariate, Ref) for x in mf.covariate):
        if _canon_cov(back.covariate) != _canon_cov(mf.covariate):
            raise AssertionError(f'{text!r}: covariate statements differ')
        mf, back = mf.replace(covariate=()), back.replace(covariate=())
    if expand(back) != expand(mf):
        raise AssertionError(f'{text!r} parsed back as {back!r}')
    return True


def rt_space(a: int, e: int, g: int, t: int, p: int, c: int, d: int) -> bool:
    """
    pre: A_LO <= a < A_HI and 0 <= e < SPACE_DIMS[1] and 0 <= g < SPACE_DIMS[2] and 0 <= t < SPACE_DIMS[3]
    pre: 0 <= p < SPACE_DIMS[4] and 0 <= c < SPACE_DIMS[5] and 0 <= d < SPACE_DIMS[6]
    post: _ in (True, None)
    """
    codes = [_pick(a, A_LO, A_HI)] + [_pick(v, 0, n) for v, n in zip((e, g, t, p, c, d), SPACE_DIMS[1:])]
    with _NoTracing():
        return _body_space(*codes)


def rt_space__twin(a: int, e: int, g: int, t: int, p: int, c: int, d: int) -> bool:
    """
    pre: A_LO <= a < A_HI and 0 <= e < SPACE_DIMS[1] and 0 <= g < SPACE_DIMS[2] and 0 <= t < SPACE_DIMS[3]
    pre: 0 <= p < SPACE_DIMS[4] and 0 <= c < SPACE_DIMS[5] and 0 <= d < SPACE_DIMS[6]
    post: _ == True
    """
    codes = [_pick(a, A_LO, A_HI)] + [_pick(v, 0, n) for v, n in zip((e, g, t, p, c, d), SPACE_DIMS[1:])]
    with _NoTracing():
        return _body_space(*codes) is not True
