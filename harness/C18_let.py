"""C18 — LET definitions: a search space written with references (`LET(P,[CL,VC]); COVARIATE?(@P,@C,EXP)`) is the
space written with the lists in place.  Which of the two positions of the COVARIATE statement use a reference, the
option flag, the effect and the order of the LET statements are chosen by symbolic table indexes (one solver path per
entry); the real parser and ModelFeatures code then run concretely."""
import warnings

warnings.simplefilter('ignore')

from C18_mfl import _NoTracing, _pick  # noqa: E402
import C18_roundtrip  # noqa: E402,F401  (installs the disk-cache-free lark parser)
from pharmpy.tools.mfl.parse import parse  # noqa: E402
from pharmpy.tools.mfl.statement.feature.covariate import Ref  # noqa: E402

PARS = ['[CL,VC]', 'CL', '[VC]']
COVS = ['[WGT,APGR]', 'WGT', '[APGR]']
FPS = ['EXP', '[LIN,EXP]', 'POW']
NP, NC, NF = len(PARS), len(COVS), len(FPS)


def _body(pref, cref, ip, ic, opt, ifp, order, second):
    p, c = PARS[ip], COVS[ic]
    lets = [f'LET(PKP,{p})', f'LET(CVS,{c})']
    if order:
        lets.reverse()
    q = '?' if opt else ''
    stmt = f'COVARIATE{q}({"@PKP" if pref else p},{"@CVS" if cref else c},{FPS[ifp]})'
    plain = f'COVARIATE{q}({p},{c},{FPS[ifp]})'
    extra = ';COVARIATE?(@PKP,AGE,EXP)' if second else ''
    extra_plain = f';COVARIATE?({p},AGE,EXP)' if second else ''
    a = parse(';'.join(lets) + ';' + stmt + extra, mfl_class=True)
    b = parse(plain + extra_plain, mfl_class=True)
    for cov in a.covariate:
        if isinstance(cov.parameter, Ref) and cov.parameter.name in ('PKP', 'CVS') \
                or isinstance(cov.covariate, Ref) and cov.covariate.name in ('PKP', 'CVS'):
            raise AssertionError(f'{stmt!r}: a defined LET reference is left in the search space: {a!r}')
    if repr(a) != repr(b):
        raise AssertionError(f'{stmt!r} with {lets} reads as {a!r}, the same statement with the lists in place as {b!r}')
    if not (a == b and b == a):
        raise AssertionError(f'{stmt!r}: spaces with and without LET are not equal')
    return True


def let_refs(pref: bool, cref: bool, ip: int, ic: int, opt: bool, ifp: int, order: bool, second: bool) -> bool:
    """
    pre: 0 <= ip < NP and 0 <= ic < NC and 0 <= ifp < NF
    post: _ == True
    """
    codes = [bool(_pick(1 if pref else 0, 0, 2)), bool(_pick(1 if cref else 0, 0, 2)), _pick(ip, 0, NP), _pick(ic, 0, NC),
             bool(_pick(1 if opt else 0, 0, 2)), _pick(ifp, 0, NF), bool(_pick(1 if order else 0, 0, 2)),
             bool(_pick(1 if second else 0, 0, 2))]
    with _NoTracing():
        return _body(*codes)


def let_refs__twin(pref: bool, cref: bool, ip: int, ic: int, opt: bool, ifp: int, order: bool, second: bool) -> bool:
    """
    pre: 0 <= ip < NP and 0 <= ic < NC and 0 <= ifp < NF
    post: _ == True
    """
    return not let_refs(pref, cref, ip, ic, opt, ifp, order, second)
