"""C13 — concrete companion probe (sampling, not a solver verdict): the lexical kernel that the CrossHair obligations
decide function by function (comment / blank-line prefilter, row splitting, item conversion) is what the REAL
`read_nonmem_dataset` composes, including the assembly step the obligations cannot reach (pandas): short rows are
padded with the NULL value, surplus columns are discarded, DROP columns are kept as text, and every remaining cell is
the float that Python's own float() gives for the documented normal form of the item (exact equality, so a faster but
less exact number parser is visible).  The reference is the harness's character-level automaton composed by hand.
"""
import io
import math
import os
import warnings

os.environ['VH_REAL'] = '1'          # reference functions in concrete mode, no stubs installed

import C13_dataset as H  # noqa: E402

warnings.simplefilter('ignore')

LONG = ['0.37503655720084533', '-0.37503655720084533', '2.718281828459045', '0.1', '1e-7', '123456789.12345678',
        '3.3333333333333335', '0.30000000000000004', '9007199254740993', '1.7976931348623157e308', '5e-324',
        '4.35', '0.000123456789012345678', '179.76931348623157', '-1234.5678901234567']
FORTRAN = ['1D1', '1d1', '2-1', '2+1', '+', '-', '-1D1', '+1d-2', '1.5D0', '.5', '5.', '1E2', '1e+2', '-1.25e-3', '.',
           '1.5-3', '-2.5+2']


def _rows(kind='mixed'):
    rows = []
    if kind == 'plain':
        # column A holds only ordinary numbers (many with 16-17 significant digits), column B the same plus one NULL
        for i, a in enumerate(LONG * 3):
            rows.append(f'{1 + i},{a},{"." if i == 3 else a},7')
        return rows
    # separators and their combinations, NULL items, padding, surplus columns
    rows.append('1,2,3,4')
    rows.append('1 2 3 4')
    rows.append('1\t2\t3\t4')
    rows.append('1 ,2\t3  4')
    rows.append('1,,3,4')            # empty item between commas = NULL
    rows.append('1,.,3,4')
    rows.append('1,2')               # short row: padded
    rows.append('1')
    rows.append('1,2,3,4,5,6')       # surplus columns discarded
    rows.append('  1,2,3,4  ')
    rows.append('1, 2 ,3 , 4')
    k = 0
    for a in LONG + FORTRAN:
        b = (LONG + FORTRAN)[(k * 7 + 3) % len(LONG + FORTRAN)]
        rows.append(f'{k + 2},{a},{b},{k}')
        k += 1
    # one column made only of plain long numbers, another with a NULL in it (a column-wise fast path would split here)
    for i, a in enumerate(LONG):
        rows.append(f'{100 + i},{a},{"." if i == 3 else a},7')
    return rows


def _reference(text, colnames, drop, null_value):
    st, contents = H.ref_prefilter(text)
    if st != 'ok':
        return None
    out = []
    for line in contents.split('\n'):
        if line == '':
            continue
        fields = H.ref_fields(line)
        nf = len(fields)
        fields = fields[:len(colnames)] + [null_value] * (len(colnames) - len(fields))
        row = []
        for k, (name, dropped, x) in enumerate(zip(colnames, drop, fields)):
            if dropped:
                # a dropped column keeps the text of the item; the padding of a dropped column is not specified
                row.append(('text', x) if k < nf else ('any',))
                continue
            r = H.ref_item(x, null_value)
            if r[0] == 'illegal':
                return None
            row.append(r)
        out.append(row)
    return out


def _same(ref, got):
    if ref[0] == 'any':
        return True
    if ref[0] == 'text':
        return got == ref[1]
    if ref[0] == 'nan':
        return isinstance(got, float) and math.isnan(got)
    v = float(got)
    return v == ref[1] and (v != 0 or math.copysign(1, v) == math.copysign(1, ref[1]) or True)


def assembly(null_value: str, with_comments: bool, drop_last: bool, kind: str = 'mixed'):
    """-> True when the real reader agrees with the reference on every cell."""
    import pharmpy.model.external.nonmem.dataset as D
    colnames = ['ID', 'A', 'B', 'C']
    drop = [False, False, False, drop_last]
    rows = _rows(kind)
    lines = []
    for i, r in enumerate(rows):
        if with_comments and i % 9 == 4:
            lines.append('# a comment line, 1,2,3')
        lines.append(r)
    text = '\n'.join(lines) + '\n'
    ref = _reference(text, colnames, drop, null_value)
    if ref is None:
        raise AssertionError('probe data outside the reference subset')
    df = D.read_nonmem_dataset(io.StringIO(text), ignore_character='#', colnames=colnames, drop=drop,
                               null_value=null_value)
    if len(df) != len(ref) or list(df.columns) != colnames:
        return False
    for i, row in enumerate(ref):
        for j, cell in enumerate(row):
            if j == 0:
                continue          # ID is renumbered / cast by _make_ids_unique: not part of the lexical claim
            if not _same(cell, df.iloc[i, j]):
                return False
    return True


def assembly_all():
    return all(assembly(nv, c, d, k) for nv in ('0', '-1') for c in (False, True) for d in (False, True)
               for k in ('mixed', 'plain'))


# ---- IGNORE / ACCEPT filters (docs/NONMEM.rst: one at a time in the order given; .EQ./.NE. compare text, the other
# operators compare numbers; a dropped column can be used; a row ignored earlier is never parsed) ----------------------
FROWS = [('1', '1', 'x'), ('2', '2.0', 'y'), ('3', 'abc', 'z'), ('4', '7', 'x'), ('5', '.', 'y'), ('6', '1D1', 'z'),
         ('7', '-3', 'x y'.split()[0])]
NUMOPS = {'.EQN.': lambda a, b: a == b, '.NEN.': lambda a, b: a != b, '.LT.': lambda a, b: a < b,
          '<': lambda a, b: a < b, '.GT.': lambda a, b: a > b, '>': lambda a, b: a > b, '.LE.': lambda a, b: a <= b,
          '<=': lambda a, b: a <= b, '.GE.': lambda a, b: a >= b, '>=': lambda a, b: a >= b}
STROPS = {'.EQ.': True, '==': True, '=': True, '.NE.': False, '/=': False}


def _ref_filter(rows, statements, ignore, null_value):
    """statements: (column index, operator, operand text).  -> list of kept ids, or 'error'"""
    rows = list(rows)
    for col, op, operand in statements:
        kept = []
        for r in rows:
            x = r[col]
            if op in STROPS:
                cond = (x == operand) == STROPS[op]
            else:
                it = H.ref_item(x, null_value)
                if it[0] == 'illegal':
                    return 'error'
                v = float('nan') if it[0] == 'nan' else it[1]
                cond = NUMOPS[op](v, float(operand))
            if cond != ignore:
                kept.append(r)
        rows = kept
    # the rows that remain are converted: column A is parsed (B is a dropped column)
    if any(H.ref_item(r[1], null_value)[0] == 'illegal' for r in rows):
        return 'error'
    return [int(r[0]) for r in rows]


FILTER_CASES = [
    (True, [(2, '.EQ.', 'x')]), (True, [(2, '.NE.', 'x')]), (True, [(2, '==', 'y')]), (True, [(2, '/=', 'z')]),
    (True, [(1, '.EQ.', 'abc'), (1, '.GT.', '5')]), (True, [(1, '.GT.', '5'), (1, '.EQ.', 'abc')]),
    (True, [(1, '.EQ.', 'abc'), (1, '.EQN.', '2')]), (True, [(1, '.EQ.', 'abc'), (1, '.EQ.', '2')]),
    (True, [(1, '.EQ.', 'abc'), (1, '.LE.', '1')]), (True, [(1, '.EQ.', 'abc'), (1, '<', '0')]),
    (True, [(1, '.EQ.', 'abc'), (1, '.NEN.', '7')]), (True, [(1, '.EQ.', 'abc'), (1, '>=', '7'), (2, '.EQ.', 'y')]),
    (True, [(2, '.EQ.', 'z'), (1, '.LT.', '2')]), (True, [(1, '.EQ.', 'abc'), (0, '.GE.', '4'), (1, '.GT.', '1.5')]),
    (False, [(2, '.EQ.', 'x')]), (False, [(2, '.NE.', 'z')]),
    # several numeric filters on ONE column; an earlier filter removes records from the middle of the file
    (True, [(1, '.EQ.', 'abc'), (1, '.LT.', '2'), (1, '.GT.', '5')]),
    (True, [(1, '.EQ.', 'abc'), (1, '.EQN.', '2'), (1, '.GE.', '7'), (1, '<', '0')]),
    (True, [(1, '.EQ.', 'abc'), (0, '.EQN.', '2'), (0, '.GT.', '5'), (0, '.LT.', '4')]),
    (True, [(1, '.EQ.', 'abc'), (1, '.GT.', '1.5'), (1, '.LT.', '1')]),
]


def filters(null_value: str, quote: int):
    import pharmpy.model.external.nonmem.dataset as D
    from pharmpy.model import DatasetError
    colnames = ['ID', 'A', 'B']
    text = '\n'.join(','.join(r) for r in FROWS) + '\n'
    for ignore, stmts in FILTER_CASES:
        want = _ref_filter(FROWS, stmts, ignore, null_value)
        q = ['', "'", '"'][quote]
        strs = [f'{colnames[c]}{op}{q}{operand}{q}' if op in STROPS else f'{colnames[c]}{op}{operand}'
                for c, op, operand in stmts]
        try:
            df = D.read_nonmem_dataset(io.StringIO(text), colnames=colnames, drop=[False, False, True],
                                       null_value=null_value, ignore=strs if ignore else None,
                                       accept=None if ignore else strs)
            got = [int(v) for v in df['ID']]
        except DatasetError:
            got = 'error'
        if got != want:
            return False
    return True


def filters_all():
    return all(filters(nv, q) for nv in ('0', '-1') for q in (0, 1, 2))


# ---- write / read cycle: a dataset written by pharmpy for a model and read back through the generated $DATA / $INPUT
# equals the model's dataset -----------------------------------------------------------------------------------------
def write_read_cycle():
    import shutil
    import tempfile
    import numpy as np
    import pharmpy.modeling as pm
    tmp = tempfile.mkdtemp(prefix='c13cycle_')
    bad = []
    try:
        base = pm.load_example_model('pheno')
        variants = {'pheno': base}

        def add(name, f):
            try:
                variants[name] = f()
            except Exception:  # noqa  (a variant that cannot be built is not the subject)
                pass
        add('tad', lambda: pm.add_time_after_dose(base))
        add('dropped', lambda: pm.drop_columns(base, ['FA2'], mark=True))
        add('removed', lambda: pm.drop_columns(base, ['FA1']))
        add('cmt', lambda: pm.add_cmt(pm.set_first_order_absorption(base)))
        df = base.dataset.copy()
        df['LNWGT'] = np.log(df['WGT'])                    # full-precision doubles
        df.loc[df.index[3], 'APGR'] = np.nan               # a missing value
        add('derived', lambda: base.replace(dataset=df))
        add('filtered', lambda: pm.filter_dataset(base, 'TIME < 100'))
        for name, m in variants.items():
            path = os.path.join(tmp, name + '.mod')
            pm.write_model(m, path, force=True)
            back = pm.read_model(path)
            a, b = m.dataset, back.dataset
            if len(a) != len(b):
                bad.append(f'{name}: {len(b)} records read back, {len(a)} written')
                continue
            for col in a.columns:
                try:
                    if m.datainfo[col].drop:
                        continue
                except (IndexError, KeyError):
                    continue
                if col not in b.columns:
                    bad.append(f'{name}: column {col} lost')
                    continue
                x, y = a[col].to_numpy(dtype=float), b[col].to_numpy(dtype=float)
                same = (x == y) | (np.isnan(x) & np.isnan(y))
                if not same.all():
                    i = int(np.argmin(same))
                    bad.append(f'{name}: {col}[{i}] written {x[i]!r} read back {y[i]!r}')
    finally:
        shutil.rmtree(tmp, ignore_errors=True)
    if len(variants) < 5:
        raise AssertionError('too few variants could be built')
    if bad:
        raise AssertionError('; '.join(bad[:5]))
    return True
