"""C03 — model level: `code(update(M)) == T` for an unmodified model read from T, and after a single-component edit
every record of T whose kind is unrelated to the edit appears unchanged and in order.

The control stream T is assembled from one variant per record slot (tables below: $SIZES before $PROBLEM, comments,
continuation lines, verbatim code, several spellings of $THETA/$OMEGA/$SIGMA/$ESTIMATION), chosen by symbolic table
indexes.  The real `Model.parse_model_from_string`, `update_source`, `set_initial_estimates` ... run on the concrete
text per path (table indexes are fixed by bisection); the solver enumerates the table, the real code decides each
entry.  Case splits: VH_EDIT pins the edit, VH_S0 the $SIZES variant, VH_GROUP selects which slots vary (the others
stay at variant 0).
"""
import os
import warnings

warnings.simplefilter('ignore')

try:
    from crosshair.tracers import NoTracing as _NoTracing
except ImportError:
    import contextlib
    _NoTracing = contextlib.nullcontext

from pharmpy.model import Model  # noqa: E402
import pharmpy.modeling as pm  # noqa: E402
import pharmpy  # noqa: E402

DATA = os.path.join(os.path.dirname(os.path.dirname(os.path.dirname(pharmpy.__file__))), 'tests', 'testdata', 'nonmem',
                    'pheno.dta')
if not os.path.exists(DATA):
    DATA = '/repo/tests/testdata/nonmem/pheno.dta'

SLOTS = [
    # 0: before $PROBLEM
    ['', '$SIZES LTH=150 PC=40 ; big model\n', '$SIZES PD=-80\n', '$SIZES LTH=150\n'],
    # 1
    ['$PROBLEM pheno\n', '$PROB  pheno run ; c\n;; note line\n'],
    # 2
    ['$INPUT ID TIME AMT WGT APGR DV FA1 FA2\n', '$INPUT ID TIME AMT WGT APGR=DROP DV FA1 FA2 ; cols\n'],
    # 3
    [f'$DATA {DATA} IGNORE=@\n'],
    # 4
    ['$SUBROUTINE ADVAN1 TRANS2\n$PK\nCL = THETA(1)*EXP(ETA(1))\nV = THETA(2)*EXP(ETA(2))\nS1 = V\n',
     '$SUBS ADVAN1 TRANS2\n\n$PK\n; clearance\nCL = THETA(1) * EXP(ETA(1)) ; cl\n\nV=THETA(2)* &\n  EXP(ETA(2))\n  S1 = V\n',
     # a block IF without assignment (only an EXIT) between the statements
     '$SUBROUTINE ADVAN1 TRANS2\n$PK\nCL = THETA(1)*EXP(ETA(1))\nIF (CL.LE.0) THEN\n  EXIT 1 100\nEND IF\n'
     'V = THETA(2)*EXP(ETA(2))\nS1 = V\n'],
    # 5
    ['$ERROR\nY = F + F*EPS(1)\n', '$ERROR\n"FIRST\n" COMMON /X/ Z\nW = F\nY = F + W*EPS(1) ; prop\n'],
    # 6
    ['$THETA (0,0.5)\n$THETA (0,1.5)\n', '$THETA (0,0.5) ; TVCL\n (0,1.5) ; TVV\n', '$THETA  (0.00,0.5,10.0)  1.5 FIX\n'],
    # 7
    ['$OMEGA 0.1\n$OMEGA 0.2\n', '$OMEGA BLOCK(2)\n0.1\n0.01 0.2 ; cov\n', '$OMEGA DIAGONAL(2) 0.1 0.2\n'],
    # 8
    ['$SIGMA 0.3\n', '$SIGMA  0.3 ; RUV\n'],
    # 9
    ['$ESTIMATION METHOD=1 INTERACTION\n',
     '$EST METH=COND INTER MAXEVAL=99 ; est\n$COV\n$TABLE ID TIME DV NOAPPEND FILE=sdtab1\n',
     # a record between two tables
     '$ESTIMATION METHOD=1 INTERACTION\n$TABLE ID TIME DV NOAPPEND FILE=sdtab1\n$COVARIANCE PRINT=E\n'
     '$TABLE ID CL NOAPPEND FILE=patab1 ; second\n',
     # a second $PROBLEM with its own table
     '$ESTIMATION METHOD=1 INTERACTION\n$TABLE ID TIME DV NOAPPEND FILE=sdtab1\n'
     f'$PROBLEM second\n$INPUT ID TIME AMT WGT APGR DV FA1 FA2\n$DATA {DATA} IGNORE=@ REWIND\n$THETA 1\n'
     '$OMEGA 1\n$SIGMA 1\n$ESTIMATION METHOD=0 MAXEVAL=0\n$TABLE ID NOAPPEND FILE=mytab1 ; keep me\n',
     # a table written over two lines, the first one ending in a comment
     '$ESTIMATION METHOD=1 INTERACTION\n$TABLE ID TIME DV ; the standard table\nNOPRINT ONEHEADER NOAPPEND FILE=sdtab1\n'],
]
NS = [len(s) for s in SLOTS]
EDIT = int(os.environ.get('VH_EDIT', '0'))
S0 = int(os.environ.get('VH_S0', '-1'))
GROUP = os.environ.get('VH_GROUP', 'all')          # 'head': slots 0,1,2,9 vary; 'params': slots 4..8 vary; 'all'
VARY = {'head': (0, 1, 2, 9), 'params': (4, 5, 6, 7, 8), 'all': tuple(range(10))}[GROUP]
# slot whose record(s) express the edited component (not compared)
#  0: none (regeneration of the unmodified model)   1: initial estimate of the first theta   2: description
#  3: initial estimate of the sigma                  4: a statement of $PK
#  5: the model name (run2: the table files of this problem are renamed, nothing else)
#  6: the estimation method ($ESTIMATION; the $TABLE records carry the predictions / residuals of the step and may be
#     re-written with it, but their comments must survive exactly)
CHANGED = {0: None, 1: 6, 2: 1, 3: 8, 4: 4, 5: 9, 6: 9}

Model.parse_model_from_string(''.join(s[0] for s in SLOTS))       # warm up parsers / dataset reader


def _pick(x, lo, hi):
    while hi - lo > 1:
        mid = (lo + hi) // 2
        if x < mid:
            hi = mid
        else:
            lo = mid
    return lo


def _body(idx, edit):
    chunks = [SLOTS[i][j] for i, j in enumerate(idx)]
    text = ''.join(chunks)
    m = Model.parse_model_from_string(text)
    if edit == 0:
        out = m.update_source().code
        if out != text:
            raise AssertionError(f'regenerating the unmodified model changed the code: {out!r} != {text!r}')
        if m.code != text:
            raise AssertionError('model.code of the unmodified model differs from the text read')
        return True
    if edit == 1:
        m2 = pm.set_initial_estimates(m, {m.parameters.names[0]: 0.75})
    elif edit == 2:
        m2 = m.replace(description='other')
    elif edit == 3:
        m2 = pm.set_initial_estimates(m, {m.parameters.names[-1]: 0.25})
    elif edit == 5:
        m2 = m.replace(name='run2')
    elif edit == 6:
        m2 = pm.set_estimation_step(m, 'FO', idx=0)
    else:
        s1 = m.statements.find_assignment('S1')
        m2 = m.replace(statements=m.statements.reassign(s1.symbol, s1.expression * 1000))
    out = m2.update_source().code
    if out == text:
        if edit == 5 and 'FILE=' not in text:
            return True                     # no table to rename
        raise AssertionError('the edit did not change the code')
    changed = CHANGED[edit]
    pos = 0
    remainder = ''
    for i, c in enumerate(chunks):
        if i == changed or not c:
            continue
        k = out.find(c, pos)
        if k < 0:
            raise AssertionError(f'edit {edit}: record slot {i} {c!r} not preserved (in order) in {out!r}')
        remainder += out[pos:k]
        pos = k + len(c)
    remainder += out[pos:]
    # what is left is the re-written record(s) of the changed slot: the same record names as before, nothing else
    names = lambda t: [ln.split()[0][:4].upper() for ln in t.splitlines() if ln.startswith('$')]  # noqa: E731
    if edit == 4:
        # only the edited statement changes: every other line of the record is kept verbatim and in order
        at = 0
        for ln in chunks[changed].splitlines():
            if ln.replace(' ', '').upper().startswith('S1='):
                continue
            k = remainder.find(ln + '\n', at)
            if k < 0:
                raise AssertionError(f'edit {edit}: line {ln!r} of the edited record not preserved (in order) in {remainder!r}')
            at = k + len(ln) + 1
        if sum(1 for ln in remainder.splitlines() if ln.replace(' ', '').upper().startswith('S1=')) != 1:
            raise AssertionError(f'edit {edit}: the edited statement does not appear exactly once in {remainder!r}')
    if edit != 6 and names(remainder) != names(chunks[changed]):
        raise AssertionError(f'edit {edit}: records {names(remainder)} written for the edited slot {names(chunks[changed])}: {out!r}')
    # every comment of the re-written record(s) is preserved exactly (it still ends its line).  Not demanded: the
    # title line of $PROBLEM (NM-TRAN: a comment there is part of the title, i.e. of the edited description) and, for
    # the estimation edit, the $ESTIMATION / $COVARIANCE records themselves (they express the edited step and are
    # regenerated); the $TABLE records are only re-written, so their comments must survive.
    rec = ''
    for ln in chunks[changed].splitlines():
        if ln.startswith('$'):
            rec = ln.split()[0][:4].upper()
        if rec == '$PRO' and ln.startswith('$'):
            continue
        if edit == 6 and rec != '$TAB':
            continue
        if ';' in ln and not ln.lstrip().startswith('"'):
            com = ln[ln.index(';'):]
            if (com + '\n') not in remainder + '\n':
                raise AssertionError(f'edit {edit}: comment {com!r} of the edited record not preserved exactly in {remainder!r}')
    return True


def _codes(i0, i1, i2, i4, i5, i6, i7, i8, i9):
    raw = [i0, i1, i2, 0, i4, i5, i6, i7, i8, i9]
    return [(_pick(x, 0, NS[s]) if s in VARY else 0) for s, x in enumerate(raw)]


def model_regen(i0: int, i1: int, i2: int, i4: int, i5: int, i6: int, i7: int, i8: int, i9: int) -> bool:
    """
    pre: 0 <= i0 < NS[0] and 0 <= i1 < NS[1] and 0 <= i2 < NS[2] and 0 <= i4 < NS[4] and 0 <= i5 < NS[5]
    pre: 0 <= i6 < NS[6] and 0 <= i7 < NS[7] and 0 <= i8 < NS[8] and 0 <= i9 < NS[9]
    pre: S0 < 0 or i0 == S0
    pre: all((s in VARY) or x == 0 for s, x in ((0, i0), (1, i1), (2, i2), (4, i4), (5, i5), (6, i6), (7, i7), (8, i8), (9, i9)))
    post: _ == True
    """
    idx = _codes(i0, i1, i2, i4, i5, i6, i7, i8, i9)
    with _NoTracing():
        return _body(idx, EDIT)


def model_regen__twin(i0: int, i1: int, i2: int, i4: int, i5: int, i6: int, i7: int, i8: int, i9: int) -> bool:
    """
    pre: 0 <= i0 < NS[0] and 0 <= i1 < NS[1] and 0 <= i2 < NS[2] and 0 <= i4 < NS[4] and 0 <= i5 < NS[5]
    pre: 0 <= i6 < NS[6] and 0 <= i7 < NS[7] and 0 <= i8 < NS[8] and 0 <= i9 < NS[9]
    pre: S0 < 0 or i0 == S0
    pre: all((s in VARY) or x == 0 for s, x in ((0, i0), (1, i1), (2, i2), (4, i4), (5, i5), (6, i6), (7, i7), (8, i8), (9, i9)))
    post: _ == True
    """
    idx = _codes(i0, i1, i2, i4, i5, i6, i7, i8, i9)
    with _NoTracing():
        return _body(idx, EDIT) is not True


def append_statement_at_end(k: int) -> bool:
    """
    A statement is appended to the LAST record of a control stream whose last line has no line break (k = 0: the
    stream ends with $ERROR, k = 1: with $PK): the generated code keeps every line of the text and holds the new
    statement on a line of its own; reading it again gives the statements of the in-memory model.
    pre: 0 <= k <= 1
    post: _ == True
    """
    k = _pick(k, 0, 2)
    with _NoTracing():
        from pharmpy.model import Assignment
        from pharmpy.basic import Expr
        base = [s_[0] for s_ in SLOTS]
        pk = '$SUBROUTINE ADVAN1 TRANS2\n$PK\nCL = THETA(1)*EXP(ETA(1))\nV = THETA(2)*EXP(ETA(2))\nS1 = V'
        err = '$ERROR\nY = F + F*EPS(1)'
        head = ''.join(base[:4]) + base[6] + base[7] + base[8] + base[9]
        text = head + (pk + '\n' + err if k == 0 else err + '\n' + pk)
        m = Model.parse_model_from_string(text)
        if m.update_source().code != text:
            raise AssertionError('regenerating the unmodified model changed the code')
        new = Assignment.create(Expr.symbol('ZNEW'), Expr.symbol('V') * 2)
        st = m.statements
        if k == 0:
            m2 = m.replace(statements=st + new)
        else:
            i = st.find_assignment_index('S1')
            m2 = m.replace(statements=st[:i + 1] + new + st[i + 1:])
        out = m2.update_source().code
        lines = out.splitlines()
        for ln in text.splitlines():
            if ln not in lines:
                raise AssertionError(f'line {ln!r} of the text is not a line of the generated code {out!r}')
        if sum(1 for ln in lines if ln.replace(' ', '').upper().startswith('ZNEW=')) != 1:
            raise AssertionError(f'the appended statement is not on a line of its own: {out!r}')
        back = Model.parse_model_from_string(out)
        if [str(x) for x in back.statements] != [str(x) for x in m2.update_source().statements]:
            raise AssertionError(f're-read statements differ: {out!r}')
        return True


def append_statement_at_end__twin(k: int) -> bool:
    """
    pre: 0 <= k <= 1
    post: _ == True
    """
    return not append_statement_at_end(k)


def abbrev_regen(k: int) -> bool:
    """
    Regenerating the code of an unmodified model that contains an `$ABBREVIATED REPLACE` record changes nothing
    (k = 0: `$ABBREV REPLACE ...` followed by a blank line, k = 1: `$ABBR REPLACE ...`).
    pre: 0 <= k <= 1
    post: _ == True
    """
    k = _pick(k, 0, 2)
    with _NoTracing():
        base = [s_[0] for s_ in SLOTS]
        rec = ['$ABBREV REPLACE ETA_CL=ETA(1)\n\n', '$ABBR REPLACE ETA_CL=ETA(1)\n'][k]
        pk = base[4].replace('EXP(ETA(1))', 'EXP(ETA_CL)')
        text = ''.join(base[:4]) + rec + pk + ''.join(base[5:])
        m = Model.parse_model_from_string(text)
        out = m.update_source().code
        if out != text:
            raise AssertionError(f'regenerating the unmodified model changed the code: {out!r} != {text!r}')
        return True
