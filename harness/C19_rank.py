"""C19 — ranking and strictness: obligations over the REAL `rank_models`, `get_rankval`, `is_strictness_fulfilled`
(pharmpy.tools.run) and `degrees_of_freedom/cutoff/test/best_of_two` (pharmpy.modeling.lrt).

Numbers are symbolic *integers* (objective values, penalties, cut-off, parameter counts); NaN is a per-model flag.
Environment (every item is a stub listed in the evidence):
  * `np` in pharmpy.tools.run          -> FakeNp (`nan`, `isnan(x) = x != x`)
  * `pd` in pharmpy.tools.run          -> FakePd (`Index` = list, `DataFrame` = Cap: keeps rows/index/columns and
                                           implements `sort_values` by the pandas contract: NaN last, stable)
  * `is_strictness_fulfilled`, `calculate_aic`, `calculate_bic` in pharmpy.tools.run (for the rank obligations only)
                                        -> per-model flag / integer criterion `ofv + w * k_model` (w = 2 for AIC,
                                           3/5/7/11 for BIC mixed/fixed/random/iiv), so the real `get_rankval` runs
  * `stats` in pharmpy.modeling.lrt     -> chi2.isf(q, df) = Q[q] + 2*df  (integer table, strictly increasing in df)
  * `float` in pharmpy.modeling.lrt     -> identity (the table is integer valued)
  * models -> objects with `name` and `parameters` (a sized object), results -> objects with the read attributes
The concrete case split (number of candidates, rank type, ...) is pinned per process through VH_* variables.
"""
import os

import pharmpy.modeling.lrt as LRT
import pharmpy.tools.run as R

NC = int(os.environ.get('VH_NC', '2'))              # candidates besides the base model (1..4)
RT = os.environ.get('VH_RT', 'ofv')                 # ofv | aic | bic:mixed | bic:fixed | bic:random | bic:iiv | lrt
CM = int(os.environ.get('VH_CM', '1'))              # lrt cutoff argument: 0 None, 1 scalar 0.001, 2 tuple (0.1, 0.2)
PAR = os.environ.get('VH_PAR', 'base')              # lrt parents: base (parent_dict None) | chain | sym | symobj
OKPIN = os.environ.get('VH_OK', '')                 # e.g. '1x0': strictness flags of the first models pinned (x = free)
CUTPIN = os.environ.get('VH_CUT', '')               # rank: '0'/'1' pins use_cut
PENPIN = os.environ.get('VH_PEN', '')               # rank: '0'/'1' pins use_pen
CHUNK = os.environ.get('VH_CHUNK', '')              # strictness expressions: 'i/n' -> every n-th expression from i
SLEVEL = int(os.environ.get('VH_SLEVEL', '2'))      # strictness expressions with <= SLEVEL connectives (and/or)
NONAN = os.environ.get('VH_NONAN', '0') == '1'      # rank_lrt: no NaN OFVs (flags ignored)



class _NaN:
    """NaN stand-in with IEEE semantics (absorbing under arithmetic, every comparison False, != True).  A real float
    NaN meeting a symbolic integer in `nan - x` makes CrossHair realise x; this object keeps x symbolic."""

    def _same(self, *a):
        return self
    __add__ = __radd__ = __sub__ = __rsub__ = __mul__ = __rmul__ = __neg__ = __truediv__ = __rtruediv__ = _same

    def _false(self, other):
        return False
    __eq__ = __lt__ = __le__ = __gt__ = __ge__ = _false

    def __ne__(self, other):
        return True

    __hash__ = None

    def __repr__(self):
        return 'nan'


NAN = _NaN()
NAMES = ['base', 'm1', 'm2', 'm3', 'm4']
BICW = {'mixed': 3, 'fixed': 5, 'random': 7, 'iiv': 11}
QTAB = {0.05: 4, 0.01: 7, 0.001: 11, 0.1: 3, 0.2: 2}

_real = dict(np=R.np, pd=R.pd, isf=R.is_strictness_fulfilled, aic=R.calculate_aic, bic=R.calculate_bic,
             stats=LRT.stats)


class FakeNp:
    nan = NAN

    @staticmethod
    def isnan(x):
        return x != x


class Cap:
    """DataFrame stand-in: records what rank_models builds; sort_values follows the pandas contract."""

    def __init__(self, rows, index=None, columns=None):
        self.rows = [tuple(r) for r in rows]
        self.index = list(index)
        self.columns = list(columns)
        self.sorted_by = None

    def sort_values(self, by=None, ascending=True):
        col = self.columns.index(by[0] if isinstance(by, list) else by)
        keyed = list(enumerate(self.rows))
        num = [x for x in keyed if x[1][col] == x[1][col]]
        nan = [x for x in keyed if x[1][col] != x[1][col]]
        num.sort(key=lambda x: x[1][col], reverse=not ascending)      # stable
        order = [i for i, _ in num + nan]
        out = Cap([self.rows[i] for i in order], [self.index[i] for i in order], self.columns)
        out.sorted_by = (by, ascending)
        return out


class FakePd:
    DataFrame = Cap

    @staticmethod
    def Index(keys, name=None):
        return list(keys)


class Sized:
    def __init__(self, n):
        self.n = n

    def __len__(self):
        return self.n


class M:
    def __init__(self, name, ok=True, k=0, npar=0):
        self.name = name
        self.ok = ok
        self.k = k
        self.parameters = Sized(npar)


class Res:
    def __init__(self, ofv):
        self.ofv = ofv


class FakeChi2:
    @staticmethod
    def isf(q, df):
        return QTAB[q] + 2 * df


class FakeStats:
    chi2 = FakeChi2


def _ident(x):
    return x


def _install():
    R.np = FakeNp
    R.pd = FakePd
    R.is_strictness_fulfilled = lambda model, res, strictness: model.ok
    R.calculate_aic = lambda model, likelihood: likelihood + 2 * model.k
    R.calculate_bic = lambda model, likelihood, type='mixed': likelihood + BICW[type] * model.k
    LRT.stats = FakeStats
    LRT.float = _ident          # float(x) of the integer table value: identity (symbolic floats do not confirm)


def _pin_ok(ok):
    ok = list(ok)
    for i, ch in enumerate(OKPIN):
        if ch in '01' and i < len(ok):
            ok[i] = ch == '1'
    return ok


def _crit(v, k):
    if RT in ('ofv', 'lrt'):
        return v
    if RT == 'aic':
        return v + 2 * k
    return v + BICW[RT.split(':')[1]] * k


def _lrt_pass(i, par, v, nan, npar):
    """Reference LRT of candidate i against its parent on the OFVs of the results (documented in lrt.test/cutoff:
    dofv >= cutoff, cutoff = 0 for df 0, chi2.isf(alpha, df) for df > 0, -chi2.isf(alpha, -df) for df < 0)."""
    p = par[i]
    df = npar[i] - npar[p]
    if CM == 0:
        alpha = 0.05 if df >= 0 else 0.01
    elif CM == 1:
        alpha = 0.001
    else:
        alpha = 0.1 if df >= 0 else 0.2
    if df == 0:
        cut = 0
    elif df > 0:
        cut = QTAB[alpha] + 2 * df
    else:
        cut = -(QTAB[alpha] + 2 * (-df))
    if nan[p] or nan[i]:
        return False
    return v[p] - v[i] >= cut


def _rank_body(n, v, ok, k, use_cut, cutoff, use_pen, pen, par=None, npar=None, nan=None):
    """Run the real rank_models on n models (base + n-1 candidates) and compare with the reference."""
    _install()
    ok = _pin_ok(ok)
    nan = nan or [False] * n
    npar = npar or [0] * n
    models = [M(NAMES[i], ok[i] and not nan[i], k[i], npar[i]) for i in range(n)]
    ress = [Res(NAN if nan[i] else v[i]) for i in range(n)]
    kwargs = {}
    rt = RT
    if RT.startswith('bic'):
        rt = 'bic'
        kwargs['bic_type'] = RT.split(':')[1]
    if RT == 'lrt':
        cut_arg = [None, 0.001, (0.1, 0.2)][CM]
        if PAR == 'base':
            kwargs['parent_dict'] = None
        elif PAR == 'symobj':
            kwargs['parent_dict'] = {models[i]: models[par[i]] for i in range(1, n)}
        else:
            kwargs['parent_dict'] = {NAMES[i]: NAMES[par[i]] for i in range(1, n)}
        penalties = None
    else:
        cut_arg = cutoff if use_cut else None
        penalties = list(pen[:n]) if use_pen else None
    df = R.rank_models(models[0], ress[0], models[1:], ress[1:], strictness='whatever', rank_type=rt,
                       cutoff=cut_arg, penalties=penalties, **kwargs)
    # ---- reference -----------------------------------------------------------------------------------
    good = [ok[i] and not nan[i] for i in range(n)]
    val = [(_crit(v[i], k[i]) + (pen[i] if penalties is not None else 0)) if good[i] else None for i in range(n)]
    ref = val[0]
    elig = [good[0]]
    for i in range(1, n):
        if not good[i]:
            elig.append(False)
        elif RT == 'lrt':
            elig.append(_lrt_pass(i, par, v, nan, npar))
        elif cut_arg is None:
            elig.append(True)
        elif ref is None:
            elig.append(None)           # no delta exists: whether the cut-off applies is not specified
        else:
            elig.append(ref - val[i] > cut_arg)
    # ---- the table -----------------------------------------------------------------------------------
    cname = 'ofv' if RT == 'lrt' else rt
    if not isinstance(df, Cap) or df.columns != ['d' + cname, cname, 'rank']:
        return False
    if sorted(df.index) != sorted(NAMES[:n]):
        return False
    row = {name: r for name, r in zip(df.index, df.rows)}
    ranked = []
    for i in range(n):
        d, rv, rk = row[NAMES[i]]
        is_ranked = rk == rk
        if elig[i] is not None and is_ranked != elig[i]:
            return False        # excluded exactly the candidates failing strictness / cut-off / test
        if is_ranked:
            if not good[i]:
                return False
            ranked.append(i)
    for i in ranked:
        d, rv, rk = row[NAMES[i]]
        if rv != val[i]:
            return False
        if ref is None:
            if d == d:
                return False
            better = sum(1 for j in ranked if val[j] < val[i])
        else:
            if d != ref - val[i]:
                return False
            better = sum(1 for j in ranked if val[j] < val[i])      # larger delta <=> smaller value
        if rk != 1 + better:    # competition ranking, ties share a rank
            return False
    # order of the returned table: ranked rows first, best first; a failed candidate never above an eligible one
    seen_unranked = False
    prev = None
    for name in df.index:
        i = NAMES.index(name)
        if i in ranked:
            if seen_unranked:
                return False
            if prev is not None and row[name][2] < prev:
                return False
            prev = row[name][2]
        else:
            seen_unranked = True
    # the model reported as best (tools: `summary['rank'].idxmin()`, first minimum of the table) is a top eligible one
    if ranked:
        best = df.index[0]
        bi = NAMES.index(best)
        if bi not in ranked or row[best][2] != 1:
            return False
        if any(val[j] < val[bi] for j in ranked):
            return False
    return True


def rank(v0: int, v1: int, v2: int, v3: int, v4: int, ok0: bool, ok1: bool, ok2: bool, ok3: bool, ok4: bool,
         k0: int, k1: int, k2: int, k3: int, k4: int, use_cut: bool, cutoff: int, use_pen: bool,
         p0: int, p1: int, p2: int, p3: int, p4: int) -> bool:
    """
    rank_models (rank types ofv / aic / bic) on base + NC candidates: a candidate is ranked iff it fulfils strictness
    and (no cut-off or delta > cut-off); value = criterion (+ penalty), delta = value(base) - value; competition
    ranking by delta with shared ranks for ties; failed candidates unranked and below every ranked one; best = a top
    eligible model.
    post: _ == True
    """
    n = NC + 1
    if CUTPIN in ('0', '1'):
        use_cut = CUTPIN == '1'
    if PENPIN in ('0', '1'):
        use_pen = PENPIN == '1'
    return _rank_body(n, (v0, v1, v2, v3, v4), (ok0, ok1, ok2, ok3, ok4), (k0, k1, k2, k3, k4), use_cut, cutoff,
                      use_pen, (p0, p1, p2, p3, p4))


def rank__twin(v0: int, v1: int, v2: int, v3: int, v4: int, ok0: bool, ok1: bool, ok2: bool, ok3: bool, ok4: bool,
               k0: int, k1: int, k2: int, k3: int, k4: int, use_cut: bool, cutoff: int, use_pen: bool,
               p0: int, p1: int, p2: int, p3: int, p4: int) -> bool:
    """
    pre: ok0 and ok1 and use_cut and v0 - v1 > cutoff + 10 and not use_pen and k0 == 0 and k1 == 0
    post: _ == True
    """
    return not rank(v0, v1, v2, v3, v4, ok0, ok1, ok2, ok3, ok4, k0, k1, k2, k3, k4, use_cut, cutoff, use_pen,
                    p0, p1, p2, p3, p4)


def _par_ok(n, par):
    if PAR in ('base', 'chain'):
        return True
    for i in range(1, n):
        if not (0 <= par[i] < n) or par[i] == i:
            return False
    return True


def rank_lrt(v0: int, v1: int, v2: int, v3: int, ok0: bool, ok1: bool, ok2: bool, ok3: bool,
             nan0: bool, nan1: bool, nan2: bool, nan3: bool, n0: int, n1: int, n2: int, n3: int,
             q1: int, q2: int, q3: int) -> bool:
    """
    rank_models(rank_type='lrt') on base + NC candidates with parents (default: the base model; VH_PAR=chain: the
    previous model; sym/symobj: symbolic parent map given by names / by model objects): a candidate is ranked iff it
    fulfils strictness and passes the real lrt.test against its parent (OFVs of the results, df = difference of the
    numbers of parameters, alpha by sign of df); ranking by dOFV to the base as in `rank`.
    pre: 0 <= n0 <= 3 and 0 <= n1 <= 3 and 0 <= n2 <= 3 and 0 <= n3 <= 3
    pre: _par_ok(NC + 1, (0, q1, q2, q3))
    post: _ == True
    """
    n = NC + 1
    if PAR == 'base':
        par = [0, 0, 0, 0]
    elif PAR == 'chain':
        par = [0, 0, 1, 2]
    else:
        par = [0] + [[j for j in range(n) if j == q][0] for q in (q1, q2, q3)[:n - 1]]
    return _rank_body(n, (v0, v1, v2, v3), (ok0, ok1, ok2, ok3), (0, 0, 0, 0), False, 0, False, (0, 0, 0, 0),
                      par=par, npar=[n0, n1, n2, n3],
                      nan=[False] * 4 if NONAN else [nan0, nan1, nan2, nan3])


def rank_lrt__twin(v0: int, v1: int, v2: int, v3: int, ok0: bool, ok1: bool, ok2: bool, ok3: bool,
                   nan0: bool, nan1: bool, nan2: bool, nan3: bool, n0: int, n1: int, n2: int, n3: int,
                   q1: int, q2: int, q3: int) -> bool:
    """
    pre: 0 <= n0 <= 3 and 0 <= n1 <= 3 and 0 <= n2 <= 3 and 0 <= n3 <= 3
    pre: _par_ok(NC + 1, (0, q1, q2, q3))
    pre: ok0 and ok1 and not nan0 and not nan1 and n1 == n0 + 1 and v0 - v1 > 100
    post: _ == True
    """
    return not rank_lrt(v0, v1, v2, v3, ok0, ok1, ok2, ok3, nan0, nan1, nan2, nan3, n0, n1, n2, n3, q1, q2, q3)


def rank_refusals(nm: int, nr: int, npen: int, use_pen: bool, bad_type: bool) -> bool:
    """
    Documented refusals of rank_models/get_rankval: different lengths of models and results, a penalties list whose
    length is not len(models) + 1, an unknown rank type -> ValueError; otherwise a table is returned.
    pre: 0 <= nm <= 3 and 0 <= nr <= 3 and 0 <= npen <= 5
    post: _ == True
    """
    _install()
    models = [M(NAMES[i + 1]) for i in range(3)][:nm]
    ress = [Res(i) for i in range(3)][:nr]
    pens = [0, 0, 0, 0, 0][:npen] if use_pen else None
    expect_error = nm != nr or (use_pen and npen != nm + 1) or bad_type
    try:
        df = R.rank_models(M('base'), Res(0), models, ress, rank_type='xyz' if bad_type else 'ofv', penalties=pens)
    except ValueError:
        return expect_error
    return not expect_error and isinstance(df, Cap) and len(df.rows) == nm + 1


def rank_refusals__twin(nm: int, nr: int, npen: int, use_pen: bool, bad_type: bool) -> bool:
    """
    pre: 0 <= nm <= 3 and 0 <= nr <= 3 and 0 <= npen <= 5
    post: _ == True
    """
    return not rank_refusals(nm, nr, npen, use_pen, bad_type)


def lrt_two(np_: int, nc: int, vp: int, vc: int, a: int) -> bool:
    """
    lrt.degrees_of_freedom / cutoff / test / best_of_two on two models with symbolic parameter counts and OFVs,
    chi2.isf stubbed by the integer table: df = difference of parameter counts; cutoff = 0, isf(alpha, df) or
    -isf(alpha, -df) by the sign of df; test <=> parent OFV - child OFV >= cutoff; best_of_two = child iff test.
    pre: 0 <= np_ <= 6 and 0 <= nc <= 6 and 0 <= a <= 2
    post: _ == True
    """
    _install()
    alpha = [0.05, 0.01, 0.001][[j for j in range(3) if j == a][0]]
    parent, child = M('p', npar=np_), M('c', npar=nc)
    df = nc - np_
    if LRT.degrees_of_freedom(parent, child) != df:
        return False
    if df == 0:
        cut = 0
    elif df > 0:
        cut = QTAB[alpha] + 2 * df
    else:
        cut = -(QTAB[alpha] + 2 * (-df))
    if LRT.cutoff(parent, child, alpha) != cut:
        return False
    want = vp - vc >= cut
    if bool(LRT.test(parent, child, vp, vc, alpha)) != want:
        return False
    return LRT.best_of_two(parent, child, vp, vc, alpha) is (child if want else parent)


def lrt_two__twin(np_: int, nc: int, vp: int, vc: int, a: int) -> bool:
    """
    pre: 0 <= np_ <= 6 and 0 <= nc <= 6 and 0 <= a <= 2
    pre: nc < np_
    post: _ == True
    """
    return not lrt_two(np_, nc, vp, vc, a)


# ---------------------------------------------------------------------------------------------------------
# is_strictness_fulfilled: the real function (regex validation + eval) on concrete expressions of the documented
# grammar, result attributes symbolic

ATOMS_BOOL = ['minimization_successful', 'rounding_errors', 'maxevals_exceeded', 'final_zero_gradient']
OPS = ['<', '<=', '==', '>', '>=', '!=']


def _atom_val(a, R_):
    """Reference meaning of an atom (docs/strictness.rst)."""
    if a == 'minimization_successful':
        return R_['ms']
    if a == 'rounding_errors':
        return R_['tc'] == 1
    if a == 'maxevals_exceeded':
        return R_['tc'] == 2
    if a == 'final_zero_gradient':
        return R_['fzg']
    name, op, num = a.split(' ')
    num = float(num) if '.' in num else int(num)
    xs = [R_['sd']] if name == 'sigdigs' else [R_['rse0'], R_['rse1']]     # numeric criteria hold for ALL values
    f = {'<': lambda x: x < num, '<=': lambda x: x <= num, '==': lambda x: x == num, '>': lambda x: x > num,
         '>=': lambda x: x >= num, '!=': lambda x: x != num}[op]
    return all(f(x) for x in xs)


def _exprs():
    """(text, tree) for the documented grammar with <= 2 connectives.  tree: atom | ('not', t) | ('and'|'or', t, u)."""
    # (`!=` only for the single-valued sigdigs: for a vector criterion "all values differ" vs "not all equal" is
    # not specified by the documentation)
    num_atoms = [f'sigdigs {op} 3' for op in OPS] + [f'rse {op} 2' for op in OPS if op != '!=']
    lvl0 = ATOMS_BOOL + num_atoms
    small = ['minimization_successful', 'rounding_errors', 'sigdigs >= 3', 'rse < 2', 'final_zero_gradient']
    out = []
    for a in lvl0:
        out.append((a, a))
        out.append((f'not {a}', ('not', a)))
    for op in ('and', 'or'):
        for a in small:
            for b in small:
                out.append((f'{a} {op} {b}', (op, a, b)))
                out.append((f'not {a} {op} {b}', (op, ('not', a), b)))
                out.append((f'not ({a} {op} {b})', ('not', (op, a, b))))
    tri = ['minimization_successful', 'rounding_errors', 'sigdigs >= 3', 'rse < 2']
    for o1 in (('and', 'or') if SLEVEL >= 2 else ()):
        for o2 in ('and', 'or'):
            for a in tri:
                for b in tri:
                    for c in tri:
                        if len({a, b, c}) < 3:
                            continue
                        out.append((f'({a} {o1} {b}) {o2} {c}', (o2, (o1, a, b), c)))
                        out.append((f'{a} {o1} ({b} {o2} {c})', (o1, a, (o2, b, c))))
                        # unparenthesised: Python precedence, `and` binds tighter than `or`
                        if o1 == 'or' and o2 == 'and':
                            tree = ('or', a, ('and', b, c))
                        else:
                            tree = (o2, (o1, a, b), c)
                        out.append((f'{a} {o1} {b} {o2} {c}', tree))
    out.append(('MINIMIZATION_SUCCESSFUL', 'minimization_successful'))
    if CHUNK:
        i, m = (int(x) for x in CHUNK.split('/'))
        out = out[i::m]
    return out


EXPRS = _exprs()

# expressions with non-integer thresholds (the documented examples): symbolic ints against a float threshold do not
# confirm, so here sigdigs / rse are picked by a symbolic index from tables around the thresholds
EXPRS_F = [
    ('sigdigs >= 0.1', 'sigdigs >= 0.1'), ('not sigdigs >= 0.1', ('not', 'sigdigs >= 0.1')),
    ('rse < 0.4', 'rse < 0.4'), ('not rse < 0.4', ('not', 'rse < 0.4')),
    ('minimization_successful or (rounding_errors and sigdigs >= 0.1)',
     ('or', 'minimization_successful', ('and', 'rounding_errors', 'sigdigs >= 0.1'))),
    ('minimization_successful and rse < 0.4', ('and', 'minimization_successful', 'rse < 0.4')),
    ('minimization_successful or (rounding_errors and sigdigs>= 0.1)',
     ('or', 'minimization_successful', ('and', 'rounding_errors', 'sigdigs >= 0.1'))),
]
SD_TABLE = [0, 0.05, 0.1, 0.15, 3]
RSE_TABLE = [0.0, 0.39, 0.4, 0.41, 2]      # (an index is only read when the expression mentions the criterion)


def _tree_val(t, R_):
    if isinstance(t, str):
        return _atom_val(t, R_)
    if t[0] == 'not':
        return not _tree_val(t[1], R_)
    if t[0] == 'and':
        return _tree_val(t[1], R_) and _tree_val(t[2], R_)
    return _tree_val(t[1], R_) or _tree_val(t[2], R_)


class SRes:
    def __init__(self, R_):
        self.ofv = NAN if R_['nan'] else 7
        self.minimization_successful = R_['ms']
        self.termination_cause = [None, 'rounding_errors', 'maxevals_exceeded'][R_['tc']]
        self.significant_digits = R_['sd']
        self.warnings = ['final_zero_gradient'] if R_['fzg'] else []
        self.relative_standard_errors = [R_['rse0'], R_['rse1']]
        self.covariance_matrix = None
        self.gradients = None
        self.parameter_estimates = None


def strictness(x: int, nan: bool, ms: bool, tc: int, sd: int, rse0: int, rse1: int, fzg: bool) -> bool:
    """
    is_strictness_fulfilled(model, results, EXPRS[x]) equals the reference evaluation of the expression tree over
    the documented atoms; NaN OFV -> False.
    pre: 0 <= x < len(EXPRS) and 0 <= tc <= 2
    post: _ == True
    """
    R.np = FakeNp
    R.is_strictness_fulfilled = _real['isf']
    x = [j for j in range(len(EXPRS)) if j == x][0]
    tc = [j for j in range(3) if j == tc][0]
    text, tree = EXPRS[x]
    R_ = dict(nan=nan, ms=ms, tc=tc, sd=sd, rse0=rse0, rse1=rse1, fzg=fzg)
    got = R.is_strictness_fulfilled(None, SRes(R_), text)
    if nan:
        return got is False or got == False     # noqa: E712
    return bool(got) == bool(_tree_val(tree, R_))


def strictness_float(x: int, nan: bool, ms: bool, tc: int, sdi: int, r0i: int, r1i: int, fzg: bool) -> bool:
    """
    As `strictness` for the expressions with non-integer thresholds (the documented examples): sigdigs and the two
    RSEs range over tables around the thresholds (symbolic index), the flags are symbolic.
    pre: 0 <= x < len(EXPRS_F) and 0 <= tc <= 2 and 0 <= sdi < 5 and 0 <= r0i < 5 and 0 <= r1i < 5
    post: _ == True
    """
    R.np = FakeNp
    R.is_strictness_fulfilled = _real['isf']
    x = [j for j in range(len(EXPRS_F)) if j == x][0]
    tc = [j for j in range(3) if j == tc][0]
    text, tree = EXPRS_F[x]
    sd, r0, r1 = 3, 0.0, 0.0
    if 'sigdigs' in text:
        sd = SD_TABLE[[j for j in range(5) if j == sdi][0]]
    if 'rse' in text:
        r0 = RSE_TABLE[[j for j in range(5) if j == r0i][0]]
        r1 = RSE_TABLE[[j for j in range(5) if j == r1i][0]]
    R_ = dict(nan=nan, ms=ms, tc=tc, sd=sd, rse0=r0, rse1=r1, fzg=fzg)
    got = R.is_strictness_fulfilled(None, SRes(R_), text)
    if nan:
        return got is False or got == False     # noqa: E712
    return bool(got) == bool(_tree_val(tree, R_))


def strictness_float__twin(x: int, nan: bool, ms: bool, tc: int, sdi: int, r0i: int, r1i: int, fzg: bool) -> bool:
    """
    pre: 0 <= x < len(EXPRS_F) and 0 <= tc <= 2 and 0 <= sdi < 5 and 0 <= r0i < 5 and 0 <= r1i < 5
    pre: not nan and x == 4 and not ms
    post: _ == True
    """
    return not strictness_float(x, nan, ms, tc, sdi, r0i, r1i, fzg)


def strictness__twin(x: int, nan: bool, ms: bool, tc: int, sd: int, rse0: int, rse1: int, fzg: bool) -> bool:
    """
    pre: 0 <= x < len(EXPRS) and 0 <= tc <= 2
    pre: not nan and x == len(EXPRS) - 1
    post: _ == True
    """
    return not strictness(x, nan, ms, tc, sd, rse0, rse1, fzg)


# ---------------------------------------------------------------------------------------------------------
# per-class criteria (rse_theta/omega/sigma, final_zero_gradient_theta/omega/sigma): a contract model of the pandas
# Series operations the function uses (index.isin, boolean-mask selection, reindex with NaN for missing labels,
# == scalar, isnull, any, iteration); results hold entries for the ESTIMATED parameters only (fixed ones have none)

class FSeries:
    def __init__(self, labels, values):
        self.labels = list(labels)
        self.values = list(values)
        self.index = self

    def isin(self, names):          # Series.index.isin
        names = list(names)
        return [lb in names for lb in self.labels]

    def __getitem__(self, mask):
        return FSeries([lb for lb, m in zip(self.labels, mask) if m], [v for v, m in zip(self.values, mask) if m])

    def reindex(self, names):
        d = dict(zip(self.labels, self.values))
        return FSeries(list(names), [d[n] if n in d else NAN for n in names])

    def __iter__(self):
        return iter(self.values)

    def __len__(self):
        return len(self.values)

    def __eq__(self, other):
        return FSeries(self.labels, [(v is not None and v == other) for v in self.values])

    __hash__ = None

    def isnull(self):
        return FSeries(self.labels, [v is None or v != v for v in self.values])

    def any(self):
        for v in self.values:
            if v:
                return True
        return False


class _Names:
    def __init__(self, names):
        self.names = names


class CModel:
    thetas = ['POP_A', 'POP_B']
    omegas = ['IIV_A']
    sigmas = ['RUV']


EXPRS_C = [
    ('rse_theta < 2', ('rse', 't', '<')), ('rse_omega < 2', ('rse', 'o', '<')), ('rse_sigma < 2', ('rse', 's', '<')),
    ('not rse_theta < 2', ('not', ('rse', 't', '<'))), ('rse_theta >= 2', ('rse', 't', '>=')),
    ('rse_theta < 2 and rse_omega < 2', ('and', ('rse', 't', '<'), ('rse', 'o', '<'))),
    ('rse_sigma < 2 or rse_omega < 2', ('or', ('rse', 's', '<'), ('rse', 'o', '<'))),
    ('final_zero_gradient_theta', ('fzg', 't')), ('final_zero_gradient_omega', ('fzg', 'o')),
    ('final_zero_gradient_sigma', ('fzg', 's')),
    ('not final_zero_gradient_omega and rse_omega < 2', ('and', ('not', ('fzg', 'o')), ('rse', 'o', '<'))),
    ('minimization_successful and rse_theta < 2', ('and', 'ms', ('rse', 't', '<'))),
]


def _cval(t, env):
    if t == 'ms':
        return env['ms']
    if t[0] == 'not':
        return not _cval(t[1], env)
    if t[0] == 'and':
        return _cval(t[1], env) and _cval(t[2], env)
    if t[0] == 'or':
        return _cval(t[1], env) or _cval(t[2], env)
    if t[0] == 'rse':
        xs = env['rse'][t[1]]           # RSEs of the estimated parameters of the class: the criterion holds for ALL
        return all((x < 2) if t[2] == '<' else (x >= 2) for x in xs)
    # final_zero_gradient_<class>: at least one parameter of the class has a zero or NaN final gradient
    return any(g is None or g == 0 for g in env['grd'][t[1]])


def strictness_class(x: int, ms: bool, fix_t: bool, fix_o: bool, fix_s: bool, r0: int, r1: int, ro: int, rs: int,
                     g0: int, g1: int, go: int, gs: int, null_t: bool, null_o: bool, null_s: bool) -> bool:
    """
    Per-class criteria over a model with thetas POP_A, POP_B, omega IIV_A, sigma RUV; POP_B / IIV_A / RUV may be
    fixed (then the results have no RSE and no gradient for them); gradients may be NaN (null_*).
    pre: 0 <= x < len(EXPRS_C)
    post: _ == True
    """
    R.np = FakeNp
    R.is_strictness_fulfilled = _real['isf']
    R.get_thetas = lambda m: _Names(list(m.thetas))
    R.get_omegas = lambda m: _Names(list(m.omegas))
    R.get_sigmas = lambda m: _Names(list(m.sigmas))
    x = [j for j in range(len(EXPRS_C)) if j == x][0]
    text, tree = EXPRS_C[x]
    labels, rse, grd = ['POP_A'], [r0], [None if null_t else g0]
    cls = {'POP_A': 't'}
    if not fix_t:
        labels.append('POP_B'); rse.append(r1); grd.append(g1); cls['POP_B'] = 't'      # noqa: E702
    if not fix_o:
        labels.append('IIV_A'); rse.append(ro); grd.append(None if null_o else go); cls['IIV_A'] = 'o'   # noqa: E702
    if not fix_s:
        labels.append('RUV'); rse.append(rs); grd.append(None if null_s else gs); cls['RUV'] = 's'       # noqa: E702
    res = SRes(dict(nan=False, ms=ms, tc=0, sd=3, rse0=1, rse1=1, fzg=False))
    res.relative_standard_errors = FSeries(labels, rse)
    res.gradients = FSeries(labels, grd)
    env = dict(ms=ms, rse={c: [v for lb, v in zip(labels, rse) if cls[lb] == c] for c in 'tos'},
               grd={c: [v for lb, v in zip(labels, grd) if cls[lb] == c] for c in 'tos'})
    got = R.is_strictness_fulfilled(CModel(), res, text)
    return bool(got) == bool(_cval(tree, env))


def strictness_class__twin(x: int, ms: bool, fix_t: bool, fix_o: bool, fix_s: bool, r0: int, r1: int, ro: int,
                           rs: int, g0: int, g1: int, go: int, gs: int, null_t: bool, null_o: bool,
                           null_s: bool) -> bool:
    """
    pre: 0 <= x < len(EXPRS_C)
    pre: x == 5 and not fix_t and not fix_o
    post: _ == True
    """
    return not strictness_class(x, ms, fix_t, fix_o, fix_s, r0, r1, ro, rs, g0, g1, go, gs, null_t, null_o, null_s)


def strictness_edges(nan: bool, ms: bool, which: int) -> bool:
    """
    The empty expression is fulfilled unless the OFV is NaN; an unknown criterion name or a disallowed operator
    character is refused with ValueError.
    pre: 0 <= which <= 3
    post: _ == True
    """
    R.np = FakeNp
    R.is_strictness_fulfilled = _real['isf']
    res = SRes(dict(nan=nan, ms=ms, tc=0, sd=3, rse0=1, rse1=1, fzg=False))
    which = [j for j in range(4) if j == which][0]
    text = ['', 'minimisation_successful', 'minimization_successful & rounding_errors',
            'minimization_successful; rounding_errors'][which]
    try:
        got = R.is_strictness_fulfilled(None, res, text)
    except ValueError:
        return which != 0 and not nan
    if nan:
        return got is False
    return which == 0 and got is True


def strictness_edges__twin(nan: bool, ms: bool, which: int) -> bool:
    """
    pre: 0 <= which <= 3
    post: _ == True
    """
    return not strictness_edges(nan, ms, which)
