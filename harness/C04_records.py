"""C04 (6) — the REAL ThetaRecord.update / ThetaRecord.remove / OmegaRecord.update / OmegaRecord.remove on real records.

C04_update.py checks the bookkeeping of update_thetas / update_random_variable_records over contract stubs of the records.
This harness closes the other half: the records themselves.  A record is created from a concrete text of a layout table
with the real `create_record`; its parameters are read with the record's own API (the way parsing.parse_thetas /
parse_omegas_sigmas do); one edit chosen by symbolic table indexes is applied to the parameter list (real
pharmpy.model.Parameter objects) and handed to the REAL `record.update(parameters)` / `record.remove(inds)` exactly as
update.update_thetas / update_random_variable_records do (thetas: the parameters of this record in order; omegas: one
variance per eta of a DIAGONAL record, the lower triangle row-wise of a BLOCK record).

Oracle
  (a) the independent reference reader (lib/nmref.parse_theta / parse_omega; shares no code with pharmpy) reads the
      generated text back to exactly the requested parameters (thetas: init/lower/upper/fix, exact; omegas: covariance
      values within 1e-12 relative, fixedness exact),
  (b) pharmpy's own re-read of the generated text gives the same, with the same comment names,
  (c) an edit that changes nothing gives the byte-identical text,
  (d) everything outside the tokens of the changed parameters is byte-identical (comments, white space, spelling of
      every value that was not changed); the replaced token alone reads (reference reader) as the new value.

Table indexes are fixed per path by bisection on the symbolic ints; the real pharmpy code then runs on concrete data
with CrossHair tracing suspended (same pattern as C03_stream.py / C04_update.py).

Regions (VH_REGION): 'main' is everything that is not one of the named defect regions below; each defect region is the
exact complement piece and is run as `finding_<region>` by checks/C04.py.  A region is decided from the layout and the
requested edit only, never from pharmpy's behaviour (measured on b8d6958: every case of 'main' holds, every case of a
defect region fails).
  theta_repeat_member          the members of one (..)xn group get different values (one token stands for all of them)
  theta_repeat_low_init        a (..)xn group ends up with a lower and no upper bound: `(low,init)xn`, refused on re-read
  theta_repeat_fix             a (..)xn group gets fixed: `(..)xn FIX`, refused on re-read
  theta_fix_inside_bounds      a theta written `(init FIX)` gets a bound: `(low,init FIX)`, refused on re-read
  theta_remove_counts_tokens   ThetaRecord.remove reads its positions as token numbers, update_thetas passes parameter
                               positions: different as soon as a (..)xn repeat interferes
  omega_split_fixed_repeat     `(v FIX)xn` whose members now differ: the FIX logic of the split is inverted
  omega_remove_counts_tokens   the same token / eta position mix-up in OmegaRecord.remove
"""
import os
import re
import warnings

warnings.simplefilter('ignore')

try:
    import crosshair.core as _cc
    _cc.consider_shortcircuit = lambda *a, **k: None     # always execute callees (see C18_mfl.py)
except ImportError:
    pass
try:
    from crosshair.tracers import NoTracing as _NoTracing
except ImportError:
    import contextlib
    _NoTracing = contextlib.nullcontext

import nmref  # noqa: E402
from pharmpy.model import Parameter  # noqa: E402
from pharmpy.model.external.nonmem.records.factory import create_record  # noqa: E402

INF = float('inf')
REGION = os.environ.get('VH_REGION', 'main')
TIER = os.environ.get('VH_TIER', 'quick')


def _pick(x, lo, hi):
    """Fix lo <= x < hi on this path by bisection (solver-decided branches); returns a native int."""
    while hi - lo > 1:
        mid = (lo + hi) // 2
        if x < mid:
            hi = mid
        else:
            lo = mid
    return lo


def _payload(text):
    """text of one record without its `$NAME`"""
    m = re.match(r'\s*\$[A-Za-z]+', text)
    return text[m.end():]


def _match_skeleton(chunks, out, check=None):
    """chunks: list of str (literal, must be kept byte for byte) / None (token of a changed parameter).  True iff `out`
    is the old text with only those tokens replaced, where the w-th replacement text satisfies check(w, text)."""
    def rec(ci, pos, w):
        if ci == len(chunks):
            return pos == len(out)
        c = chunks[ci]
        if c is not None:
            return out.startswith(c, pos) and rec(ci + 1, pos + len(c), w)
        for end in range(pos, len(out) + 1):
            if (check is None or check(w, out[pos:end])) and rec(ci + 1, end, w + 1):
                return True
        return False
    merged = []
    for c in chunks:            # adjacent literals -> one literal (fewer split points to try)
        if c is not None and merged and merged[-1] is not None:
            merged[-1] += c
        else:
            merged.append(c)
    chunks = merged
    return rec(0, 0, 0)


# ======================================================================================================================
# $THETA
# ======================================================================================================================
THETA_QUICK = [
    '$THETA 1\n',                                    # single value
    '$THETA (0,1)\n',                                # (low,init)
    '$THETA (0,1,10)\n',                             # (low,init,up)
    '$THETA 1 FIX\n',                                # FIX outside parentheses
    '$THETA (1 FIX)\n',                              # FIX inside parentheses
    '$THETA (0,1) FIX\n',                            # FIX after the parentheses
    '$THETA (0,0.5,2)x2 3\n',                        # repeat followed by a value
    '$THETA (1)x3\n',                                # a record that is one repeat
    '$THETA (1 FIX)x2 (0,3)\n',                      # fixed repeat followed by a bounded value
    '$THETA 2 (0,1,5)x2\n',                          # repeat that is last in its record
    '$THETA 1 (0,2) (0,3,5)\n',                      # several values per record
    '$THETA (0,1) ; TVCL\n (0,2) ; TVV\n',           # name comments on continuation lines
    '$THETA (0.00,1.50,10.0)\n',                     # odd spelling
    '$THETA (-INF,1,INF)\n',                         # explicit infinities
    '$THETA 1 (0,2,9)x2 3 (0,4)\n',                  # repeat in the middle followed by two more thetas
]
THETA_MORE = [
    '$THETA  (0,0.00469307) ; CL\n  (0,1.00916) ; V\n  (-.99,.1)\n',
    '$THETA (0 1 5)\n',                              # blank separated
    '$THETA 1.5 ; A\n 2.5 FIX ; B\n (0.5,3.5,7.5) ; C\n',
    '$THETA (1.5)x2 ; REP\n 4 ; D\n',
    '$THETA  (2 FIXED)\n',
    '$THETA (0,1E-2,1) 2.5E1\n',
    '$THETA (0.5,1.5,2.5)x2 (0.5,3.5,4.5)x2 7\n',   # two repeats
    '$THETA\n 1 ; A\n\n 2 ; B\n',
    '$THETA (0,1,10) FIX (1)x2 (3 FIX)\n',
]
THETA_LAYOUTS = THETA_QUICK + (THETA_MORE if TIER == 'thorough' else [])
TL_LO = int(os.environ.get('VH_TLO', '0'))
TL_HI = min(int(os.environ.get('VH_THI', str(len(THETA_LAYOUTS)))), len(THETA_LAYOUTS))
T_KMAX = 6           # group index 0..4, k == number of groups: every group at once (tightened per process below)
T_CHANGES = 9
T_VALS = 4


def _norm_theta(d):
    lo, up = d['lower'], d['upper']
    lo = -INF if lo is None or lo <= -1000000 else float(lo)
    up = INF if up is None or up >= 1000000 else float(up)
    init = float(d['init'])
    return (init, lo, up, bool(d['fix']) or lo == up == init)


def _read_theta_record(rec):
    """(init, lower, upper, fix) per theta and the comment names, through the record's own API (= parse_thetas)."""
    inits, bounds, fixs, names = rec.inits, rec.bounds, rec.fixs, rec.comment_names
    if not len(inits) == len(bounds) == len(fixs) == len(names) == len(rec):
        raise AssertionError(f'record API disagrees with itself on the number of thetas: {inits} {bounds} {fixs} {names}')
    return [_norm_theta(dict(init=i, lower=b[0], upper=b[1], fix=f)) for i, b, f in zip(inits, bounds, fixs)], names


def _theta_groups(rec):
    """[(first parameter position, multiplicity, index into root.children)] per theta token"""
    out = []
    pos = 0
    for ci, node in enumerate(rec.root.children):
        if node.rule == 'theta':
            m = re.search(r'[xX]\s*(\d+)\s*$', str(node))
            n = int(m.group(1)) if m else 1
            out.append((pos, n, ci))
            pos += n
    return out


def _edit_theta(p, change, val):
    init, lo, up, fx = p
    if change == 1 or change >= 7:          # new initial estimate
        init = [init * 1.5, init + 0.125, 2.0 if init == 1.0 else 1.0, 1e-05 if lo >= 0 or lo == -INF else init * 0.75][val]
        if not lo < init < up:
            init = p[0] * 0.75
    elif change == 2:                       # toggle FIX
        fx = not fx
    elif change == 3:                       # new lower bound / no lower bound
        lo = [-1.0, 0.25, 0.125 if lo == 0.0 else 0.0, -INF][val]
    elif change == 4:                       # new upper bound / no upper bound
        up = [20.0, 100.5, 1000000.0, INF][val]
        up = INF if up >= 1000000 else up
    elif change == 5:                       # both bounds
        lo, up = [(-1.0, 20.0), (0.25, INF), (-INF, 50.0), (-INF, INF)][val]
    elif change == 6:                       # initial estimate and FIX
        init, fx = [init * 1.5, init + 0.125, 2.0 if init == 1.0 else 1.0, init * 0.75][val], not fx
    return (init, lo, up, fx)


_THETA_BASE = {}


def _theta_base(lay):
    """the record of layout `lay` as pharmpy and the reference reader see it (records are immutable values: the real
    record is created once per process and layout; update/remove return new records)"""
    if lay not in _THETA_BASE:
        text = THETA_LAYOUTS[lay]
        rec = create_record(text)
        if str(rec) != text:
            raise AssertionError(f'round trip of {text!r}: {str(rec)!r}')
        old, names = _read_theta_record(rec)
        ref = [_norm_theta(d) for d in nmref.parse_theta(_payload(text))]
        if ref != old:
            raise AssertionError(f'reading {text!r}: pharmpy {old}, reference reader {ref}')
        groups = _theta_groups(rec)
        if sum(n for _, n, _ in groups) != len(old):
            raise AssertionError('harness: repeat groups do not add up')
        _THETA_BASE[lay] = (text, rec, old, names, groups)
    return _THETA_BASE[lay]


def _theta_case(lay, k, change, val):
    """-> None (edit not applicable to this layout) or (text, rec, old, names, groups, new)"""
    text, rec, old, names, groups = _theta_base(lay)
    ng = len(groups)
    if k > ng or (change == 0 and (k > 0 or val > 0)):
        return None
    new = list(old)
    hit = False
    for g in (range(ng) if k == ng else [k]):
        start, n, _ = groups[g]
        if change == 7:            # only the LAST member of a repeat group
            members = [start + n - 1] if n > 1 else []
        elif change == 8:          # only the FIRST member of a repeat group
            members = [start] if n > 1 else []
        else:
            members = range(start, start + n)
        for j in members:
            hit = True
            new[j] = _edit_theta(old[j], change, val)
    if change != 0 and not hit:
        return None
    for init, lo, up, fx in new:
        if not lo < init < up:
            return None            # not a legal parameter (Parameter.create refuses / NONMEM autofix territory)
    return text, rec, old, names, groups, new


def _value_tokens(node_text):
    """spelling of (lower, init, upper) inside one theta token (None when absent); independent of pharmpy"""
    t = re.sub(r'[xX]\s*\d+\s*$', '', node_text)
    t = re.sub(r'\bFIX(ED|E)?\b', ' ', t, flags=re.I).replace('(', ' ').replace(')', ' ')
    parts = [x.strip() for x in (t.split(',') if ',' in t else t.split())]
    if len(parts) == 1:
        return None, parts[0], None
    if len(parts) == 2:
        return parts[0] or None, parts[1], None
    if len(parts) == 3:
        return parts[0] or None, parts[1], parts[2] or None
    raise ValueError(f'not a theta token: {node_text!r}')


def _theta_region(rec, groups, old, new):
    """first matching defect region, else 'main' (decided from the layout and the requested edit only)"""
    texts = [str(rec.root.children[ci]) for _, _, ci in groups]
    for start, n, _ in groups:
        if n > 1 and len(set(new[start:start + n])) > 1:
            return 'theta_repeat_member'            # one member of a (..)xn group differs from the others
    for start, n, _ in groups:
        if n > 1 and new[start] != old[start] and new[start][1] > -INF and new[start][2] == INF:
            return 'theta_repeat_low_init'          # result is (low,init)xn
    for start, n, _ in groups:
        if n > 1 and new[start][3] and not old[start][3]:
            return 'theta_repeat_fix'               # a repeat gets fixed
    for (start, n, _), t in zip(groups, texts):
        inside = re.search(r'\([^)]*\bFIX', t, re.I) is not None
        if inside and new[start][3] and (new[start][1] > -INF or new[start][2] < INF):
            return 'theta_fix_inside_bounds'        # FIX inside the parentheses and bounds are wanted
    return 'main'


def _body_theta_update(lay, k, change, val):
    case = _theta_case(lay, k, change, val)
    if case is None:
        return None
    text, rec, old, names, groups, new = case
    if _theta_region(rec, groups, old, new) != REGION:
        return None
    params = [Parameter.create(names[i] or f'THETA_{i + 1}', p[0], p[1], p[2], p[3]) for i, p in enumerate(new)]
    out = str(rec.update(params))
    what = f'{text!r} -> {new}: generated {out!r}'
    ref = [_norm_theta(d) for d in nmref.parse_theta(_payload(out))]                    # (a)
    if ref != new:
        raise AssertionError(f'{what}, which reads as {ref}')
    back, back_names = _read_theta_record(create_record(out))                            # (b)
    if back != new:
        raise AssertionError(f'{what}, which pharmpy reads as {back}')
    if back_names != names:
        raise AssertionError(f'{what}: names {names} became {back_names}')
    if text.endswith('\n') and not out.endswith('\n'):
        raise AssertionError(f'{what}: the line break ending the record is gone')
    if new == old and out != text:                                                       # (c)
        raise AssertionError(f'{what}: nothing was changed but the text differs')
    chunks = [rec.raw_name]                                                              # (d)
    changed = []
    by_child = {ci: (start, n) for start, n, ci in groups}
    for ci, node in enumerate(rec.root.children):
        if ci in by_child and new[by_child[ci][0]:sum(by_child[ci])] != old[by_child[ci][0]:sum(by_child[ci])]:
            chunks.append(None)
            changed.append(by_child[ci])
        else:
            chunks.append(str(node))

    old_text = {start: str(rec.root.children[ci]) for start, n, ci in groups}

    def reads_as_new(w, piece):
        # the replacement token reads as the new values AND the numbers in it that were not changed are spelled as
        # before (an explicit -INF / INF may go when the parentheses are restructured)
        start, n = changed[w]
        try:
            if [_norm_theta(d) for d in nmref.parse_theta(piece)] != new[start:start + n]:
                return False
            before, after = _value_tokens(old_text[start]), _value_tokens(piece)
        except Exception:
            return False
        for tb, ta, vb, va in zip(before, after, (old[start][1], old[start][0], old[start][2]),
                                  (new[start][1], new[start][0], new[start][2])):
            if vb == va and tb is not None and tb != ta and not (ta is None and abs(vb) == INF):
                return False
        return True
    if not _match_skeleton(chunks, out, reads_as_new):
        raise AssertionError(f'{what}: the text is not the old text with only the tokens of the changed thetas replaced '
                             f'by tokens reading as the new values and keeping the spelling of their unchanged numbers')
    return True


def theta_update(lay: int, k: int, change: int, val: int) -> bool:
    """
    pre: TL_LO <= lay < TL_HI and 0 <= k < T_KMAX and 0 <= change < T_CHANGES and 0 <= val < T_VALS
    post: _ in (True, None)
    """
    codes = [_pick(lay, TL_LO, TL_HI), _pick(k, 0, T_KMAX), _pick(change, 0, T_CHANGES), _pick(val, 0, T_VALS)]
    with _NoTracing():
        return _body_theta_update(*codes)


def theta_update__twin(lay: int, k: int, change: int, val: int) -> bool:
    """
    pre: TL_LO <= lay < TL_HI and 0 <= k < T_KMAX and 0 <= change < T_CHANGES and 0 <= val < T_VALS
    post: _ == True
    """
    codes = [_pick(lay, TL_LO, TL_HI), _pick(k, 0, T_KMAX), _pick(change, 0, T_CHANGES), _pick(val, 0, T_VALS)]
    with _NoTracing():
        return _body_theta_update(*codes) is not True


# ---- ThetaRecord.remove -------------------------------------------------------------------------------------------------
T_MASKS = 32          # records of the table hold at most 5 thetas


def _remove_plan(groups, npar, mask):
    """removed parameter positions -> (inds, kept positions, region, tokens (child indexes) that must survive unchanged)"""
    inds = [j for j in range(npar) if mask >> j & 1]
    kept = [j for j in range(npar) if not mask >> j & 1]
    whole = set()
    partial = False
    for g, (start, n, _) in enumerate(groups):
        gone = sum(1 for j in range(start, start + n) if j in inds)
        if gone == n:
            whole.add(g)
        elif gone:
            partial = True
    # the real record reads `inds` as TOKEN numbers while its caller passes PARAMETER positions: the tokens with these
    # numbers are exactly the tokens of the requested parameters unless a (..)xn repeat interferes
    region = 'main' if not partial and whole == {j for j in inds if j < len(groups)} else 'remove_counts_tokens'
    untouched = [ci for g, (start, n, ci) in enumerate(groups) if not any(j in inds for j in range(start, start + n))]
    return inds, kept, region, untouched


def _body_theta_remove(lay, mask):
    text, rec, old, names, groups = _theta_base(lay)
    if mask >= 2 ** len(old) - 1:
        return None                        # no such theta / "remove all" is never asked of a record (update_thetas)
    inds, kept, region, untouched = _remove_plan(groups, len(old), mask)
    if region.replace('remove_', 'theta_remove_') != REGION:
        return None
    newrec = rec.remove(inds)
    out = str(newrec)
    want = [old[j] for j in kept]
    what = f'{text!r} without thetas {[j + 1 for j in inds]}: generated {out!r}'
    ref = [_norm_theta(d) for d in nmref.parse_theta(_payload(out))]
    if ref != want:
        raise AssertionError(f'{what}, which reads as {ref} instead of {want}')
    rr = create_record(out)
    back, back_names = _read_theta_record(rr)
    if back != want:
        raise AssertionError(f'{what}, which pharmpy reads as {back} instead of {want}')
    if back_names != [names[j] for j in kept]:
        raise AssertionError(f'{what}: names {[names[j] for j in kept]} became {back_names}')
    if len(newrec) != len(want):
        raise AssertionError(f'{what}: len() of the new record is {len(newrec)}')
    if not inds and out != text:
        raise AssertionError(f'{what}: nothing removed but the text differs')
    if text.endswith('\n') and not out.rstrip(' \t').endswith('\n'):
        raise AssertionError(f'{what}: the line break ending the record is gone (the next record is glued to this line)')
    spell = [str(rec.root.children[ci]) for ci in untouched]
    after = [str(n) for n in rr.root.subtrees('theta')]
    it = iter(after)
    if not all(any(s == t for t in it) for s in spell):
        raise AssertionError(f'{what}: spelling of the remaining thetas {spell} became {after}')
    return True


def theta_remove(lay: int, mask: int) -> bool:
    """
    pre: TL_LO <= lay < TL_HI and 0 <= mask < T_MASKS
    post: _ in (True, None)
    """
    codes = [_pick(lay, TL_LO, TL_HI), _pick(mask, 0, T_MASKS)]
    with _NoTracing():
        return _body_theta_remove(*codes)


def theta_remove__twin(lay: int, mask: int) -> bool:
    """
    pre: TL_LO <= lay < TL_HI and 0 <= mask < T_MASKS
    post: _ == True
    """
    codes = [_pick(lay, TL_LO, TL_HI), _pick(mask, 0, T_MASKS)]
    with _NoTracing():
        return _body_theta_remove(*codes) is not True


# ======================================================================================================================
# $OMEGA / $SIGMA
# ======================================================================================================================
# `$OMEGA SD 0.3` / `$OMEGA STANDARD 0.3 0.4` (option before the values of a DIAGONAL record) are refused by pharmpy's
# grammar and therefore not in the table; the SD scale of diagonal records is exercised as `0.3 SD`.
OMEGA_QUICK = [
    '$OMEGA 0.1\n',
    '$OMEGA 0.1 0.2\n',
    '$OMEGA DIAGONAL(2) 0.1 0.2\n',
    '$OMEGA BLOCK(2) 0.1 0.01 0.2\n',
    '$OMEGA BLOCK(3) 0.1 0.01 0.2 0.02 0.03 0.3\n',
    '$OMEGA BLOCK(2) FIX 0.1 0.01 0.2\n',
    '$OMEGA 0.1 FIX\n',
    '$OMEGA (0.1 FIX)\n',
    '$OMEGA (0.1)x2\n',
    '$OMEGA (0.1 FIX)x2 0.3\n',
    '$OMEGA 0.3 SD\n',
    '$OMEGA 0.3 SD 0.4 SD\n',
    '$OMEGA BLOCK(2) SD CORRELATION 0.3 0.5 0.4\n',
    '$OMEGA BLOCK(2) CHOLESKY 0.3 0.05 0.4\n',
    '$OMEGA BLOCK(2) VARIANCE CORRELATION 0.09 0.5 0.16\n',
    '$OMEGA 0.1 ; IVCL\n 0.2 ; IVV\n',
    '$OMEGA BLOCK(2)\n 0.1 ; IVCL\n 0.01 0.2 ; IVV\n',
    '$SIGMA 0.1\n',
    '$SIGMA BLOCK(2) 0.1 0.01 0.2\n',
    '$OMEGA 0.10 .2\n',                             # odd spelling
    '$OMEGA BLOCK(2) 0.10 1E-2 .2\n',
]
OMEGA_MORE = [
    '$OMEGA BLOCK(2) 0.1 0.01 0.2 FIX\n',
    '$OMEGA BLOCK(2) (0.1 FIX) 0.01 0.2\n',
    '$OMEGA 0.1 0.2 FIX 0.3\n',
    '$OMEGA DIAG(3) 0.1 (0.2)x2\n',
    '$OMEGA BLOCK(2) SD 0.3 0.01 0.4\n',
    '$OMEGA BLOCK(3) SD CORRELATION 0.3 0.5 0.4 0.25 0.125 0.5\n',
    '$OMEGA BLOCK(3) CHOLESKY 0.3 0.05 0.4 0.02 0.03 0.5\n',
    '$OMEGA BLOCK(2) 0.5 (0.25)x2\n',
    '$OMEGA (0.3 SD)\n',
    '$OMEGA (FIX 0.1)\n',
    '$SIGMA 0.1 FIX ; RUV\n',
    '$OMEGA BLOCK(3)\n 0.1\n 0.01 0.2\n 0.02 0.03 0.3\n',
]
OMEGA_LAYOUTS = OMEGA_QUICK + (OMEGA_MORE if TIER == 'thorough' else [])
OL_LO = int(os.environ.get('VH_OLO', '0'))
OL_HI = min(int(os.environ.get('VH_OHI', str(len(OMEGA_LAYOUTS)))), len(OMEGA_LAYOUTS))
O_KMAX = 6           # position in the parameter list of the record (<= 6: BLOCK(3))
O_CHANGES = 4        # 0 none, 1 value, 2 FIX toggle, 3 value + FIX toggle
O_VALS = 4


def _close(a, b):
    return a == b or abs(a - b) <= max(1e-12 * max(abs(a), abs(b)), 1e-15)


def _same_omegas(a, b):
    """lists of (values, fix) per distribution"""
    return len(a) == len(b) and all(fa == fb and len(va) == len(vb) and all(_close(x, y) for x, y in zip(va, vb))
                                    for (va, fa), (vb, fb) in zip(a, b))


def _ref_omegas(payload):
    out = []
    for b in nmref.parse_omega(payload):
        n = b['size']
        fix = b['fix']
        fix = any(fix) if isinstance(fix, (list, tuple)) else bool(fix)
        out.append(([float(b['matrix'][r][c]) for r in range(n) for c in range(r + 1)], fix))
    return out


def _read_omega_record(rec):
    """[(values of the lower triangle row-wise, fix)] per distribution and the flat comment names (= record.parse())"""
    dists, names = [], []
    for nm, inits, fix, same in rec.parse():
        if same:
            raise AssertionError('harness: SAME is outside the table')
        dists.append(([float(x) for x in inits], bool(fix)))
        names += list(nm)
    return dists, names


def _omega_nodes(rec):
    """[(first parameter position, multiplicity, index into root.children)] per value token; is_block"""
    block = any(getattr(c, 'rule', None) in ('block', 'bare_block') for c in rec.root.children)
    out = []
    pos = 0
    for ci, node in enumerate(rec.root.children):
        if node.rule == ('omega' if block else 'diag_item'):
            m = re.search(r'[xX]\s*(\d+)\s*$', str(node))
            n = int(m.group(1)) if m else 1
            out.append((pos, n, ci))
            pos += n
    return out, block


_OMEGA_BASE = {}


def _omega_base(lay):
    if lay not in _OMEGA_BASE:
        text = OMEGA_LAYOUTS[lay]
        rec = create_record(text)
        if str(rec) != text:
            raise AssertionError(f'round trip of {text!r}: {str(rec)!r}')
        old, names = _read_omega_record(rec)
        ref = _ref_omegas(_payload(text))
        if not _same_omegas(ref, old):
            raise AssertionError(f'reading {text!r}: pharmpy {old}, reference reader {ref}')
        nodes, block = _omega_nodes(rec)
        flat = [(v, fx) for vals, fx in old for v in vals]
        if sum(n for _, n, _ in nodes) != len(flat) or len(names) != len(flat):
            raise AssertionError('harness: value tokens do not add up')
        _OMEGA_BASE[lay] = (text, rec, old, names, nodes, block, flat)
    return _OMEGA_BASE[lay]


def _omega_case(lay, k, change, val):
    text, rec, old, names, nodes, block, flat = _omega_base(lay)
    flat = [list(x) for x in flat]
    if k >= len(flat) or (change == 0 and (k > 0 or val > 0)) or (change == 2 and val > 0):
        return None
    if block and change == 2 and k > 0:
        return None
    new = [list(x) for x in flat]
    if change in (1, 3):
        v = flat[k][0]
        if not block or k in (0, 2, 5):         # a variance (diagonal positions of the row-wise lower triangle)
            new[k][0] = [v * 1.5, v + 0.125, 1.0, v * 1.25][val]
        else:                                   # a covariance (the matrix stays positive definite)
            new[k][0] = [v * 0.5, -v, 0.0, v * 0.75][val]
    if change in (2, 3):
        if block:
            for x in new:
                x[1] = not x[1]
        else:
            new[k][1] = not new[k][1]
    return text, rec, old, names, nodes, block, flat, new


def _written(vals, size, sd, corr, chol):
    """requested covariance values (lower triangle row-wise) -> the numbers a record with these scale options holds"""
    A = [[0.0] * size for _ in range(size)]
    it = iter(vals)
    for r in range(size):
        for c in range(r + 1):
            A[r][c] = A[c][r] = next(it)
    if chol:
        L = [[0.0] * size for _ in range(size)]
        for r in range(size):
            for c in range(r + 1):
                s = A[r][c] - sum(L[r][j] * L[c][j] for j in range(c))
                L[r][c] = s ** 0.5 if r == c else s / L[c][c]
        return [L[r][c] for r in range(size) for c in range(r + 1)]
    out = []
    for r in range(size):
        for c in range(r + 1):
            if r == c:
                out.append(A[r][r] ** 0.5 if sd else A[r][r])
            elif corr:
                out.append(A[r][c] / (A[r][r] ** 0.5 * A[c][c] ** 0.5))
            else:
                out.append(A[r][c])
    return out


def _omega_region(rec, block, nodes, flat, new):
    if not block:
        for start, n, ci in nodes:
            if n > 1 and flat[start][1] and len({tuple(x) for x in new[start:start + n]}) > 1:
                return 'omega_split_fixed_repeat'     # a fixed (v FIX)xn item whose members now differ
    return 'main'


def _body_omega_update(lay, k, change, val):
    case = _omega_case(lay, k, change, val)
    if case is None:
        return None
    text, rec, old, names, nodes, block, flat, new = case
    if _omega_region(rec, block, nodes, flat, new) != REGION:
        return None
    params = [Parameter.create(names[i] or f'P_{i + 1}', v, fix=fx) for i, (v, fx) in enumerate(new)]
    out = str(rec.update(params))
    if block:
        want = [([v for v, _ in new], new[0][1])]
    else:
        want = [([v], fx) for v, fx in new]
    what = f'{text!r} -> {want}: generated {out!r}'
    ref = _ref_omegas(_payload(out))                                                    # (a)
    if not _same_omegas(ref, want):
        raise AssertionError(f'{what}, which reads as {ref}')
    back, back_names = _read_omega_record(create_record(out))                            # (b)
    if not _same_omegas(back, want):
        raise AssertionError(f'{what}, which pharmpy reads as {back}')
    if back_names != names:
        raise AssertionError(f'{what}: names {names} became {back_names}')
    unchanged = new == flat
    if unchanged and out != text:                                                        # (c)
        raise AssertionError(f'{what}: nothing was changed but the text differs')
    # (d) a value token may change only when the number it holds (on the scale of the record) changes
    head = text.upper().split('\n')[0]
    sd = block and bool(re.search(r'\b(SD|STANDARD)\b', head))
    corr = block and 'CORR' in head
    chol = block and 'CHOL' in head
    if block:
        size = {3: 2, 6: 3}[len(flat)]
        w_old = _written([v for v, _ in flat], size, sd, corr, chol)
        w_new = _written([v for v, _ in new], size, sd, corr, chol)
        fix_changed = new[0][1] != flat[0][1]
    else:
        w_old, w_new = [v for v, _ in flat], [v for v, _ in new]
        fix_changed = False
    chunks = [rec.raw_name]
    by_child = {ci: (start, n) for start, n, ci in nodes}
    for ci, node in enumerate(rec.root.children):
        if ci in by_child:
            s, n = by_child[ci]
            same_num = all(_close(a, b) for a, b in zip(w_old[s:s + n], w_new[s:s + n]))
            same_fix = block or [fx for _, fx in flat[s:s + n]] == [fx for _, fx in new[s:s + n]]
            if same_num and same_fix and not (fix_changed and 'FIX' in str(node).upper()):
                chunks.append(str(node))
            else:
                chunks.append(None)
        elif block and fix_changed and (node.rule in ('block', 'FIX', 'WS')):
            chunks.append(None)             # the record-level FIX goes next to BLOCK(n)
        else:
            chunks.append(str(node))
    if not _match_skeleton(chunks, out):
        raise AssertionError(f'{what}: text outside the changed values was not kept (spelling / comments)')
    return True


def omega_update(lay: int, k: int, change: int, val: int) -> bool:
    """
    pre: OL_LO <= lay < OL_HI and 0 <= k < O_KMAX and 0 <= change < O_CHANGES and 0 <= val < O_VALS
    post: _ in (True, None)
    """
    codes = [_pick(lay, OL_LO, OL_HI), _pick(k, 0, O_KMAX), _pick(change, 0, O_CHANGES), _pick(val, 0, O_VALS)]
    with _NoTracing():
        return _body_omega_update(*codes)


def omega_update__twin(lay: int, k: int, change: int, val: int) -> bool:
    """
    pre: OL_LO <= lay < OL_HI and 0 <= k < O_KMAX and 0 <= change < O_CHANGES and 0 <= val < O_VALS
    post: _ == True
    """
    codes = [_pick(lay, OL_LO, OL_HI), _pick(k, 0, O_KMAX), _pick(change, 0, O_CHANGES), _pick(val, 0, O_VALS)]
    with _NoTracing():
        return _body_omega_update(*codes) is not True


# ---- OmegaRecord.remove (DIAGONAL records: the only use in update_random_variable_records) ---------------------------
O_MASKS = 8


def _body_omega_remove(lay, mask):
    text, rec, old, names, nodes, block, _ = _omega_base(lay)
    if block or mask >= 2 ** len(old) - 1:
        return None
    inds, kept, region, untouched = _remove_plan(nodes, len(old), mask)
    region = region.replace('remove_', 'omega_remove_')
    if region != REGION:
        return None
    newrec = rec.remove([(j, 0) for j in inds])
    out = str(newrec)
    want = [old[j] for j in kept]
    what = f'{text!r} without etas {[j + 1 for j in inds]}: generated {out!r}'
    ref = _ref_omegas(_payload(out))
    if not _same_omegas(ref, want):
        raise AssertionError(f'{what}, which reads as {ref} instead of {want}')
    rr = create_record(out)
    back, back_names = _read_omega_record(rr)
    if not _same_omegas(back, want):
        raise AssertionError(f'{what}, which pharmpy reads as {back} instead of {want}')
    if back_names != [names[j] for j in kept]:
        raise AssertionError(f'{what}: names {[names[j] for j in kept]} became {back_names}')
    if len(newrec) != len(want):
        raise AssertionError(f'{what}: len() of the new record is {len(newrec)}')
    if not inds and out != text:
        raise AssertionError(f'{what}: nothing removed but the text differs')
    if text.endswith('\n') and not out.rstrip(' \t').endswith('\n'):
        raise AssertionError(f'{what}: the line break ending the record is gone (the next record is glued to this line)')
    spell = [str(rec.root.children[ci]) for ci in untouched]
    after = [str(n) for n in rr.root.subtrees('diag_item')]
    it = iter(after)
    if not all(any(s == t for t in it) for s in spell):
        raise AssertionError(f'{what}: spelling of the remaining values {spell} became {after}')
    return True


def omega_remove(lay: int, mask: int) -> bool:
    """
    pre: OL_LO <= lay < OL_HI and 0 <= mask < O_MASKS
    post: _ in (True, None)
    """
    codes = [_pick(lay, OL_LO, OL_HI), _pick(mask, 0, O_MASKS)]
    with _NoTracing():
        return _body_omega_remove(*codes)


def omega_remove__twin(lay: int, mask: int) -> bool:
    """
    pre: OL_LO <= lay < OL_HI and 0 <= mask < O_MASKS
    post: _ == True
    """
    codes = [_pick(lay, OL_LO, OL_HI), _pick(mask, 0, O_MASKS)]
    with _NoTracing():
        return _body_omega_remove(*codes) is not True


# warm up the lark parsers outside any analysis, read the tables once, and tighten the index ranges to the layouts this
# process is pinned to (k beyond the tokens of the layout would only give "not applicable" paths)
for _t in (THETA_LAYOUTS[0], OMEGA_LAYOUTS[0], OMEGA_LAYOUTS[3]):
    create_record(_t)
try:
    T_KMAX = max([len(_theta_base(_l)[4]) + 1 for _l in range(TL_LO, TL_HI)] + [1])
    T_MASKS = max([2 ** len(_theta_base(_l)[2]) - 1 for _l in range(TL_LO, TL_HI)] + [1])
    O_KMAX = max([len(_omega_base(_l)[6]) for _l in range(OL_LO, OL_HI)] + [1])
    O_MASKS = max([2 ** len(_omega_base(_l)[2]) - 1 for _l in range(OL_LO, OL_HI) if not _omega_base(_l)[5]] + [1])
except Exception:       # a record of the table is not read as expected: keep the wide ranges, the obligations report it
    pass
