"""C11 — concrete companion probe (sampling, not a solver verdict): RandomVariables.parameters_sdcorr goes through a
symengine substitution and cannot run on z3 terms (its numeric kernel cov2corr is decided symbolically in
checks/C11_conv.py).  On a fixed family of collections - single variances, joint blocks of size 2 and 3, one variance
parameter shared by several distributions (IOV / SAME), parameters that are not variances - the sd/corr form of every
parameter must be sqrt(variance) / cov_ij/(sd_i sd_j), computed here from the harness's own table, and squaring /
re-multiplying must give back the input values."""
import math
import warnings

warnings.simplefilter('ignore')


def _collections():
    from pharmpy.model import JointNormalDistribution as J, NormalDistribution as N, RandomVariables as RVS
    out = []
    # (rvs, values, expected)
    vals = {'OA': 0.09, 'OB': 0.25, 'OC': 1.44, 'THETA': 3.0}
    out.append((RVS.create([N.create('ETA_1', 'IIV', 0, 'OA'), N.create('ETA_2', 'IIV', 0, 'OB'),
                            N.create('EPS_1', 'RUV', 0, 'OC')]), vals,
                {'OA': 0.3, 'OB': 0.5, 'OC': 1.2, 'THETA': 3.0}))
    v2 = {'V1': 0.04, 'C21': 0.012, 'V2': 0.09, 'S': 0.01}
    out.append((RVS.create([J.create(['ETA_1', 'ETA_2'], 'IIV', [0, 0], [['V1', 'C21'], ['C21', 'V2']]),
                            N.create('EPS_1', 'RUV', 0, 'S')]), v2,
                {'V1': 0.2, 'V2': 0.3, 'C21': 0.012 / (0.2 * 0.3), 'S': 0.1}))
    v3 = {'A': 4.0, 'B': 9.0, 'C': 16.0, 'BA': -1.5, 'CA': 2.0, 'CB': 0.0}
    out.append((RVS.create([J.create(['ETA_1', 'ETA_2', 'ETA_3'], 'IIV', [0, 0, 0],
                                     [['A', 'BA', 'CA'], ['BA', 'B', 'CB'], ['CA', 'CB', 'C']])]), v3,
                {'A': 2.0, 'B': 3.0, 'C': 4.0, 'BA': -1.5 / 6.0, 'CA': 2.0 / 8.0, 'CB': 0.0}))
    # one variance parameter shared by several distributions (inter-occasion variability, SAME)
    vs = {'OIOV': 0.0625, 'OA': 0.09}
    out.append((RVS.create([N.create('ETA_1', 'IIV', 0, 'OA'), N.create('ETA_IOV_1', 'IOV', 0, 'OIOV'),
                            N.create('ETA_IOV_2', 'IOV', 0, 'OIOV'), N.create('ETA_IOV_3', 'IOV', 0, 'OIOV')]), vs,
                {'OIOV': 0.25, 'OA': 0.3}))
    vj = {'V1': 0.04, 'C21': 0.012, 'V2': 0.09}
    out.append((RVS.create([J.create(['ETA_IOV_1', 'ETA_IOV_2'], 'IOV', [0, 0], [['V1', 'C21'], ['C21', 'V2']]),
                            J.create(['ETA_IOV_3', 'ETA_IOV_4'], 'IOV', [0, 0], [['V1', 'C21'], ['C21', 'V2']])]), vj,
                {'V1': 0.2, 'V2': 0.3, 'C21': 0.012 / (0.2 * 0.3)}))
    two_eps = {'SIG': 0.49}
    out.append((RVS.create([N.create('EPS_1', 'RUV', 0, 'SIG'), N.create('EPS_2', 'RUV', 0, 'SIG')]), two_eps,
                {'SIG': 0.7}))
    return out


def sdcorr():
    bad = []
    for k, (rvs, values, want) in enumerate(_collections()):
        before = dict(values)
        got = rvs.parameters_sdcorr(values)
        if dict(values) != before:
            bad.append(f'collection {k}: the input dict was modified')
        if set(got) != set(want):
            bad.append(f'collection {k}: keys {sorted(got)}')
            continue
        for name, w in want.items():
            g = float(got[name])
            if not math.isclose(g, w, rel_tol=1e-12, abs_tol=1e-15):
                bad.append(f'collection {k}: {name} = {g}, sd/corr form is {w}')
    # on the example model: sd**2 gives back the variance
    from pharmpy.modeling import load_example_model
    m = load_example_model('pheno')
    inits = m.parameters.inits
    sd = m.random_variables.parameters_sdcorr(inits)
    for p in m.random_variables.parameter_names:
        if not math.isclose(float(sd[p]) ** 2, inits[p], rel_tol=1e-12):
            bad.append(f'pheno: {p}')
    for p in inits:
        if p not in m.random_variables.parameter_names and sd[p] != inits[p]:
            bad.append(f'pheno: non-variance parameter {p} changed')
    if bad:
        raise AssertionError('; '.join(bad[:5]))
    return True


if __name__ == '__main__':
    print(sdcorr())
