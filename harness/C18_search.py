"""C18 (c) — candidate enumeration of the modelsearch and iivsearch builders, read off the built workflows (nothing
is fitted, NONMEM is never started).

The search space is a symbolic choice: an index into the table of ALL subsets of a small universe of feature keys
(modelsearch), or into tables of `keep` sets / base-model variants (iivsearch); one solver-decided path per value, the
builder then runs on concrete data with tracing suspended.  The feature functions are the real ones returned by
`ModelFeatures.convert_to_funcs()`, ordered the way `modelsearch.tool.filter_mfl_statements` orders them.

Reference (written from docs/modelsearch.rst, independent of `_is_allowed`):
  exhaustive          : one candidate per non-empty choice of at most one feature per category, each once
  exhaustive_stepwise : one candidate per non-empty path; a path adds one feature per step, never repeats a category,
                        adds peripheral compartments one at a time in increasing order starting from the smallest count of
                        the space, and never joins a documented excluded pair
  reduced_stepwise    : as above, but models with the same feature set are merged after each layer: one candidate per
                        (reached feature set, allowed next feature)
  candidate names are unique.
"""
import itertools
import os
import warnings
from collections import Counter

warnings.simplefilter('ignore')

from C18_mfl import _NoTracing, _pick  # noqa: E402  (also disables CrossHair short-circuiting)
from pharmpy.modeling import (  # noqa: E402
    add_peripheral_compartment,
    add_pk_iiv,
    create_joint_distribution,
    fix_parameters,
    load_example_model,
)
from pharmpy.tools.iivsearch import algorithms as IIV  # noqa: E402
from pharmpy.tools.mfl.helpers import key_to_str  # noqa: E402
from pharmpy.tools.mfl.parse import parse  # noqa: E402
from pharmpy.tools.modelsearch import algorithms as MS  # noqa: E402

ALGO = os.environ.get('VH_ALGO', 'exhaustive')
REGION = os.environ.get('VH_REGION', 'main')
UNIVERSE = os.environ.get('VH_UNIVERSE', 'u6')

_SPACES = dict(
    # two absorption options, a two-step peripheral chain, lag time, one transit count: all six documented exclusion
    # rows that do not need INST are reachable
    u6='ABSORPTION([ZO,SEQ-ZO-FO]);PERIPHERALS(1..2);LAGTIME(ON);TRANSITS(1)',
    u8='ABSORPTION([ZO,SEQ-ZO-FO]);ELIMINATION(MM);PERIPHERALS(1..2);LAGTIME(ON);TRANSITS([1,3])',
    # three peripheral counts: region of finding stepwise_peripheral_skip
    p3='ABSORPTION(ZO);PERIPHERALS(1..3)',
    # a base model WITH lag time and first-order absorption: switching the lag time OFF and instantaneous absorption
    # are search features (the documented exclusions name LAGTIME(ON) only)
    off6='ABSORPTION([ZO,SEQ-ZO-FO,INST]);PERIPHERALS(1);LAGTIME(OFF);TRANSITS(1)',
)
_BASE = {('ABSORPTION', 'INST'), ('ELIMINATION', 'FO'), ('TRANSITS', 0, 'DEPOT'), ('PERIPHERALS', 0), ('LAGTIME', 'OFF')}
if UNIVERSE == 'off6':
    _BASE = {('ABSORPTION', 'FO'), ('ELIMINATION', 'FO'), ('TRANSITS', 0, 'DEPOT'), ('PERIPHERALS', 0), ('LAGTIME', 'ON')}
_all = parse(_SPACES[UNIVERSE], mfl_class=True).convert_to_funcs()
# what the tool hands to the algorithms: the space minus the base model's own features, sorted by (category, option)
FUNCS = {k: v for k, v in sorted(((k, v) for k, v in _all.items() if k not in _BASE), key=lambda x: (x[0][0], x[0][1]))}
KEYS = list(FUNCS)
SUBSETS = [c for r in range(len(KEYS) + 1) for c in itertools.combinations(range(len(KEYS)), r)]
NS = len(SUBSETS)

# docs/modelsearch.rst "Feature combination exclusions" (prefix patterns)
DOC_EXCLUDED = [(('ABSORPTION', 'ZO'), ('TRANSITS',)), (('ABSORPTION', 'SEQ-ZO-FO'), ('TRANSITS',)),
                (('ABSORPTION', 'SEQ-ZO-FO'), ('LAGTIME', 'ON')), (('ABSORPTION', 'INST'), ('LAGTIME', 'ON')),
                (('ABSORPTION', 'INST'), ('TRANSITS',)), (('LAGTIME', 'ON'), ('TRANSITS',))]


def _m(key, pat):
    return key[:len(pat)] == pat


def _allowed(f, prev, keys):
    if f in prev:
        return False
    if f[0] == 'PERIPHERALS':
        ns = sorted(k[1] for k in keys if k[0] == 'PERIPHERALS')
        done = sorted(k[1] for k in prev if k[0] == 'PERIPHERALS')
        return f[1] == ns[len(done)] and done == ns[:len(done)]     # one compartment at a time, increasing
    if any(p[0] == f[0] for p in prev):
        return False                                                # one feature per category on a path
    for a, b in DOC_EXCLUDED:
        if any((_m(f, a) and _m(p, b)) or (_m(f, b) and _m(p, a)) for p in prev):
            return False
    return True


def _ref_paths(keys):
    out = []

    def rec(path):
        for f in keys:
            if _allowed(f, path, keys):
                out.append(tuple(path) + (f,))
                rec(path + [f])
    rec([])
    return out


def _ref_reduced(keys):
    """(candidates as (frozenset(previous), feature), whether some layer has exactly ONE mergeable group)."""
    out = []
    single_group = False
    layer = [()]                      # paths of the current layer after merging (one representative per feature set)
    while True:
        nxt = []
        for path in layer:
            for f in keys:
                if _allowed(f, list(path), keys):
                    nxt.append(path + (f,))
        if not nxt:
            break
        out += [(frozenset(p[:-1]), p[-1]) for p in nxt]
        groups = Counter(frozenset(p) for p in nxt)
        mergeable = [s for s, n in groups.items() if n > 1 and any(_allowed(f, list(s), keys) for f in keys)]
        if len(mergeable) == 1:
            single_group = True
        seen = set()
        layer = []
        for p in nxt:
            if frozenset(p) not in seen:
                seen.add(frozenset(p))
                layer.append(p)
    return out, single_group


def _ref_combinations(keys):
    cats = []
    for k in keys:
        if k[0] not in cats:
            cats.append(k[0])
    out = []
    for choice in itertools.product(*[[None] + [k for k in keys if k[0] == c] for c in cats]):
        combo = tuple(k for k in choice if k is not None)
        if combo:
            out.append(frozenset(combo))
    return out


def _region_search(keys):
    if ALGO in ('exhaustive_stepwise', 'reduced_stepwise') and sum(1 for k in keys if k[0] == 'PERIPHERALS') >= 3:
        return 'stepwise_peripheral_skip'   # _is_allowed_peripheral lets PERIPHERALS(3) follow PERIPHERALS(1)
    if ALGO == 'reduced_stepwise' and _ref_reduced(keys)[1]:
        return 'reduced_single_group'       # `if len(groups) > 1`: a single same-feature group is never merged
    return 'main'


def _body_search(s):
    keys = [KEYS[i] for i in SUBSETS[s]]
    if _region_search(keys) != REGION:
        return None
    funcs = {k: FUNCS[k] for k in keys}
    names = {key_to_str(k): k for k in keys}
    if ALGO == 'exhaustive':
        wf, model_tasks = MS.exhaustive(funcs, 'no_add')
        cands = [t for t in wf.tasks if t.name == 'create_candidate']
        got = [frozenset(t.task_input[1]) for t in cands]
        if any(len(t.task_input[1]) != len(set(t.task_input[1])) for t in cands):
            raise AssertionError('a feature twice in one combination')
        want = _ref_combinations(keys)
    else:
        build = MS.exhaustive_stepwise if ALGO == 'exhaustive_stepwise' else MS.reduced_stepwise
        wf, model_tasks = build(funcs, 'no_add')
        cands = [t for t in wf.tasks if t.name in names]
        if any(t.task_input[1] != names[t.name] or t.task_input[2] is not funcs[names[t.name]] for t in cands):
            raise AssertionError('candidate task does not carry the feature it is named after')
        ups = [[names[u.name] for u in reversed(wf.get_upstream_tasks(t)) if u.name in names] for t in cands]
        if ALGO == 'exhaustive_stepwise':
            got = [tuple(u) + (names[t.name],) for u, t in zip(ups, cands)]
            want = _ref_paths(keys)
        else:
            got = [(frozenset(u), names[t.name]) for u, t in zip(ups, cands)]
            want = _ref_reduced(keys)[0]
    if Counter(got) != Counter(want):
        miss = [x for x in want if x not in got][:2]
        extra = [x for x in got if x not in want][:2]
        dup = [x for x, n in Counter(got).items() if n > 1][:2]
        raise AssertionError(f'{ALGO}: missing {miss} extra {extra} duplicated {dup}')
    mnames = [t.task_input[0] for t in cands]
    if len(set(mnames)) != len(mnames) or len(model_tasks) != len(cands):
        raise AssertionError('candidate names not unique / model task list does not match the candidates')
    return True


def search_ok(s: int) -> bool:
    """
    pre: 0 <= s < NS
    post: _ in (True, None)
    """
    c = _pick(s, 0, NS)
    with _NoTracing():
        return _body_search(c)


def search_ok__twin(s: int) -> bool:
    """
    pre: 0 <= s < NS
    post: _ == True
    """
    c = _pick(s, 0, NS)
    with _NoTracing():
        return _body_search(c) is not True


# ---- helper rule in isolation: _is_allowed(feature, func, previous features) for every previous SET and feature ---------
TERN = list(itertools.product(range(3), repeat=len(KEYS)))   # per key: 0 not in the space, 1 in the space, 2 also applied
NT = len(TERN)
T_LO = int(os.environ.get('VH_TLO', '0'))
T_HI = int(os.environ.get('VH_THI', str(NT)))


def _body_allowed(t, f):
    keys = [k for k, c in zip(KEYS, TERN[t]) if c >= 1]
    prevset = [k for k, c in zip(KEYS, TERN[t]) if c == 2]
    if f >= len(keys) or sum(1 for k in keys if k[0] == 'PERIPHERALS') >= 3:
        return None
    funcs = {k: FUNCS[k] for k in keys}
    feat = keys[f]
    done = False
    # every order of the previous feature set that is itself a legal path (what _get_previous_features can return)
    for prev in itertools.permutations(prevset):
        if not all(_allowed(prev[i], list(prev[:i]), keys) for i in range(len(prev))):
            continue
        done = True
        if bool(MS._is_allowed(feat, funcs[feat], list(prev), funcs)) != _allowed(feat, list(prev), keys):
            raise AssertionError(f'_is_allowed({feat}, previous={prev}) disagrees with the documented rules')
    return True if done else None


def allowed_ok(t: int, f: int) -> bool:
    """
    pre: T_LO <= t < T_HI and 0 <= f < len(KEYS)
    post: _ in (True, None)
    """
    c = [_pick(t, T_LO, T_HI), _pick(f, 0, len(KEYS))]
    with _NoTracing():
        return _body_allowed(*c)


def allowed_ok__twin(t: int, f: int) -> bool:
    """
    pre: T_LO <= t < T_HI and 0 <= f < len(KEYS)
    post: _ == True
    """
    c = [_pick(t, T_LO, T_HI), _pick(f, 0, len(KEYS))]
    with _NoTracing():
        return _body_allowed(*c) is not True


# ---- iivsearch brute-force builders -----------------------------------------------------------------------------------
def _iiv_models():
    pheno = load_example_model('pheno')
    m4 = add_pk_iiv(add_peripheral_compartment(pheno))       # ETA_CL, ETA_VC, ETA_QP1, ETA_VP1 (diagonal)
    e = ['ETA_CL', 'ETA_VC', 'ETA_QP1', 'ETA_VP1']
    tab = [(m4, [(x,) for x in e], []),
           (create_joint_distribution(m4, e[:2], individual_estimates=None), [tuple(e[:2]), (e[2],), (e[3],)], []),
           (create_joint_distribution(m4, e[:3], individual_estimates=None), [tuple(e[:3]), (e[3],)], []),
           (create_joint_distribution(m4, e, individual_estimates=None), [tuple(e)], []),
           (fix_parameters(m4, ['IIV_QP1']), [(e[0],), (e[1],), (e[3],)], [e[2]]),
           (fix_parameters(create_joint_distribution(m4, e[:2], individual_estimates=None), ['IIV_VP1']),
            [tuple(e[:2]), (e[2],)], [e[3]]),
           (pheno, [('ETA_CL',), ('ETA_VC',)], [])]
    return tab


IIV_T = _iiv_models()
NB = len(IIV_T)
PARAMS = ['CL', 'VC', 'QP1', 'VP1']
KEEP_T = [list(c) for r in range(len(PARAMS) + 1) for c in itertools.combinations(PARAMS, r)]   # by size
NKEEP = int(os.environ.get('VH_NKEEP', len(KEEP_T)))      # quick: the first 5 (sizes 0 and 1)
OFFSETS = [0, 3, 17][:int(os.environ.get('VH_NOFF', '3'))]
B_LO = int(os.environ.get('VH_BLO', '0'))
B_HI = int(os.environ.get('VH_BHI', str(len(IIV_T))))


def _set_partitions(xs):
    if not xs:
        return [[]]
    out = []
    for p in _set_partitions(xs[1:]):
        out.append([[xs[0]]] + p)
        for i in range(len(p)):
            out.append(p[:i] + [[xs[0]] + p[i]] + p[i + 1:])
    return out


def _body_iiv(b, k, o):
    model, structure, fixed = IIV_T[b]
    free = [x for part in structure for x in part]
    offset = OFFSETS[o]
    if ALGO == 'no_of_etas':
        keep = KEEP_T[k]
        wf = IIV.td_exhaustive_no_of_etas(model, index_offset=offset, keep=keep)
        cands = [t for t in wf.tasks if t.name == 'candidate_entry']
        removable = [x for x in free if x[4:] not in keep]
        want = [frozenset(c) for r in range(1, len(removable) + 1) for c in itertools.combinations(removable, r)]
        got = [frozenset(t.task_input[1]) for t in cands]
        if any(len(t.task_input[1]) != len(set(t.task_input[1])) for t in cands):
            raise AssertionError('an eta twice in one candidate')
    else:
        if k != 0:
            return None
        wf = IIV.td_exhaustive_block_structure(model, index_offset=offset)
        cands = [t for t in wf.tasks if t.name == 'candidate_entry']
        own = frozenset(frozenset(p) for p in structure)
        want = [q for q in (frozenset(frozenset(p) for p in part) for part in _set_partitions(free)) if q != own]
        got = []
        for t in cands:
            flat = [x for part in t.task_input[1] for x in part]
            if sorted(flat) != sorted(free):
                raise AssertionError(f'{t.task_input[1]} is not a partition of the free etas {free}')
            got.append(frozenset(frozenset(p) for p in t.task_input[1]))
    if Counter(got) != Counter(want):
        raise AssertionError(f'{ALGO}: {len(got)} candidates, {len(set(got))} distinct, expected {len(want)}')
    names = [t.task_input[0] for t in cands]
    if len(set(names)) != len(names) or any(not n.startswith('iivsearch_run') for n in names):
        raise AssertionError('candidate names not unique')
    if sorted(int(n[len('iivsearch_run'):]) for n in names) != list(range(offset + 1, offset + len(names) + 1)):
        raise AssertionError('candidate numbering does not continue after index_offset')
    return True


def iiv_ok(b: int, k: int, o: int) -> bool:
    """
    pre: B_LO <= b < B_HI and 0 <= k < NKEEP and 0 <= o < len(OFFSETS)
    post: _ in (True, None)
    """
    c = [_pick(b, B_LO, B_HI), _pick(k, 0, NKEEP), _pick(o, 0, len(OFFSETS))]
    with _NoTracing():
        return _body_iiv(*c)


def iiv_ok__twin(b: int, k: int, o: int) -> bool:
    """
    pre: B_LO <= b < B_HI and 0 <= k < NKEEP and 0 <= o < len(OFFSETS)
    post: _ == True
    """
    c = [_pick(b, B_LO, B_HI), _pick(k, 0, NKEEP), _pick(o, 0, len(OFFSETS))]
    with _NoTracing():
        return _body_iiv(*c) is not True
