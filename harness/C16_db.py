"""C16 — the REAL protocol code of LocalModelDirectoryDatabase (transaction / snapshot / store_model / retrieve_model)
executed under CrossHair over an in-memory file system, with the crash point, the workload and the dataset sharing
symbolic.  The process "dies" (Crash, a BaseException) immediately BEFORE the k-th file-system operation; every file
write is two operations (create empty, then fill), so a crash between them leaves a torn (empty) file.

Stubs (contract models, installed by rebinding names in the pharmpy module): pathlib methods -> MemFS; write_csv,
write_model, DataInfo.to_json/read_json, Model.parse_model, ModelHash, ModelEntry -> token-level models (a model is a
token with a dataset token); path_lock -> nullcontext (serialisation of transactions is what C15 establishes).
"""
import contextlib
import os
import pathlib

import pharmpy.workflows.model_database.baseclass as bc
import pharmpy.workflows.model_database.local_directory as ld
from pharmpy.workflows.model_entry import ModelEntry as _RealME

KMAX = int(os.environ.get('VH_KMAX', '30'))
PIN_A = int(os.environ.get('VH_A', '0'))
PIN_B = int(os.environ.get('VH_B', '0'))
KLO = int(os.environ.get('VH_KLO', '1'))


class Crash(BaseException):
    pass


class MemFS:
    def __init__(self, crash_at):
        self.dirs = {'/db'}
        self.files = {}
        self.n = 0
        self.crash_at = crash_at

    def op(self):
        self.n += 1
        if self.n == self.crash_at:
            raise Crash()


FS = MemFS(-1)
P = pathlib.PosixPath


def _mkdir(self, mode=0o777, parents=False, exist_ok=False):
    s = str(self)
    if s in FS.dirs:
        if exist_ok:
            return
        raise FileExistsError(s)
    parent = s.rsplit('/', 1)[0]
    if not parents and parent not in FS.dirs:
        raise FileNotFoundError(s)
    FS.op()
    parts = s.split('/')
    for i in range(2, len(parts) + 1):
        FS.dirs.add('/'.join(parts[:i]))


def _touch(self, mode=0o666, exist_ok=True):
    s = str(self)
    if s in FS.files:
        if exist_ok:
            return
        raise FileExistsError(s)
    if s.rsplit('/', 1)[0] not in FS.dirs:
        raise FileNotFoundError(s)
    FS.op()
    FS.files[s] = ''


def _exists(self):
    return str(self) in FS.files or str(self) in FS.dirs


def _is_file(self):
    return str(self) in FS.files


def _is_dir(self):
    return str(self) in FS.dirs


def _unlink(self, missing_ok=False):
    s = str(self)
    if s not in FS.files:
        if missing_ok:
            return
        raise FileNotFoundError(s)
    FS.op()
    del FS.files[s]


def _iterdir(self):
    s = str(self) + '/'
    if str(self) not in FS.dirs:
        raise FileNotFoundError(str(self))
    names = sorted({k[len(s):].split('/')[0] for k in list(FS.files) + list(FS.dirs) if k.startswith(s)})
    return iter([self / n for n in names])


def _glob(self, pattern):
    import fnmatch
    return iter([p for p in _iterdir(self) if fnmatch.fnmatchcase(p.name, pattern)])


for _name, _fn in dict(mkdir=_mkdir, touch=_touch, exists=_exists, is_file=_is_file, is_dir=_is_dir, unlink=_unlink,
                       iterdir=_iterdir, glob=_glob).items():
    setattr(P, _name, _fn)


def _write(path, content):
    s = str(path)
    if s.rsplit('/', 1)[0] not in FS.dirs:
        raise FileNotFoundError(s)
    FS.op()
    FS.files[s] = ''          # created / truncated
    FS.op()
    FS.files[s] = content     # filled


class DI:
    def __init__(self, tok, path=None):
        self.tok = tok
        self.path = path

    def replace(self, path=None):
        return DI(self.tok, path)

    def __eq__(self, o):
        return isinstance(o, DI) and self.tok == o.tok

    def to_json(self, path):
        _write(path, ('di', self.tok, str(self.path)))


class Mod:
    filename_extension = '.mod'

    def __init__(self, tok, dtok, di=None):
        self.tok = tok
        self.dtok = dtok
        self.datainfo = di or DI(dtok)

    def replace(self, datainfo=None):
        return Mod(self.tok, self.dtok, datainfo)


class ME(_RealME):
    def __init__(self, m):
        self._m = m

    @property
    def model(self):
        return self._m

    @property
    def modelfit_results(self):
        return None


class Key:
    def __new__(cls, obj):
        if isinstance(obj, Key):
            return obj
        m = obj.model if isinstance(obj, ME) else obj
        self = object.__new__(cls)
        self.s = 'K%d' % m.tok
        self.dataset_hash = 'H%d' % m.dtok
        return self

    def __str__(self):
        return self.s


def _read_json(path):
    v = FS.files.get(str(path))
    if v is None:
        raise FileNotFoundError(str(path))
    if v == '':
        raise ValueError('torn datainfo file (JSONDecodeError)')
    return DI(v[1], v[2])


class _ModelShim:
    @staticmethod
    def parse_model(path):
        v = FS.files.get(str(path))
        if v is None:
            raise FileNotFoundError(str(path))
        return v      # raw content: the harness judges completeness


def _write_csv(model, path=None, force=False):
    _write(path, ('csv', model.dtok))
    return model


def _write_model(model, path, force=False):
    _write(path, ('model', model.tok, str(model.datainfo.path)))


ld.DataInfo = type('DIshim', (), {'read_json': staticmethod(_read_json)})
ld.write_csv = _write_csv
ld.write_model = _write_model
ld.path_lock = lambda *a, **k: contextlib.nullcontext()
ld.path_absolute = lambda p: p
ld.ModelHash = Key
ld.Model = _ModelShim
ld.get_modelfit_results = lambda *a, **k: None
bc.ModelHash = Key


def _db():
    db = ld.LocalModelDirectoryDatabase.__new__(ld.LocalModelDirectoryDatabase)
    db.path = pathlib.PosixPath('/db')
    db.file_extension = '.mod'
    return db


def _store(db, m):
    with db.transaction(ME(m)) as txn:
        txn.store_model()


def _retrieve(db, m):
    with db.snapshot(ME(m)) as sn:
        return sn.retrieve_model()


def _complete(m, content):
    """a retrieved entry is faithful: complete model file whose dataset and datainfo files are complete and are the
    model's dataset."""
    if not (isinstance(content, tuple) and content[0] == 'model' and content[1] == m.tok):
        return False
    data_path = content[2]
    if FS.files.get(data_path) != ('csv', m.dtok):
        return False
    di = FS.files.get(data_path[:-4] + '.datainfo')
    return isinstance(di, tuple) and di[0] == 'di' and di[1] == m.dtok


def crash_workload(k: int, a: int, b: int, share2: bool, share3: bool, restore_first: bool) -> bool:
    """
    Phase 1: store model a, then model b (a, b in 1..3, possibly the same key), crash before the k-th FS operation
    (if the workload has fewer operations nothing crashes).  Models 2 / 3 share model 1's dataset iff share2 / share3.
    Phase 2 (fresh database object, same file system): every model is stored again and retrieved.
    pre: KLO <= k <= KMAX and 1 <= a <= 3 and 1 <= b <= 3
    pre: (PIN_A == 0 or a == PIN_A) and (PIN_B == 0 or b == PIN_B)
    post: _ == True
    """
    global FS
    FS = MemFS(k)
    models = {1: Mod(1, 1), 2: Mod(2, 1 if share2 else 2), 3: Mod(3, 1 if share3 else 3)}
    db = _db()
    committed = []
    crashed_in = None
    current = None
    try:
        for x in (a, b):
            current = x
            _store(db, models[x])
            committed.append(x)
        current = None
    except Crash:
        crashed_in = current
    except ld.PendingTransactionError:
        return False        # nothing is pending before the crash
    FS.crash_at = -1
    # --- restart ---
    db = _db()
    # (1) readers: never a partial entry as if complete; committed entries intact
    for x in (1, 2, 3):
        try:
            got = _retrieve(db, models[x])
        except ld.PendingTransactionError:
            if x in committed and x != crashed_in:
                return False
            continue
        except KeyError:
            if x in committed:
                return False
            continue
        if not _complete(models[x], got):
            return False
    # (2) subsequent stores: every key that was not mid-transaction must be storable (also when it shares the crashed
    #     model's dataset); the crashed key may be refused (PendingTransactionError) but must never be published torn
    order = (1, 2, 3) if restore_first else (3, 2, 1)
    for x in order:
        try:
            _store(db, models[x])
        except ld.PendingTransactionError:
            if x != crashed_in:
                return False
            continue
        try:
            got = _retrieve(db, models[x])
        except (ld.PendingTransactionError, KeyError):
            return False
        if not _complete(models[x], got):
            return False
    return True


def crash_workload__twin(k: int, a: int, b: int, share2: bool, share3: bool, restore_first: bool) -> bool:
    """
    pre: KLO <= k <= KMAX and 1 <= a <= 3 and 1 <= b <= 3
    pre: (PIN_A == 0 or a == PIN_A) and (PIN_B == 0 or b == PIN_B)
    pre: k == 9
    post: _ == True
    """
    return not crash_workload(k, a, b, share2, share3, restore_first)


NMAX = int(os.environ.get('VH_NMAX', '12'))


def _pick(x, lo, hi):
    while hi - lo > 1:
        mid = (lo + hi) // 2
        if x < mid:
            hi = mid
        else:
            lo = mid
    return lo


def _many_body(n, again):
    global FS
    FS = MemFS(-1)
    models = {i: Mod(i, 100 + i) for i in range(1, n + 1)}
    for i in range(1, n + 1):
        _store(_db(), models[i])
        if not _complete(models[i], _retrieve(_db(), models[i])):
            return False
    _store(_db(), models[again])
    csvs = [k for k in FS.files if k.startswith('/db/.datasets/data') and k.endswith('.csv')]
    if len(csvs) != n:
        return False
    for j in range(1, n + 1):
        if not _complete(models[j], _retrieve(_db(), models[j])):
            return False
    return True


def many_datasets(n: int, again: int) -> bool:
    """
    n models with pairwise different datasets are stored one after the other (a fresh database object each time, no
    crash); then model `again` is stored a second time.  Every committed entry must still be retrievable with its own
    dataset (shared dataset files are numbered, data1.csv ... dataN.csv: a new dataset never takes the file of an
    earlier one, also beyond nine).  n and again are fixed per path by bisection; the real protocol code then runs
    on the in-memory file system outside tracing.
    pre: 1 <= n <= NMAX and 1 <= again <= n
    post: _ == True
    """
    try:
        from crosshair.tracers import NoTracing
    except ImportError:
        import contextlib as _c
        NoTracing = _c.nullcontext
    cn = _pick(n, 1, NMAX + 1)
    ca = _pick(again, 1, cn + 1)
    with NoTracing():
        return _many_body(cn, ca)


def many_datasets__twin(n: int, again: int) -> bool:
    """
    pre: 1 <= n <= NMAX and 1 <= again <= n
    post: _ == True
    """
    return not many_datasets(n, again)


# ---------------------------------------------------------------------------------------------------------------
# results of an entry: the latest committed results are what a reader gets

class Res:
    def __init__(self, tok):
        self.tok = tok

    def to_json(self, path):
        _write(path, ('res', self.tok))


class MER(ME):
    def __init__(self, m, rtok):
        ME.__init__(self, m)
        self._r = None if rtok == 0 else Res(rtok)

    @property
    def modelfit_results(self):
        return self._r


def _read_results(path):
    v = FS.files.get(str(path))
    if v is None:
        raise FileNotFoundError(str(path))
    return v


ld.read_results = _read_results


def results_latest(r1: int, r2: int, other_between: bool) -> bool:
    """
    One model is stored with results r1, then again with results r2 (0 = no results object); optionally another
    model with its own results is stored in between.  A reader then gets r2 (or r1 when the second store carried no
    results), and the other model's results are its own.
    pre: 0 <= r1 <= 2 and 0 <= r2 <= 2
    post: _ == True
    """
    global FS
    FS = MemFS(-1)
    m1, m2 = Mod(1, 1), Mod(2, 1)

    def store(m, r):
        with _db().transaction(MER(m, r)) as txn:
            txn.store_model_entry()

    def results(m):
        with _db().snapshot(ME(m)) as sn:
            return sn.retrieve_modelfit_results()
    store(m1, r1)
    if other_between:
        store(m2, 5)
    store(m1, r2)
    want = r2 if r2 != 0 else r1
    got = results(m1)
    if want == 0:
        ok = got is None
    else:
        ok = got == ('res', want)
    if other_between:
        ok = ok and results(m2) == ('res', 5)
    return ok


def results_latest__twin(r1: int, r2: int, other_between: bool) -> bool:
    """
    pre: 0 <= r1 <= 2 and 0 <= r2 <= 2
    post: _ == True
    """
    return not results_latest(r1, r2, other_between)
