"""C06 — value objects: validating constructors keep the invariants, == is an equivalence consistent with hash and
copy, replace() leaves the original untouched, public attributes cannot be assigned.

Every obligation runs the REAL pharmpy constructors / __eq__ / __hash__ / replace under CrossHair with symbolic field
values.  Objects for the equality laws are built with the plain constructors from arbitrary symbolic field values (a
superset of what `create` admits); a failing pair counts only if both objects are reachable, i.e. `create` reproduces
exactly their fields (`C06_build.reachable`), and only if it still fails with the builtin `hash`.
Stubs: see C06_build (structural `hash`, `np.isnan`, `float`->Num inside Parameter.create) and FakeDist below.
"""
import copy
import os

from C06_build import (D, P, R, X, UNITS, frozenmapping, mk_cats, mk_col, mk_di, mk_est, mk_opts, mk_param, mk_params,
                       mk_sim, mk_steps, mk_strs, mk_vh, mk_vl, num_float_mode, property_names, reachable,
                       decide_real, shash, small, snapshot, unchanged, install_structural_hash)
from pharmpy.model.distributions.symbolic import Distribution

install_structural_hash()

MAXN = int(os.environ.get('VH_MAXN', '2'))          # elements per collection
NU = int(os.environ.get('VH_NU', '2'))              # units used from the table
DESC = os.environ.get('VH_DESC', 'same')            # ColumnInfo descriptors of a and b: same | free (finding F1)
NOPT = int(os.environ.get('VH_NOPT', '1'))          # max tool_options entries; 2 = finding F2 isolated
CATA = int(os.environ.get('VH_CATA', '0'))          # case split: categories kind of object a
NONES = os.environ.get('VH_NONES', '0') == '1'      # EstimationStep: Optional fields None per group (else all set)
AFLAGS = tuple(x == '1' for x in os.environ.get('VH_AFLAGS', '1,1').split(','))     # ... None-groups of object a
STRLEN = int(os.environ.get('VH_STRLEN', '2'))      # string length bound
NAMELEN = int(os.environ.get('VH_NAMELEN', '2'))    # names in the uniqueness obligations: len <= NAMELEN over {a,b}
NK = int(os.environ.get('VH_NK', '2'))              # dict keys used from C06_build.KEYS
CATKINDS = tuple(int(x) for x in os.environ.get('VH_CATKINDS', '0,1,3').split(','))
NA = int(os.environ.get('VH_NA', '2'))              # case split: number of elements of object a
SHAPE = tuple(int(x) for x in os.environ.get('VH_SHAPE', '1,1').split(','))   # EstimationStep a: #res/pred, #options
PK = int(os.environ.get('VH_K', '-1'))              # case split for replace obligations


# ---------------------------------------------------------------------------------------------------------
# equality laws

def _laws(a, b, hashfn):
    if not (a == a):
        return False
    if not (b == b):
        return False
    ab = True if a == b else False
    ba = True if b == a else False
    if ab != ba:
        return False
    if (a != b) == ab:
        return False
    if ab and not (hashfn(a) == hashfn(b)):
        return False
    if not (copy.copy(a) == a and copy.deepcopy(a) == a):
        return False
    if ab and not (copy.copy(a) == b):
        return False
    return True


def eq_obligation(a, b):
    if _laws(a, b, shash):
        return True
    if not reachable(a, b):
        return True
    return decide_real(lambda x, y: _laws(x, y, hash), a, b)


def _trans(a, b, c):
    if a == b and b == c:
        return True if a == c else False
    return True


def trans_obligation(a, b, c):
    if _trans(a, b, c):
        return True
    if not reachable(a, b, c):
        return True
    return decide_real(_trans, a, b, c)


# ---------------------------------------------------------------------------------------------------------
# Parameter: validity

def _wellformed(p):
    return bool(p.lower <= p.init) and bool(p.init <= p.upper) and bool(p.init == p.init)


def param_create(name: str, init: float, lower: float, upper: float, fix: bool, lower_none: bool,
                 upper_none: bool) -> bool:
    """
    Parameter.create returns a parameter with lower <= init <= upper and init not NaN, or raises ValueError
    (bounds not NaN: that case is param_create_nan_bound).
    pre: lower == lower and upper == upper
    post: _ == True
    """
    with num_float_mode():
        try:
            p = P.Parameter.create(name, init, None if lower_none else lower, None if upper_none else upper, fix)
        except ValueError:
            return True
        return _wellformed(p) and p.name is name and isinstance(p.fix, bool)


def param_create_nan_bound(name: str, init: float, which: int, other: float, fix: bool) -> bool:
    """
    Same with a NaN bound (which: 0 lower, 1 upper, 2 both).
    pre: 0 <= which <= 2 and other == other
    post: _ == True
    """
    nan = float('nan')
    lower = nan if which in (0, 2) else other
    upper = nan if which in (1, 2) else other
    with num_float_mode():
        try:
            p = P.Parameter.create(name, init, lower, upper, fix)
        except ValueError:
            return True
        if _wellformed(p):
            return True
    # re-decide without the float stub
    try:
        q = P.Parameter.create(name, init, lower, upper, fix)
    except ValueError:
        return True
    return q.lower <= q.init <= q.upper and q == q


def param_replace(name: str, init: float, lower: float, upper: float, fix: bool, k: int, newname: str, v: float,
                  newfix: bool) -> bool:
    """
    replace() of a valid parameter: new valid parameter or ValueError; the original keeps its fields.
    pre: lower <= init <= upper and 0 <= k <= 4 and (PK < 0 or k == PK)
    pre: v == v or k == 1
    post: _ == True
    """
    with num_float_mode():
        base = P.Parameter.create(name, init, lower, upper, fix)
        snap = snapshot(base)
        try:
            if k == 0:
                r = base.replace(name=newname)
            elif k == 1:
                r = base.replace(init=v)
            elif k == 2:
                r = base.replace(lower=v)
            elif k == 3:
                r = base.replace(upper=v)
            else:
                r = base.replace(fix=newfix)
        except ValueError:
            return unchanged(base, snap)
        return _wellformed(r) and isinstance(r, P.Parameter) and unchanged(base, snap)


# ---------------------------------------------------------------------------------------------------------
# unique names

def _distinct(names):
    for i in range(len(names)):
        for j in range(i + 1, len(names)):
            if names[i] == names[j]:
                return False
    return True


def params_create_unique(n: int, n1: str, n2: str, n3: str, n4: str, via: int) -> bool:
    """
    Parameters.create (via 0), Parameters + Parameter (via 1), Parameter + Parameters (2), Parameters + Parameters (3),
    Parameters + [Parameter] (4), replace(parameters=) (5): names unique or ValueError.
    pre: 0 <= n <= MAXN + 1 and 0 <= via <= 5 and (PK < 0 or via == PK)
    pre: small(n1, NAMELEN, 'ab') and small(n2, NAMELEN, 'ab') and small(n3, NAMELEN, 'ab') and small(n4, NAMELEN, 'ab')
    post: _ == True
    """
    ps = [P.Parameter.create(x, 0.1) for x in (n1, n2, n3, n4)[:n]]
    try:
        if via == 0 or n == 0:
            r = P.Parameters.create(ps)
        elif via == 1:
            r = P.Parameters.create(ps[:-1]) + ps[-1]
        elif via == 2:
            r = ps[0] + P.Parameters.create(ps[1:])
        elif via == 3:
            r = P.Parameters.create(ps[:1]) + P.Parameters.create(ps[1:])
        elif via == 4:
            r = P.Parameters.create(ps[:-1]) + [ps[-1]]
        else:
            r = P.Parameters.create(ps[:1]).replace(parameters=ps)
    except ValueError:
        return True
    return _distinct(r.names) and len(r) == n


class FakeDist(Distribution):
    """Distribution stand-in carrying only names (real distributions need symengine symbols)."""

    def __init__(self, names):
        self._names = tuple(names)

    names = property(lambda self: self._names)
    level = property(lambda self: 'IIV')
    mean = property(lambda self: 0)
    variance = property(lambda self: 1)
    free_symbols = property(lambda self: set())

    def replace(self, **kw):
        return self

    def get_variance(self, name):
        return 1

    def get_covariance(self, a, b):
        return 0

    def evalf(self, parameters):
        return self

    def __getitem__(self, i):
        return self

    def subs(self, d):
        return self

    def latex_string(self, aligned=False):
        return ''

    def __len__(self):
        return len(self._names)

    def __hash__(self):
        return 0


FakeDist.__abstractmethods__ = frozenset()


def rvs_create_unique(n: int, n1: str, n2: str, n3: str, joint: bool) -> bool:
    """
    RandomVariables.create over a sequence of distributions: all random-variable names unique or ValueError.
    pre: 0 <= n <= 3
    pre: small(n1, NAMELEN, 'ab') and small(n2, NAMELEN, 'ab') and small(n3, NAMELEN, 'ab')
    post: _ == True
    """
    names = [n1, n2, n3][:n]
    if joint and n >= 2:
        dists = [FakeDist(names[:2])] + [FakeDist([x]) for x in names[2:]]
    else:
        dists = [FakeDist([x]) for x in names]
    try:
        r = R.RandomVariables.create(dists)
    except ValueError:
        return True
    got = [x for d in r._dists for x in d.names]
    return _distinct(got) and len(got) == n


# ---------------------------------------------------------------------------------------------------------
# equality laws per class
#
# String lengths: CrossHair decides `s == t` for two symbolic strings by enumerating len(t), so every string is
# bounded; in the classes with many string fields all strings of one object have one (symbolic) length la / lb
# (`ulen`), characters are unconstrained.

def ulen(n, *strs):
    return all(len(s) == n for s in strs)


def eqhash_Parameter(an: str, ai: float, al: float, au: float, af: bool,
                     bn: str, bi: float, bl: float, bu: float, bf: bool) -> bool:
    """
    All fields independent.  NaN bounds: param_create_nan_bound (create accepts them); NaN init is rejected by create
    (such an object is not reachable).
    pre: al == al and au == au and bl == bl and bu == bu
    pre: small(an, STRLEN) and small(bn, STRLEN)
    post: _ == True
    """
    return eq_obligation(mk_param(an, ai, al, au, af), mk_param(bn, bi, bl, bu, bf))


def eq3_Parameter(an: str, ai: float, af: bool, bn: str, bi: float, bf: bool, cn: str, ci: float, cf: bool) -> bool:
    """
    transitivity
    pre: ai == ai and bi == bi and ci == ci
    pre: small(an, STRLEN) and small(bn, STRLEN) and small(cn, STRLEN)
    post: _ == True
    """
    inf = float('inf')
    return trans_obligation(mk_param(an, ai, -inf, inf, af), mk_param(bn, bi, -inf, inf, bf),
                            mk_param(cn, ci, -inf, inf, cf))


def _pelem(name, init, lower, fix):
    return mk_param(name, init, lower, float('inf'), fix)


def eqhash_Parameters(la: int, na: int, a1n: str, a1i: float, a1l: float, a1f: bool, a2n: str, a2i: float, a2l: float,
                      a2f: bool, a3n: str, a3i: float, a3l: float, a3f: bool,
                      lb: int, nb: int, b1n: str, b1i: float, b1l: float, b1f: bool, b2n: str, b2i: float, b2l: float,
                      b2f: bool, b3n: str, b3i: float, b3l: float, b3f: bool) -> bool:
    """
    Elements: symbolic name, init, lower, fix (upper = inf).
    pre: 0 <= na <= MAXN and 0 <= nb <= MAXN and 0 <= la <= STRLEN and 0 <= lb <= STRLEN
    pre: ulen(la, a1n, a2n, a3n) and ulen(lb, b1n, b2n, b3n)
    pre: a1l == a1l and a2l == a2l and a3l == a3l and b1l == b1l and b2l == b2l and b3l == b3l
    post: _ == True
    """
    pa = [_pelem(a1n, a1i, a1l, a1f), _pelem(a2n, a2i, a2l, a2f), _pelem(a3n, a3i, a3l, a3f)]
    pb = [_pelem(b1n, b1i, b1l, b1f), _pelem(b2n, b2i, b2l, b2f), _pelem(b3n, b3i, b3l, b3f)]
    return eq_obligation(mk_params(pa[:na]), mk_params(pb[:nb]))


# Enumerated-option fields (validated by create against fixed tables) take concrete valid values: object a the base
# values, object b the base values except for at most one field, chosen by the symbolic index d, which takes the
# alternative value.  (Arbitrary symbolic strings would make every object unreachable for the filter.)
CI_OPT = ['type', 'unit', 'scale', 'datatype', 'descriptor']
CI_BASE = [dict(type='covariate', unit=0, scale='ratio', datatype='float64', descriptor='age'),
           dict(type='id', unit=1, scale='nominal', datatype='int32', descriptor=None)]
BASE = int(os.environ.get('VH_BASE', '0'))


def _ci_opts(d):
    o = dict(CI_BASE[BASE])
    if d > 0:
        f = CI_OPT[d - 1]
        o[f] = CI_BASE[1 - BASE][f]
    return o


def _ci(name, cont, cats, drop, o):
    return mk_col(name, o['type'], o['unit'], o['scale'], cont, cats, drop, o['datatype'], o['descriptor'])


def eqhash_ColumnInfo(la: int, an: str, ac: bool, ac1: str, ac2: str, adr: bool, aky: bool,
                      lb: int, bn: str, bc: bool, bk: int, bc1: str, bc2: str, bdr: bool, bky: bool, d: int) -> bool:
    """
    name, continuous, drop, category labels symbolic; categories kind (None / tuple / mapping, see mk_cats) of a
    pinned by VH_CATA, of b symbolic over VH_CATKINDS; option fields: see CI_OPT (d = 5: descriptors differ, which
    is excluded when VH_DESC=same and is the only case when VH_DESC=free: finding F1 isolated).
    pre: bk in CATKINDS and 0 <= la <= STRLEN and 0 <= lb <= STRLEN and ulen(la, an, ac1, ac2) and ulen(lb, bn, bc1, bc2)
    pre: (d == 5) if DESC == 'free' else (0 <= d <= 4)
    post: _ == True
    """
    a = _ci(an, ac, mk_cats(CATA, ac1, ac2, 1 if aky else 0), adr, _ci_opts(0))
    b = _ci(bn, bc, mk_cats(bk, bc1, bc2, 1 if bky else 0), bdr, _ci_opts(d))
    return eq_obligation(a, b)


def _di_col(name, is_id, unit_i, drop, desc):
    return mk_col(name, 'id' if is_id else 'covariate', unit_i, 'ratio', True, None, drop, 'float64', desc)


def eqhash_DataInfo(la: int, a1n: str, a1d: bool, a2n: str, a2d: bool, asep: str, amdt: str,
                    lb: int, nb: int, b1n: str, b1t: bool, b1u: bool, b1d: bool, b2n: str, b2t: bool, b2d: bool,
                    bsep: str, bmdt: str, d1: bool) -> bool:
    """
    a: VH_NA columns of type covariate, unit UNITS[0], with a path; b: 0..2 columns of type covariate|id, first unit
    UNITS[0|1], no path.  Symbolic: names, drop, separator, missing_data_token.  Other column fields fixed
    (scale ratio, float64, categories None: see eqhash_ColumnInfo).  Columns at the same position carry the same
    descriptor (None | 'age'; finding F1 is isolated in eqhash_ColumnInfo[desc=free]).
    pre: 0 <= nb <= 2 and 0 <= la <= STRLEN and 0 <= lb <= STRLEN
    pre: ulen(la, a1n, a2n, asep, amdt) and ulen(lb, b1n, b2n, bsep, bmdt)
    post: _ == True
    """
    desc1 = 'age' if d1 else None
    ca = [_di_col(a1n, False, 0, a1d, desc1), _di_col(a2n, False, 0, a2d, None)]
    cb = [_di_col(b1n, b1t, 1 if b1u else 0, b1d, desc1), _di_col(b2n, b2t, 0, b2d, None)]
    return eq_obligation(mk_di(ca[:NA], True, asep, amdt), mk_di(cb[:nb], False, bsep, bmdt))


def eqhash_VariabilityLevel(an: str, ar: bool, agn: bool, ag: str, bn: str, br: bool, bgn: bool, bg: str) -> bool:
    """
    pre: small(an, STRLEN) and small(ag, STRLEN) and small(bn, STRLEN) and small(bg, STRLEN)
    post: _ == True
    """
    return eq_obligation(mk_vl(an, ar, None if agn else ag), mk_vl(bn, br, None if bgn else bg))


def eq3_VariabilityLevel(an: str, ar: bool, ag: str, bn: str, br: bool, bg: str, cn: str, cr: bool, cg: str,
                         gn: int, l: int) -> bool:
    """
    pre: 0 <= gn <= 3 and 0 <= l <= STRLEN and ulen(l, an, ag, bn, bg, cn, cg)
    post: _ == True
    """
    return trans_obligation(mk_vl(an, ar, None if gn == 1 else ag), mk_vl(bn, br, None if gn == 2 else bg),
                            mk_vl(cn, cr, None if gn == 3 else cg))


def eqhash_VariabilityHierarchy(la: int, na: int, a1n: str, a1r: bool, a1g: str, a2n: str, a2r: bool, a2gn: bool,
                                a2g: str, a3n: str, a3r: bool,
                                lb: int, nb: int, b1n: str, b1r: bool, b1g: str, b2n: str, b2r: bool, b2gn: bool,
                                b2g: str, b3n: str, b3r: bool) -> bool:
    """
    pre: 0 <= na <= MAXN and 0 <= nb <= MAXN and 0 <= la <= STRLEN and 0 <= lb <= STRLEN
    pre: ulen(la, a1n, a1g, a2n, a2g, a3n) and ulen(lb, b1n, b1g, b2n, b2g, b3n)
    post: _ == True
    """
    la_ = [mk_vl(a1n, a1r, a1g), mk_vl(a2n, a2r, None if a2gn else a2g), mk_vl(a3n, a3r, None)]
    lb_ = [mk_vl(b1n, b1r, b1g), mk_vl(b2n, b2r, None if b2gn else b2g), mk_vl(b3n, b3r, None)]
    return eq_obligation(mk_vh(la_[:na]), mk_vh(lb_[:nb]))


# ---------------------------------------------------------------------------------------------------------
# frozenmapping.replace: value, hash (also when the original's hash is already cached), original untouched

def _fm_replace_law(n, k1, v1, v2, hashed, rk, rv, hashfn):
    from C06_build import KEYS
    a = mk_opts(n, k1, v1, 1 - k1, v2)
    before = dict(a._mapping)
    h0 = hashfn(a) if hashed else None
    r = a.replace(KEYS[rk], rv)
    want = dict(before)
    want[KEYS[rk]] = rv
    fresh = frozenmapping(want)
    if not (r == fresh and fresh == r and dict(r) == want):
        return False
    if dict(a._mapping) != before or (hashed and hashfn(a) != h0):
        return False
    if hashfn(r) != hashfn(fresh):
        return False
    # a second replace on the result (its hash now cached) and on the original
    r2 = r.replace(KEYS[k1], v2)
    want2 = dict(want)
    want2[KEYS[k1]] = v2
    return r2 == frozenmapping(want2) and hashfn(r2) == hashfn(frozenmapping(want2))


def eqhash_frozenmapping_replace(n: int, k1: int, v1: int, v2: int, hashed: bool, rk: int, rv: int) -> bool:
    """
    pre: 0 <= n <= 2 and 0 <= k1 <= 1 and 0 <= rk <= 2
    post: _ == True
    """
    if _fm_replace_law(n, k1, v1, v2, hashed, rk, rv, shash):
        return True
    # re-decide with the builtin hash on concrete values, replaying the same call sequence (caches are part of it)
    from C06_build import uninstall_structural_hash
    try:
        from crosshair.core import deep_realize
        from crosshair.tracers import NoTracing, is_tracing
        tracing = is_tracing()
    except ImportError:
        tracing = False
    if tracing:
        args = deep_realize((n, k1, v1, v2, hashed, rk, rv))
        with NoTracing():
            uninstall_structural_hash()
            try:
                return _fm_replace_law(*args, hash)
            finally:
                install_structural_hash()
    uninstall_structural_hash()
    try:
        return _fm_replace_law(n, k1, v1, v2, hashed, rk, rv, hash)
    finally:
        install_structural_hash()


def eqhash_frozenmapping_replace__twin(v1: int, rv: int) -> bool:
    """
    post: _ == True
    """
    r = mk_opts(1, 0, v1, 0, 0).replace('b', rv)
    return not (len(r) == 2 and r['b'] == rv)


def _opt(flag, v):
    return None if (NONES and flag) else v


ES_OPT = ['method', 'pum', 'solver']
ES_BASE = [dict(method='FOCE', pum='SANDWICH', solver='LSODA'), dict(method='IMP', pum='SMAT', solver='IDA')]


def _es_opts(d):
    o = dict(ES_BASE[BASE])
    if d > 0:
        f = ES_OPT[d - 1]
        o[f] = ES_BASE[1 - BASE][f]
    return o


def eqhash_EstimationStep(la: int, aint: bool, aev: bool, amax: int, alap: bool, ais: int,
                          ani: int, aauto: bool, akeep: int, ar1: str, ap1: str, artol: int, aatol: int,
                          ak1: bool, av1: int, av2: int, aies: bool, agi: bool, ags: bool,
                          lb: int, bint: bool, bev: bool, bmax: int, blap: bool, bis: int,
                          bni: int, bauto: bool, bkeep: int, bs: bool, br1: str, bp1: str, brtol: int,
                          batol: int, bno: bool, bk1: bool, bv1: int, bv2: int, bies: bool, bgi: bool,
                          bgs: bool, d: int) -> bool:
    """
    derivatives = () (Expr-valued, outside).  method / parameter_uncertainty_method / solver: valid options, b
    differs from a in at most one of them (d, see ES_OPT).  a: residuals and predictions have VH_SHAPE[0] entries,
    tool_options VH_SHAPE[1] entries; b: 0|1 residuals and predictions (bs), 0|1 tool options (bno); VH_NOPT=2:
    exactly 2 tool options in both objects, keys in symbolic order (finding F2 isolated there).
    VH_NONES=1: the Optional int fields and `auto` (flag gi) / the Optional str fields (flag gs) are None;
    VH_NONES=0: all set.  With VH_NONES=1 residuals, predictions and tool_options are empty in both objects.
    (a's flags are pinned by VH_AFLAGS then.)
    pre: NONES or (0 <= la <= STRLEN and 0 <= lb <= STRLEN and ulen(la, ar1, ap1) and ulen(lb, br1, bp1))
    pre: amax >= 1 and bmax >= 1 and 0 <= d <= 3
    post: _ == True
    """
    na_s, na_o = SHAPE
    ka = kb = nb_s = nb_o = 0
    if NONES:
        na_s = na_o = 0
        agi, ags = AFLAGS
    elif NOPT == 2:
        na_o = nb_o = 2
        nb_s = 1 if bs else 0
        ka, kb = (1 if ak1 else 0), (1 if bk1 else 0)
    else:
        nb_s, nb_o = (1 if bs else 0), (1 if bno else 0)
        ka, kb = (1 if ak1 else 0), (1 if bk1 else 0)
    oa, ob = _es_opts(0), _es_opts(d)
    a = mk_est(oa['method'], aint, _opt(ags, oa['pum']), aev, _opt(agi, amax), alap, _opt(agi, ais), _opt(agi, ani),
               _opt(agi, aauto), _opt(agi, akeep), mk_strs(na_s, ar1, ''), mk_strs(na_s, ap1, ''),
               _opt(ags, oa['solver']), _opt(agi, artol), _opt(agi, aatol), mk_opts(na_o, ka, av1, 1 - ka, av2), aies)
    b = mk_est(ob['method'], bint, _opt(bgs, ob['pum']), bev, _opt(bgi, bmax), blap, _opt(bgi, bis), _opt(bgi, bni),
               _opt(bgi, bauto), _opt(bgi, bkeep), mk_strs(nb_s, br1, ''), mk_strs(nb_s, bp1, ''),
               _opt(bgs, ob['solver']), _opt(bgi, brtol), _opt(bgi, batol), mk_opts(nb_o, kb, bv1, 1 - kb, bv2), bies)
    return eq_obligation(a, b)


def eqhash_SimulationStep(an: int, aseed: int, asn: bool, asol: str, artol: int, ano: bool, av1: int,
                          bn: int, bseed: int, bsn: bool, bsol: str, brtol: int, bno: bool, bv1: int) -> bool:
    """
    solver None | symbolic string, solver_rtol symbolic, solver_atol None, tool_options {} | {KEYS[0]: symbolic int}
    pre: small(asol, STRLEN) and small(bsol, STRLEN)
    post: _ == True
    """
    a = mk_sim(an, aseed, None if asn else asol, artol, None, mk_opts(1 if ano else 0, 0, av1, 0, 0))
    b = mk_sim(bn, bseed, None if bsn else bsol, brtol, None, mk_opts(1 if bno else 0, 0, bv1, 0, 0))
    return eq_obligation(a, b)


def _step(is_sim, imp, inter, mx, n, seed):
    if is_sim:
        return mk_sim(n, seed, None, None, None, mk_opts(0, 0, 0, 0, 0))
    return mk_est('IMP' if imp else 'FOCE', inter, None, False, mx, False, None, None, None, None, (), (), None, None,
                  None, mk_opts(0, 0, 0, 0, 0), False)


def eqhash_ExecutionSteps(a1s: bool, a1m: bool, a1i: bool, a1x: int, a1n: int, a1seed: int, a2s: bool,
                          a2m: bool, a2i: bool, a2n: int,
                          nb: int, b1s: bool, b1m: bool, b1i: bool, b1x: int, b1n: int, b1seed: int, b2s: bool,
                          b2m: bool, b2i: bool, b2n: int) -> bool:
    """
    Steps: estimation (method FOCE|IMP, symbolic interaction, maximum_evaluations; other fields default) or
    simulation (symbolic n, seed), kind symbolic per step.  a has VH_NA steps, b 0..2.
    pre: 0 <= nb <= 2 and a1x >= 1 and b1x >= 1
    post: _ == True
    """
    sa = [_step(a1s, a1m, a1i, a1x, a1n, a1seed), _step(a2s, a2m, a2i, None, a2n, 1)]
    sb = [_step(b1s, b1m, b1i, b1x, b1n, b1seed), _step(b2s, b2m, b2i, None, b2n, 1)]
    return eq_obligation(mk_steps(sa[:NA]), mk_steps(sb[:nb]))


# ---------------------------------------------------------------------------------------------------------
# immutability: assigning a public attribute raises, replace() leaves the original's fields identical

def _frozen(o, v):
    snap = snapshot(o)
    for name in property_names(type(o)):
        try:
            setattr(o, name, v)
        except AttributeError:
            continue
        return False
    return unchanged(o, snap)


def _replace_ok(o, kw):
    """replace(**kw): whether it returns or raises, `o` keeps its fields; a result is an object of the class (it is
    not required to be a different object: with unchanged fields returning `o` itself would be no mutation)."""
    snap = snapshot(o)
    try:
        r = o.replace(**kw)
    except Exception:
        return unchanged(o, snap)
    return type(r) is type(o) and unchanged(o, snap)


def imm_Parameter(name: str, init: float, lower: float, fix: bool, v: str) -> bool:
    """
    pre: lower <= init
    post: _ == True
    """
    return _frozen(P.Parameter.create(name, init, lower, None, fix), v)


def imm_Parameters(n: int, n1: str, n2: str, i1: float, newn: str, k: int) -> bool:
    """
    pre: 0 <= n <= 2 and 0 <= k <= 2 and small(n1, 1, 'ab') and small(n2, 1, 'ab') and small(newn, 1, 'ab')
    pre: i1 == i1
    post: _ == True
    """
    ps = [P.Parameter.create(n1, i1), P.Parameter.create(n2, 1.0)][:n]
    try:
        o = P.Parameters.create(ps)
    except ValueError:
        return True
    if not _frozen(o, newn):
        return False
    newp = P.Parameter.create(newn, 2.0)
    kw = [dict(), dict(parameters=[newp]), dict(parameters=ps + [newp])][k]
    return _replace_ok(o, kw)


CI_FIELDS = ['name', 'type', 'unit', 'scale', 'continuous', 'categories', 'drop', 'datatype', 'descriptor']
CI_NEW = {   # new values offered to replace(): valid and invalid ones, selected by a symbolic index
    'type': ['id', 'dv', 'bogus'], 'scale': ['nominal', 'interval', 'bogus'], 'datatype': ['int32', 'str', 'bogus'],
    'descriptor': [None, 'body weight', 'bogus'],
}


def imm_ColumnInfo(name: str, nominal: bool, cont: bool, drop: bool, cat: bool, c1: str, k: int, ns: str, nb: bool,
                   nk: int) -> bool:
    """
    A created column (symbolic name, scale ratio|nominal, continuous, drop, categories None|(c1,), other fields
    fixed); replace field k by a new value: symbolic string (name), symbolic bool, or a table entry chosen by the
    symbolic index nk (valid and invalid options, units, categories of every accepted and one rejected kind).
    pre: 0 <= k <= 8 and 0 <= nk <= 2 and small(ns, STRLEN) and small(name, STRLEN) and small(c1, STRLEN)
    post: _ == True
    """
    try:
        o = D.ColumnInfo.create(name, 'covariate', UNITS[1], 'nominal' if nominal else 'ratio', cont,
                                (c1,) if cat else None, drop, 'float64', 'age')
    except ValueError:
        return True
    if not _frozen(o, ns):
        return False
    f = CI_FIELDS[k]
    if f == 'name':
        val = ns
    elif f == 'unit':
        val = UNITS[nk]
    elif f in ('continuous', 'drop'):
        val = nb
    elif f == 'categories':
        val = [None, [ns, c1], {'a': ns}][nk] if nb else [(c1, ns), frozenmapping({'b': c1}), 7][nk]
    else:
        val = CI_NEW[f][nk]
    return _replace_ok(o, {f: val})


def imm_DataInfo(n: int, n1: str, n2: str, drop: bool, has_path: bool, sep: str, k: int, ns: str) -> bool:
    """
    pre: 0 <= n <= 2 and 0 <= k <= 4 and small(ns, 3)
    post: _ == True
    """
    cols = [D.ColumnInfo.create(n1, drop=drop), n2][:n]
    o = D.DataInfo.create(cols, path='/d/x.csv' if has_path else None, separator=sep)
    if not _frozen(o, ns):
        return False
    kw = [dict(), dict(columns=[D.ColumnInfo.create(ns)]), dict(path=None), dict(separator=ns),
          dict(missing_data_token=ns)][k]
    return _replace_ok(o, kw)


def imm_VariabilityLevel(name: str, ref: bool, gn: bool, g: str, k: int, ns: str, nb: bool) -> bool:
    """
    pre: 0 <= k <= 3
    post: _ == True
    """
    o = R.VariabilityLevel.create(name, ref, None if gn else g)
    if not _frozen(o, ns):
        return False
    kw = [dict(), dict(name=ns), dict(reference=nb), dict(group=ns)][k]
    return _replace_ok(o, kw)


def imm_VariabilityHierarchy(n: int, n1: str, r1: bool, n2: str, r2: bool, k: int, ns: str, nr: bool) -> bool:
    """
    pre: 0 <= n <= 2 and 0 <= k <= 2
    post: _ == True
    """
    lv = [R.VariabilityLevel.create(n1, r1), R.VariabilityLevel.create(n2, r2)][:n]
    try:
        o = R.VariabilityHierarchy.create(lv)
    except ValueError:
        return True
    if not _frozen(o, ns):
        return False
    new = R.VariabilityLevel.create(ns, nr)
    kw = [dict(), dict(levels=[new]), dict(levels=lv + [new])][k]
    return _replace_ok(o, kw)


METHODS = ['foce', 'FO', 'imp']
ES_FIELDS = ['method', 'interaction', 'parameter_uncertainty_method', 'evaluation', 'maximum_evaluations',
             'laplace', 'isample', 'niter', 'auto', 'keep_every_nth_iter', 'residuals', 'predictions', 'solver',
             'solver_rtol', 'solver_atol', 'tool_options', 'derivatives', 'individual_eta_samples']
ES_NEW = {'method': ['saem', 'Fo', 'bogus'], 'parameter_uncertainty_method': [None, 'smat', 'bogus'],
          'solver': [None, 'ida', 'bogus']}


def imm_EstimationStep(foce: bool, inter: bool, mx: int, v1: int, k: int, ns: str, nb: bool, ni: int, nk: int) -> bool:
    """
    A created step (method foce|FO, symbolic interaction, maximum_evaluations, tool option value); replace field k
    by a symbolic bool / int / None, a string list containing a symbolic string, or a table entry (valid and invalid
    option strings) chosen by the symbolic index nk.
    pre: mx >= 1 and 0 <= k <= 17 and 0 <= nk <= 2 and small(ns, STRLEN)
    post: _ == True
    """
    o = X.EstimationStep.create('foce' if foce else 'FO', interaction=inter, maximum_evaluations=mx,
                                predictions=['x', 'a'], tool_options={'a': v1}, solver='lsoda')
    if not _frozen(o, ns):
        return False
    f = ES_FIELDS[k]
    if f in ES_NEW:
        val = ES_NEW[f][nk]
    elif f in ('interaction', 'evaluation', 'laplace', 'auto', 'individual_eta_samples'):
        val = nb
    elif f in ('residuals', 'predictions'):
        val = [ns, 'm']
    elif f == 'tool_options':
        val = {'b': ni}
    elif f == 'derivatives':
        val = ()
    else:
        val = None if nb else ni
    return _replace_ok(o, {f: val})


def imm_SimulationStep(n: int, seed: int, k: int, ni: int) -> bool:
    """
    pre: 1 <= n and 0 <= k <= 2
    post: _ == True
    """
    o = X.SimulationStep.create(n=n, seed=seed)
    if not _frozen(o, ni):
        return False
    kw = [dict(), dict(n=ni), dict(seed=ni)][k]
    return _replace_ok(o, kw)


def imm_ExecutionSteps(n: int, s1: bool, mi: int, inter: bool, nn: int, k: int) -> bool:
    """
    pre: 0 <= n <= 2 and 0 <= mi <= 2 and 1 <= nn and 0 <= k <= 2
    post: _ == True
    """
    st = [X.SimulationStep.create(n=nn) if s1 else X.EstimationStep.create(METHODS[mi], interaction=inter),
          X.EstimationStep.create('fo')][:n]
    o = X.ExecutionSteps.create(st)
    if not _frozen(o, nn):
        return False
    kw = [dict(), dict(steps=[]), dict(steps=st + st)][k]
    return _replace_ok(o, kw)


# ---------------------------------------------------------------------------------------------------------
# reachability twins: same pre, violated exactly when the obligation returns True

def param_create__twin(name: str, init: float, lower: float, upper: float, fix: bool, lower_none: bool,
                       upper_none: bool) -> bool:
    """
    pre: lower == lower and upper == upper
    pre: lower <= init <= upper
    post: _ == True
    """
    return not param_create(name, init, lower, upper, fix, lower_none, upper_none)


def param_create_nan_bound__twin(name: str, init: float, which: int, other: float, fix: bool) -> bool:
    """
    pre: 0 <= which <= 2 and other == other
    post: _ == True
    """
    return not param_create_nan_bound(name, init, which, other, fix)


def param_replace__twin(name: str, init: float, lower: float, upper: float, fix: bool, k: int, newname: str, v: float,
                        newfix: bool) -> bool:
    """
    pre: lower <= init <= upper and 0 <= k <= 4 and (PK < 0 or k == PK)
    pre: v == v or k == 1
    pre: lower <= v <= upper
    post: _ == True
    """
    return not param_replace(name, init, lower, upper, fix, k, newname, v, newfix)


def params_create_unique__twin(n: int, n1: str, n2: str, n3: str, n4: str, via: int) -> bool:
    """
    pre: 0 <= n <= MAXN + 1 and 0 <= via <= 5 and (PK < 0 or via == PK)
    pre: small(n1, NAMELEN, 'ab') and small(n2, NAMELEN, 'ab') and small(n3, NAMELEN, 'ab') and small(n4, NAMELEN, 'ab')
    pre: n == 3 and n1 != n2 and n1 != n3 and n2 != n3
    post: _ == True
    """
    return not params_create_unique(n, n1, n2, n3, n4, via)


def rvs_create_unique__twin(n: int, n1: str, n2: str, n3: str, joint: bool) -> bool:
    """
    pre: 0 <= n <= 3
    pre: small(n1, NAMELEN, 'ab') and small(n2, NAMELEN, 'ab') and small(n3, NAMELEN, 'ab')
    pre: n >= 2 and n1 != n2 and n1 != n3 and n2 != n3
    post: _ == True
    """
    return not rvs_create_unique(n, n1, n2, n3, joint)


def eqhash_Parameter__twin(an: str, ai: float, al: float, au: float, af: bool) -> bool:
    """
    witness: two equal reachable parameters pass all laws
    pre: al <= ai <= au and small(an, STRLEN)
    post: _ == True
    """
    a, b = mk_param(an, ai, al, au, af), mk_param(an, ai, al, au, af)
    return not (eq_obligation(a, b) and a == b and reachable(a, b))


def eq3_Parameter__twin(an: str, ai: float, af: bool) -> bool:
    """
    pre: ai == ai and small(an, STRLEN)
    post: _ == True
    """
    inf = float('inf')
    a, b, c = mk_param(an, ai, -inf, inf, af), mk_param(an, ai, -inf, inf, af), mk_param(an, ai, -inf, inf, af)
    return not (trans_obligation(a, b, c) and a == b and b == c and reachable(a, b, c))


def eqhash_Parameters__twin(a1n: str, a1i: float, a1l: float, a1f: bool, a2n: str, a2i: float, a2f: bool) -> bool:
    """
    pre: small(a1n, STRLEN) and small(a2n, STRLEN) and a1l <= a1i and a2i == a2i and a1n != a2n
    post: _ == True
    """
    inf = float('inf')
    a = mk_params([_pelem(a1n, a1i, a1l, a1f), _pelem(a2n, a2i, -inf, a2f)])
    b = mk_params([_pelem(a1n, a1i, a1l, a1f), _pelem(a2n, a2i, -inf, a2f)])
    return not (eq_obligation(a, b) and a == b and reachable(a, b))


def eqhash_ColumnInfo__twin(an: str, ac: bool, ac1: str, ac2: str, adr: bool, aky: bool) -> bool:
    """
    pre: ulen(1, an, ac1, ac2)
    post: _ == True
    """
    a = _ci(an, ac, mk_cats(CATA, ac1, ac2, 1 if aky else 0), adr, _ci_opts(0))
    b = _ci(an, ac, mk_cats(CATA, ac1, ac2, 1 if aky else 0), adr, _ci_opts(0))
    return not (eq_obligation(a, b) and a == b and reachable(a, b))


def eqhash_DataInfo__twin(a1n: str, a1d: bool, a2n: str, a2d: bool, asep: str, amdt: str) -> bool:
    """
    pre: ulen(1, a1n, a2n, asep, amdt)
    post: _ == True
    """
    def mk():
        return mk_di([_di_col(a1n, False, 0, a1d, None), _di_col(a2n, True, 0, a2d, None)], True, asep, amdt)
    a, b = mk(), mk()
    return not (eq_obligation(a, b) and a == b and reachable(a, b))


def eqhash_VariabilityLevel__twin(an: str, ar: bool, agn: bool, ag: str) -> bool:
    """
    pre: small(an, STRLEN) and small(ag, STRLEN)
    post: _ == True
    """
    a, b = mk_vl(an, ar, None if agn else ag), mk_vl(an, ar, None if agn else ag)
    return not (eq_obligation(a, b) and a == b and reachable(a, b))


def eq3_VariabilityLevel__twin(an: str, ar: bool, ag: str) -> bool:
    """
    pre: small(an, STRLEN) and small(ag, STRLEN)
    post: _ == True
    """
    a, b, c = mk_vl(an, ar, ag), mk_vl(an, ar, ag), mk_vl(an, ar, ag)
    return not (trans_obligation(a, b, c) and a == b and b == c and reachable(a, b, c))


def eqhash_VariabilityHierarchy__twin(a1n: str, a1r: bool, a1g: str, a2n: str, a2r: bool) -> bool:
    """
    pre: ulen(1, a1n, a1g, a2n)
    post: _ == True
    """
    a = mk_vh([mk_vl(a1n, a1r, a1g), mk_vl(a2n, a2r, None)])
    b = mk_vh([mk_vl(a1n, a1r, a1g), mk_vl(a2n, a2r, None)])
    return not (eq_obligation(a, b) and a == b and reachable(a, b))


def eqhash_EstimationStep__twin(aint: bool, amax: int, ap1: str, av1: int) -> bool:
    """
    pre: ulen(1, ap1) and amax >= 1
    post: _ == True
    """
    def mk():
        return mk_est('FOCE', aint, 'SMAT', False, amax, False, None, None, None, None, (), (ap1,), 'IDA',
                      None, None, mk_opts(1, 0, av1, 0, 0), False)
    a, b = mk(), mk()
    return not (eq_obligation(a, b) and a == b and reachable(a, b))


def eqhash_SimulationStep__twin(an: int, aseed: int, asol: str, artol: int, av1: int) -> bool:
    """
    pre: ulen(1, asol)
    post: _ == True
    """
    a = mk_sim(an, aseed, asol, artol, None, mk_opts(1, 0, av1, 0, 0))
    b = mk_sim(an, aseed, asol, artol, None, mk_opts(1, 0, av1, 0, 0))
    return not (eq_obligation(a, b) and a == b and reachable(a, b))


def eqhash_ExecutionSteps__twin(a1s: bool, a1m: bool, a1i: bool, a1x: int, a1n: int, a1seed: int, a2m: bool) -> bool:
    """
    pre: a1x >= 1
    post: _ == True
    """
    def mk():
        return mk_steps([_step(a1s, a1m, a1i, a1x, a1n, a1seed), _step(False, a2m, False, None, 1, 1)])
    a, b = mk(), mk()
    return not (eq_obligation(a, b) and a == b and reachable(a, b))


def imm_Parameter__twin(name: str, init: float, lower: float, fix: bool, v: str) -> bool:
    """
    pre: lower <= init
    post: _ == True
    """
    return not imm_Parameter(name, init, lower, fix, v)


def imm_Parameters__twin(n: int, n1: str, n2: str, i1: float, newn: str, k: int) -> bool:
    """
    pre: 0 <= n <= 2 and 0 <= k <= 2 and small(n1, 1, 'ab') and small(n2, 1, 'ab') and small(newn, 1, 'ab')
    pre: i1 == i1 and n == 2 and n1 != n2 and k == 2 and newn != n1 and newn != n2
    post: _ == True
    """
    return not imm_Parameters(n, n1, n2, i1, newn, k)


def imm_ColumnInfo__twin(name: str, nominal: bool, cont: bool, drop: bool, cat: bool, c1: str, k: int, ns: str,
                         nb: bool, nk: int) -> bool:
    """
    pre: 0 <= k <= 8 and 0 <= nk <= 2 and small(ns, STRLEN) and small(name, STRLEN) and small(c1, STRLEN)
    pre: not nominal and k == 1 and nk == 0
    post: _ == True
    """
    return not imm_ColumnInfo(name, nominal, cont, drop, cat, c1, k, ns, nb, nk)


def imm_DataInfo__twin(n: int, n1: str, n2: str, drop: bool, has_path: bool, sep: str, k: int, ns: str) -> bool:
    """
    pre: 0 <= n <= 2 and 0 <= k <= 4 and small(ns, 3)
    pre: n == 2 and k == 3
    post: _ == True
    """
    return not imm_DataInfo(n, n1, n2, drop, has_path, sep, k, ns)


def imm_VariabilityLevel__twin(name: str, ref: bool, gn: bool, g: str, k: int, ns: str, nb: bool) -> bool:
    """
    pre: 0 <= k <= 3
    pre: k == 1
    post: _ == True
    """
    return not imm_VariabilityLevel(name, ref, gn, g, k, ns, nb)


def imm_VariabilityHierarchy__twin(n: int, n1: str, r1: bool, n2: str, r2: bool, k: int, ns: str, nr: bool) -> bool:
    """
    pre: 0 <= n <= 2 and 0 <= k <= 2
    pre: n == 2 and r1 and not r2 and k == 2 and not nr
    post: _ == True
    """
    return not imm_VariabilityHierarchy(n, n1, r1, n2, r2, k, ns, nr)


def imm_EstimationStep__twin(foce: bool, inter: bool, mx: int, v1: int, k: int, ns: str, nb: bool, ni: int,
                             nk: int) -> bool:
    """
    pre: mx >= 1 and 0 <= k <= 17 and 0 <= nk <= 2 and small(ns, STRLEN)
    pre: k == 0 and nk == 0
    post: _ == True
    """
    return not imm_EstimationStep(foce, inter, mx, v1, k, ns, nb, ni, nk)


def imm_SimulationStep__twin(n: int, seed: int, k: int, ni: int) -> bool:
    """
    pre: 1 <= n and 0 <= k <= 2
    pre: k == 1 and ni >= 1
    post: _ == True
    """
    return not imm_SimulationStep(n, seed, k, ni)


def imm_ExecutionSteps__twin(n: int, s1: bool, mi: int, inter: bool, nn: int, k: int) -> bool:
    """
    pre: 0 <= n <= 2 and 0 <= mi <= 2 and 1 <= nn and 0 <= k <= 2
    pre: n == 2 and k == 2
    post: _ == True
    """
    return not imm_ExecutionSteps(n, s1, mi, inter, nn, k)
