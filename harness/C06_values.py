"""C06 — value objects: validating constructors keep the invariants, == is an equivalence consistent with hash and
copy, replace() leaves the original untouched, public attributes cannot be assigned.

Every obligation runs the REAL pharmpy constructors / __eq__ / __hash__ / replace under CrossHair with symbolic field
values.  Objects for the equality laws are built with the plain constructors from arbitrary symbolic field values (a
superset of what `create` admits); a failing pair counts only if both objects are reachable, i.e. `create` reproduces
exactly their fields (`C06_build.reachable`), and only if it still fails with the builtin `hash`.
Stubs: see C06_build (structural `hash`, `np.isnan`, `float`->Num inside Parameter.create) and FakeDist below.
"""
import copy
import os

from C06_build import (D, P, R, X, UNITS, Num, fields, mk_cats, mk_col, mk_di, mk_est, mk_opts, mk_param, mk_params,
                       mk_sim, mk_steps, mk_strs, mk_vh, mk_vl, num_float_mode, property_names, reachable,
                       real_hash_mode, shash, small, snapshot, unchanged, install_structural_hash)
from pharmpy.model.distributions.symbolic import Distribution

install_structural_hash()

MAXN = int(os.environ.get('VH_MAXN', '2'))          # elements per collection
NU = int(os.environ.get('VH_NU', '2'))              # units used from the table
DESC = os.environ.get('VH_DESC', 'same')            # ColumnInfo descriptors of a and b: same | free (finding F1)
NOPT = int(os.environ.get('VH_NOPT', '1'))          # max tool_options entries; 2 = finding F2 isolated
CATA = int(os.environ.get('VH_CATA', '-1'))         # case split: categories kind of object a
NONES = os.environ.get('VH_NONES', '0') == '1'      # Optional fields: 0 = all set, 1 = None per group (symbolic)
NANB = os.environ.get('VH_NANB', '0') == '1'


# ---------------------------------------------------------------------------------------------------------
# equality laws

def _laws(a, b, hashfn):
    if not (a == a):
        return False
    if not (b == b):
        return False
    ab = True if a == b else False
    ba = True if b == a else False
    if ab != ba:
        return False
    if (a != b) == ab:
        return False
    if ab and not (hashfn(a) == hashfn(b)):
        return False
    if not (copy.copy(a) == a and copy.deepcopy(a) == a):
        return False
    if ab and not (copy.copy(a) == b):
        return False
    return True


def eq_obligation(a, b):
    if _laws(a, b, shash):
        return True
    if not reachable(a, b):
        return True
    with real_hash_mode(a, b):
        return _laws(a, b, hash)


def _trans(a, b, c):
    if a == b and b == c:
        return True if a == c else False
    return True


def trans_obligation(a, b, c):
    if _trans(a, b, c):
        return True
    if not reachable(a, b, c):
        return True
    with real_hash_mode(a, b, c):
        return _trans(a, b, c)


def _nonan(*xs):
    return all(x == x for x in xs)


# ---------------------------------------------------------------------------------------------------------
# Parameter: validity

def _wellformed(p):
    return bool(p.lower <= p.init) and bool(p.init <= p.upper) and bool(p.init == p.init)


def param_create(name: str, init: float, lower: float, upper: float, fix: bool, lower_none: bool,
                 upper_none: bool) -> bool:
    """
    Parameter.create returns a parameter with lower <= init <= upper and init not NaN, or raises ValueError
    (bounds not NaN: that case is param_create_nan_bound).
    pre: lower == lower and upper == upper
    post: _ == True
    """
    with num_float_mode():
        try:
            p = P.Parameter.create(name, init, None if lower_none else lower, None if upper_none else upper, fix)
        except ValueError:
            return True
        return _wellformed(p) and p.name is name and isinstance(p.fix, bool)


def param_create_nan_bound(name: str, init: float, which: int, other: float, fix: bool) -> bool:
    """
    Same with a NaN bound (which: 0 lower, 1 upper, 2 both).
    pre: 0 <= which <= 2 and other == other
    post: _ == True
    """
    nan = float('nan')
    lower = nan if which in (0, 2) else other
    upper = nan if which in (1, 2) else other
    with num_float_mode():
        try:
            p = P.Parameter.create(name, init, lower, upper, fix)
        except ValueError:
            return True
        if _wellformed(p):
            return True
    # re-decide without the float stub
    try:
        q = P.Parameter.create(name, init, lower, upper, fix)
    except ValueError:
        return True
    return q.lower <= q.init <= q.upper and q == q


def param_replace(name: str, init: float, lower: float, upper: float, fix: bool, k: int, newname: str, v: float,
                  newfix: bool) -> bool:
    """
    replace() of a valid parameter: new valid parameter or ValueError; the original keeps its fields.
    pre: lower <= init <= upper and 0 <= k <= 4
    pre: v == v or k == 1
    post: _ == True
    """
    with num_float_mode():
        base = P.Parameter.create(name, init, lower, upper, fix)
        snap = snapshot(base)
        try:
            if k == 0:
                r = base.replace(name=newname)
            elif k == 1:
                r = base.replace(init=v)
            elif k == 2:
                r = base.replace(lower=v)
            elif k == 3:
                r = base.replace(upper=v)
            else:
                r = base.replace(fix=newfix)
        except ValueError:
            return unchanged(base, snap)
        return _wellformed(r) and r is not base and isinstance(r, P.Parameter) and unchanged(base, snap)


# ---------------------------------------------------------------------------------------------------------
# unique names

def _distinct(names):
    for i in range(len(names)):
        for j in range(i + 1, len(names)):
            if names[i] == names[j]:
                return False
    return True


def params_create_unique(n: int, n1: str, n2: str, n3: str, n4: str, via: int) -> bool:
    """
    Parameters.create (via 0), Parameters + Parameter (via 1), Parameter + Parameters (2), Parameters + Parameters (3),
    Parameters + [Parameter] (4), replace(parameters=) (5): names unique or ValueError.
    pre: 0 <= n <= MAXN + 1 and 0 <= via <= 5
    pre: small(n1, 2, 'ab') and small(n2, 2, 'ab') and small(n3, 2, 'ab') and small(n4, 2, 'ab')
    post: _ == True
    """
    ps = [P.Parameter.create(x, 0.1) for x in (n1, n2, n3, n4)[:n]]
    try:
        if via == 0 or n == 0:
            r = P.Parameters.create(ps)
        elif via == 1:
            r = P.Parameters.create(ps[:-1]) + ps[-1]
        elif via == 2:
            r = ps[0] + P.Parameters.create(ps[1:])
        elif via == 3:
            r = P.Parameters.create(ps[:1]) + P.Parameters.create(ps[1:])
        elif via == 4:
            r = P.Parameters.create(ps[:-1]) + [ps[-1]]
        else:
            r = P.Parameters.create(ps[:1]).replace(parameters=ps)
    except ValueError:
        return True
    return _distinct(r.names) and len(r) == n


class FakeDist(Distribution):
    """Distribution stand-in carrying only names (real distributions need symengine symbols)."""

    def __init__(self, names):
        self._names = tuple(names)

    names = property(lambda self: self._names)
    level = property(lambda self: 'IIV')
    mean = property(lambda self: 0)
    variance = property(lambda self: 1)
    free_symbols = property(lambda self: set())

    def replace(self, **kw):
        return self

    def get_variance(self, name):
        return 1

    def get_covariance(self, a, b):
        return 0

    def evalf(self, parameters):
        return self

    def __getitem__(self, i):
        return self

    def subs(self, d):
        return self

    def latex_string(self, aligned=False):
        return ''

    def __len__(self):
        return len(self._names)

    def __hash__(self):
        return 0


def rvs_create_unique(n: int, n1: str, n2: str, n3: str, joint: bool) -> bool:
    """
    RandomVariables.create over a sequence of distributions: all random-variable names unique or ValueError.
    pre: 0 <= n <= 3
    pre: small(n1, 2, 'ab') and small(n2, 2, 'ab') and small(n3, 2, 'ab')
    post: _ == True
    """
    names = [n1, n2, n3][:n]
    if joint and n >= 2:
        dists = [FakeDist(names[:2])] + [FakeDist([x]) for x in names[2:]]
    else:
        dists = [FakeDist([x]) for x in names]
    try:
        r = R.RandomVariables.create(dists)
    except ValueError:
        return True
    got = [x for d in r._dists for x in d.names]
    return _distinct(got) and len(got) == n


# ---------------------------------------------------------------------------------------------------------
# equality laws per class

def eqhash_Parameter(an: str, ai: float, al: float, au: float, af: bool,
                     bn: str, bi: float, bl: float, bu: float, bf: bool) -> bool:
    """
    pre: al == al and au == au and bl == bl and bu == bu
    post: _ == True
    """
    return eq_obligation(mk_param(an, ai, al, au, af), mk_param(bn, bi, bl, bu, bf))


def eq3_Parameter(an: str, ai: float, al: float, af: bool, bn: str, bi: float, bl: float, bf: bool,
                  cn: str, ci: float, cl: float, cf: bool) -> bool:
    """
    transitivity
    pre: al == al and bl == bl and cl == cl
    post: _ == True
    """
    inf = float('inf')
    return trans_obligation(mk_param(an, ai, al, inf, af), mk_param(bn, bi, bl, inf, bf), mk_param(cn, ci, cl, inf, cf))


def eqhash_Parameters(na: int, a1n: str, a1i: float, a1l: float, a1f: bool, a2n: str, a2i: float, a2l: float,
                      a2f: bool, a3n: str, a3i: float, a3f: bool,
                      nb: int, b1n: str, b1i: float, b1l: float, b1f: bool, b2n: str, b2i: float, b2l: float,
                      b2f: bool, b3n: str, b3i: float, b3f: bool) -> bool:
    """
    pre: 0 <= na <= MAXN and 0 <= nb <= MAXN
    pre: a1l == a1l and a2l == a2l and b1l == b1l and b2l == b2l
    post: _ == True
    """
    inf = float('inf')
    pa = [mk_param(a1n, a1i, a1l, inf, a1f), mk_param(a2n, a2i, a2l, inf, a2f), mk_param(a3n, a3i, -inf, inf, a3f)]
    pb = [mk_param(b1n, b1i, b1l, inf, b1f), mk_param(b2n, b2i, b2l, inf, b2f), mk_param(b3n, b3i, -inf, inf, b3f)]
    return eq_obligation(mk_params(pa[:na]), mk_params(pb[:nb]))


def _cat_ok(kind):
    return 0 <= kind <= 4 and (CATA < 0 or True)


def eqhash_ColumnInfo(an: str, at: str, au: int, asc: str, ac: bool, ak: int, ac1: str, ac2: str, adr: bool,
                      adt: str, adn: bool, ads: str,
                      bn: str, bt: str, bu: int, bsc: str, bc: bool, bk: int, bc1: str, bc2: str, bdr: bool,
                      bdt: str, bdn: bool, bds: str) -> bool:
    """
    VH_DESC=same: both objects carry the same descriptor (a's); free: independent descriptors.
    pre: 0 <= au < NU and 0 <= bu < NU and 0 <= ak <= 4 and 0 <= bk <= 4
    pre: CATA < 0 or ak == CATA
    post: _ == True
    """
    da = None if adn else ads
    db = da if DESC == 'same' else (None if bdn else bds)
    a = mk_col(an, at, au, asc, ac, mk_cats(ak, ac1, ac2), adr, adt, da)
    b = mk_col(bn, bt, bu, bsc, bc, mk_cats(bk, bc1, bc2), bdr, bdt, db)
    return eq_obligation(a, b)


def _di_col(name, type, unit_i, cat, c1, drop, desc):
    return mk_col(name, type, unit_i, 'ratio', True, (c1,) if cat else None, drop, 'float64', desc)


def eqhash_DataInfo(na: int, a1n: str, a1t: str, a1u: int, a1k: bool, a1c: str, a1d: bool,
                    a2n: str, a2t: str, a2d: bool, ap: bool, asep: str, amdt: str,
                    nb: int, b1n: str, b1t: str, b1u: int, b1k: bool, b1c: str, b1d: bool,
                    b2n: str, b2t: str, b2d: bool, bp: bool, bsep: str, bmdt: str,
                    d1n: bool, d1: str) -> bool:
    """
    Columns at the same position carry the same descriptor (finding F1 is isolated in eqhash_ColumnInfo[desc=free]).
    pre: 0 <= na <= 2 and 0 <= nb <= 2 and 0 <= a1u < NU and 0 <= b1u < NU
    post: _ == True
    """
    desc1 = None if d1n else d1
    ca = [_di_col(a1n, a1t, a1u, a1k, a1c, a1d, desc1), _di_col(a2n, a2t, 0, False, '', a2d, None)]
    cb = [_di_col(b1n, b1t, b1u, b1k, b1c, b1d, desc1), _di_col(b2n, b2t, 0, False, '', b2d, None)]
    return eq_obligation(mk_di(ca[:na], ap, asep, amdt), mk_di(cb[:nb], bp, bsep, bmdt))


def eqhash_VariabilityLevel(an: str, ar: bool, agn: bool, ag: str, bn: str, br: bool, bgn: bool, bg: str) -> bool:
    """
    post: _ == True
    """
    return eq_obligation(mk_vl(an, ar, None if agn else ag), mk_vl(bn, br, None if bgn else bg))


def eq3_VariabilityLevel(an: str, ar: bool, ag: str, bn: str, br: bool, bg: str, cn: str, cr: bool, cg: str,
                         gn: int) -> bool:
    """
    pre: 0 <= gn <= 3
    post: _ == True
    """
    return trans_obligation(mk_vl(an, ar, None if gn == 1 else ag), mk_vl(bn, br, None if gn == 2 else bg),
                            mk_vl(cn, cr, None if gn == 3 else cg))


def eqhash_VariabilityHierarchy(na: int, a1n: str, a1r: bool, a1g: str, a2n: str, a2r: bool, a2gn: bool, a2g: str,
                                a3n: str, a3r: bool,
                                nb: int, b1n: str, b1r: bool, b1g: str, b2n: str, b2r: bool, b2gn: bool, b2g: str,
                                b3n: str, b3r: bool) -> bool:
    """
    pre: 0 <= na <= MAXN and 0 <= nb <= MAXN
    post: _ == True
    """
    la = [mk_vl(a1n, a1r, a1g), mk_vl(a2n, a2r, None if a2gn else a2g), mk_vl(a3n, a3r, None)]
    lb = [mk_vl(b1n, b1r, b1g), mk_vl(b2n, b2r, None if b2gn else b2g), mk_vl(b3n, b3r, None)]
    return eq_obligation(mk_vh(la[:na]), mk_vh(lb[:nb]))


def _opt(flag, v):
    return None if (NONES and flag) else v


def eqhash_EstimationStep(am: str, aint: bool, apum: str, aev: bool, amax: int, alap: bool, ais: int, ani: int,
                          aauto: bool, akeep: int, anr: int, ar1: str, ar2: str, anp: int, ap1: str, ap2: str,
                          asol: str, artol: int, aatol: int, ano: int, ak1: str, av1: int, ak2: str, av2: int,
                          aies: bool, agi: bool, ags: bool, agb: bool,
                          bm: str, bint: bool, bpum: str, bev: bool, bmax: int, blap: bool, bis: int, bni: int,
                          bauto: bool, bkeep: int, bnr: int, br1: str, br2: str, bnp: int, bp1: str, bp2: str,
                          bsol: str, brtol: int, batol: int, bno: int, bk1: str, bv1: int, bk2: str, bv2: int,
                          bies: bool, bgi: bool, bgs: bool, bgb: bool) -> bool:
    """
    derivatives = () (Expr-valued, outside).  VH_NONES=1: the Optional int fields / str fields / `auto` are None per
    group according to the symbolic flags g*; VH_NONES=0: all set.  tool_options has <= VH_NOPT entries
    (VH_NOPT=2: exactly 2 in both objects: finding F2 isolated there).
    pre: 0 <= anr <= MAXN - 1 and 0 <= anp <= MAXN - 1 and 0 <= bnr <= MAXN - 1 and 0 <= bnp <= MAXN - 1
    pre: (ano == 2 and bno == 2) if NOPT == 2 else (0 <= ano <= NOPT and 0 <= bno <= NOPT)
    pre: min(amax, ais, ani, akeep, artol, aatol, av1, av2, bmax, bis, bni, bkeep, brtol, batol, bv1, bv2) >= 0
    post: _ == True
    """
    a = mk_est(am, aint, _opt(ags, apum), aev, _opt(agi, amax), alap, _opt(agi, ais), _opt(agi, ani),
               _opt(agb, aauto), _opt(agi, akeep), mk_strs(anr, ar1, ar2), mk_strs(anp, ap1, ap2), _opt(ags, asol),
               _opt(agi, artol), _opt(agi, aatol), mk_opts(ano, ak1, av1, ak2, av2), aies)
    b = mk_est(bm, bint, _opt(bgs, bpum), bev, _opt(bgi, bmax), blap, _opt(bgi, bis), _opt(bgi, bni),
               _opt(bgb, bauto), _opt(bgi, bkeep), mk_strs(bnr, br1, br2), mk_strs(bnp, bp1, bp2), _opt(bgs, bsol),
               _opt(bgi, brtol), _opt(bgi, batol), mk_opts(bno, bk1, bv1, bk2, bv2), bies)
    return eq_obligation(a, b)


def eqhash_SimulationStep(an: int, aseed: int, asn: bool, asol: str, artol: int, ano: int, ak1: str, av1: int,
                          bn: int, bseed: int, bsn: bool, bsol: str, brtol: int, bno: int, bk1: str, bv1: int) -> bool:
    """
    pre: 0 <= ano <= 1 and 0 <= bno <= 1
    pre: min(an, aseed, artol, av1, bn, bseed, brtol, bv1) >= 0
    post: _ == True
    """
    a = mk_sim(an, aseed, None if asn else asol, artol, None, mk_opts(ano, ak1, av1, '', 0))
    b = mk_sim(bn, bseed, None if bsn else bsol, brtol, None, mk_opts(bno, bk1, bv1, '', 0))
    return eq_obligation(a, b)


def _step(is_sim, m, inter, mx, npred, p1, no, k1, v1, n, seed):
    if is_sim:
        return mk_sim(n, seed, None, None, None, mk_opts(0, '', 0, '', 0))
    return mk_est(m, inter, None, False, mx, False, None, None, None, None, (), mk_strs(npred, p1, ''), None, None,
                  None, mk_opts(no, k1, v1, '', 0), False)


def eqhash_ExecutionSteps(na: int, a1s: bool, a1m: str, a1i: bool, a1x: int, a1np: int, a1p: str, a1no: int,
                          a1k: str, a1v: int, a1n: int, a1seed: int, a2s: bool, a2m: str, a2i: bool, a2n: int,
                          nb: int, b1s: bool, b1m: str, b1i: bool, b1x: int, b1np: int, b1p: str, b1no: int,
                          b1k: str, b1v: int, b1n: int, b1seed: int, b2s: bool, b2m: str, b2i: bool, b2n: int) -> bool:
    """
    pre: 0 <= na <= 2 and 0 <= nb <= 2
    pre: 0 <= a1np <= 1 and 0 <= b1np <= 1 and 0 <= a1no <= 1 and 0 <= b1no <= 1
    pre: min(a1x, a1v, a1n, a1seed, a2n, b1x, b1v, b1n, b1seed, b2n) >= 0
    post: _ == True
    """
    sa = [_step(a1s, a1m, a1i, a1x, a1np, a1p, a1no, a1k, a1v, a1n, a1seed),
          _step(a2s, a2m, a2i, None, 0, '', 0, '', 0, a2n, 1)]
    sb = [_step(b1s, b1m, b1i, b1x, b1np, b1p, b1no, b1k, b1v, b1n, b1seed),
          _step(b2s, b2m, b2i, None, 0, '', 0, '', 0, b2n, 1)]
    return eq_obligation(mk_steps(sa[:na]), mk_steps(sb[:nb]))


# ---------------------------------------------------------------------------------------------------------
# immutability: assigning a public attribute raises, replace() leaves the original's fields identical

def _frozen(o, v):
    snap = snapshot(o)
    for name in property_names(type(o)):
        try:
            setattr(o, name, v)
        except AttributeError:
            continue
        return False
    return unchanged(o, snap)


def _replace_ok(o, kw):
    """replace(**kw): whether it returns or raises, `o` keeps its fields; a result is a new object of the class."""
    snap = snapshot(o)
    try:
        r = o.replace(**kw)
    except Exception:
        return unchanged(o, snap)
    return r is not o and type(r) is type(o) and unchanged(o, snap)


def imm_Parameter(name: str, init: float, lower: float, fix: bool, v: str) -> bool:
    """
    pre: lower <= init
    post: _ == True
    """
    return _frozen(P.Parameter.create(name, init, lower, None, fix), v)


def imm_Parameters(n: int, n1: str, n2: str, i1: float, newn: str, k: int) -> bool:
    """
    pre: 0 <= n <= 2 and 0 <= k <= 2 and small(n1, 1, 'ab') and small(n2, 1, 'ab') and small(newn, 1, 'ab')
    pre: i1 == i1
    post: _ == True
    """
    ps = [P.Parameter.create(n1, i1), P.Parameter.create(n2, 1.0)][:n]
    try:
        o = P.Parameters.create(ps)
    except ValueError:
        return True
    if not _frozen(o, newn):
        return False
    newp = P.Parameter.create(newn, 2.0)
    kw = [dict(), dict(parameters=[newp]), dict(parameters=ps + [newp])][k]
    return _replace_ok(o, kw)


TYPES = ['unknown', 'covariate', 'id']
SCALES = ['ratio', 'nominal', 'interval', 'ordinal']
DTYPES = ['float64', 'int32', 'nmtran-date']
DESCS = [None, 'age', 'body weight']
CI_FIELDS = ['name', 'type', 'unit', 'scale', 'continuous', 'categories', 'drop', 'datatype', 'descriptor']


def imm_ColumnInfo(name: str, si: int, cont: bool, drop: bool, ck: int, c1: str, c2: str, k: int, ns: str, nb: bool,
                   nk: int) -> bool:
    """
    A created column (symbolic name/scale/continuous/drop/categories, other fields default); replace one field k
    by a symbolic value (strings for name/type/scale/datatype/descriptor, table index for unit, bool, categories).
    pre: 0 <= si <= 3 and 0 <= ck <= 4 and 0 <= k <= 8 and 0 <= nk <= 4 and small(ns, 3)
    post: _ == True
    """
    try:
        o = D.ColumnInfo.create(name, 'covariate', UNITS[1], SCALES[si], cont, mk_cats(ck, c1, c2), drop, 'float64', 'age')
    except ValueError:
        return True
    if not _frozen(o, ns):
        return False
    f = CI_FIELDS[k]
    if f == 'unit':
        val = UNITS[nk % len(UNITS)]
    elif f in ('continuous', 'drop'):
        val = nb
    elif f == 'categories':
        val = [None, [ns], {ns: c1}, (c1, ns), 7][nk]
    else:
        val = ns
    return _replace_ok(o, {f: val})


def imm_DataInfo(n: int, n1: str, n2: str, drop: bool, has_path: bool, sep: str, k: int, ns: str) -> bool:
    """
    pre: 0 <= n <= 2 and 0 <= k <= 4 and small(ns, 3)
    post: _ == True
    """
    cols = [D.ColumnInfo.create(n1, drop=drop), n2][:n]
    o = D.DataInfo.create(cols, path='/d/x.csv' if has_path else None, separator=sep)
    if not _frozen(o, ns):
        return False
    kw = [dict(), dict(columns=[D.ColumnInfo.create(ns)]), dict(path=None), dict(separator=ns),
          dict(missing_data_token=ns)][k]
    return _replace_ok(o, kw)


def imm_VariabilityLevel(name: str, ref: bool, gn: bool, g: str, k: int, ns: str, nb: bool) -> bool:
    """
    pre: 0 <= k <= 3
    post: _ == True
    """
    o = R.VariabilityLevel.create(name, ref, None if gn else g)
    if not _frozen(o, ns):
        return False
    kw = [dict(), dict(name=ns), dict(reference=nb), dict(group=ns)][k]
    return _replace_ok(o, kw)


def imm_VariabilityHierarchy(n: int, n1: str, r1: bool, n2: str, r2: bool, k: int, ns: str, nr: bool) -> bool:
    """
    pre: 0 <= n <= 2 and 0 <= k <= 2
    post: _ == True
    """
    lv = [R.VariabilityLevel.create(n1, r1), R.VariabilityLevel.create(n2, r2)][:n]
    try:
        o = R.VariabilityHierarchy.create(lv)
    except ValueError:
        return True
    if not _frozen(o, ns):
        return False
    new = R.VariabilityLevel.create(ns, nr)
    kw = [dict(), dict(levels=[new]), dict(levels=lv + [new])][k]
    return _replace_ok(o, kw)


METHODS = ['foce', 'FO', 'imp']
ES_FIELDS = ['method', 'interaction', 'parameter_uncertainty_method', 'evaluation', 'maximum_evaluations',
             'laplace', 'isample', 'niter', 'auto', 'keep_every_nth_iter', 'residuals', 'predictions', 'solver',
             'solver_rtol', 'solver_atol', 'tool_options', 'derivatives', 'individual_eta_samples']


def imm_EstimationStep(mi: int, inter: bool, mx: int, p1: str, k1: str, v1: int, k: int, ns: str, nb: bool,
                       ni: int, nn: bool) -> bool:
    """
    pre: 0 <= mi <= 2 and 1 <= mx <= 9999 and 0 <= k <= 17 and small(ns, 2, 'FOfo')
    post: _ == True
    """
    o = X.EstimationStep.create(METHODS[mi], interaction=inter, maximum_evaluations=mx, predictions=[p1, 'a'],
                                tool_options={k1: v1}, solver='lsoda')
    if not _frozen(o, ns):
        return False
    f = ES_FIELDS[k]
    if f in ('method', 'parameter_uncertainty_method', 'solver'):
        val = None if (nn and f != 'method') else ns
    elif f in ('interaction', 'evaluation', 'laplace', 'auto', 'individual_eta_samples'):
        val = nb
    elif f in ('residuals', 'predictions'):
        val = [ns, p1]
    elif f == 'tool_options':
        val = {ns: ni}
    elif f == 'derivatives':
        val = ()
    else:
        val = None if nn else ni
    return _replace_ok(o, {f: val})


def imm_SimulationStep(n: int, seed: int, k: int, ni: int) -> bool:
    """
    pre: 1 <= n and 0 <= k <= 2
    post: _ == True
    """
    o = X.SimulationStep.create(n=n, seed=seed)
    if not _frozen(o, ni):
        return False
    kw = [dict(), dict(n=ni), dict(seed=ni)][k]
    return _replace_ok(o, kw)


def imm_ExecutionSteps(n: int, s1: bool, mi: int, inter: bool, nn: int, k: int) -> bool:
    """
    pre: 0 <= n <= 2 and 0 <= mi <= 2 and 1 <= nn and 0 <= k <= 2
    post: _ == True
    """
    st = [X.SimulationStep.create(n=nn) if s1 else X.EstimationStep.create(METHODS[mi], interaction=inter),
          X.EstimationStep.create('fo')][:n]
    o = X.ExecutionSteps.create(st)
    if not _frozen(o, nn):
        return False
    kw = [dict(), dict(steps=[]), dict(steps=st + st)][k]
    return _replace_ok(o, kw)


# ---------------------------------------------------------------------------------------------------------
# reachability twins: same pre, violated exactly when the obligation returns True

def param_create__twin(name: str, init: float, lower: float, upper: float, fix: bool, lower_none: bool,
                       upper_none: bool) -> bool:
    """
    pre: lower == lower and upper == upper
    pre: lower <= init <= upper
    post: _ == True
    """
    return not param_create(name, init, lower, upper, fix, lower_none, upper_none)


def param_create_nan_bound__twin(name: str, init: float, which: int, other: float, fix: bool) -> bool:
    """
    pre: 0 <= which <= 2 and other == other
    post: _ == True
    """
    return not param_create_nan_bound(name, init, which, other, fix)


def param_replace__twin(name: str, init: float, lower: float, upper: float, fix: bool, k: int, newname: str, v: float,
                        newfix: bool) -> bool:
    """
    pre: lower <= init <= upper and 0 <= k <= 4
    pre: v == v or k == 1
    pre: k == 1 and lower <= v <= upper
    post: _ == True
    """
    return not param_replace(name, init, lower, upper, fix, k, newname, v, newfix)


def params_create_unique__twin(n: int, n1: str, n2: str, n3: str, n4: str, via: int) -> bool:
    """
    pre: 0 <= n <= MAXN + 1 and 0 <= via <= 5
    pre: small(n1, 2, 'ab') and small(n2, 2, 'ab') and small(n3, 2, 'ab') and small(n4, 2, 'ab')
    pre: n >= 2 and n1 != n2 and n1 != n3 and n2 != n3 and n4 not in (n1, n2, n3)
    post: _ == True
    """
    return not params_create_unique(n, n1, n2, n3, n4, via)


def rvs_create_unique__twin(n: int, n1: str, n2: str, n3: str, joint: bool) -> bool:
    """
    pre: 0 <= n <= 3
    pre: small(n1, 2, 'ab') and small(n2, 2, 'ab') and small(n3, 2, 'ab')
    pre: n >= 2 and n1 != n2 and n1 != n3 and n2 != n3
    post: _ == True
    """
    return not rvs_create_unique(n, n1, n2, n3, joint)


def eqhash_Parameter__twin(an: str, ai: float, al: float, au: float, af: bool,
                           bn: str, bi: float, bl: float, bu: float, bf: bool) -> bool:
    """
    pre: al == al and au == au and bl == bl and bu == bu
    pre: al <= ai <= au and an == bn and ai == bi and al == bl and au == bu and af == bf
    post: _ == True
    """
    a, b = mk_param(an, ai, al, au, af), mk_param(bn, bi, bl, bu, bf)
    return not (eq_obligation(a, b) and a == b)


def eq3_Parameter__twin(an: str, ai: float, al: float, af: bool, bn: str, bi: float, bl: float, bf: bool,
                        cn: str, ci: float, cl: float, cf: bool) -> bool:
    """
    pre: al == al and bl == bl and cl == cl
    pre: an == bn == cn and ai == bi == ci and al == bl == cl and af == bf == cf and al <= ai
    post: _ == True
    """
    inf = float('inf')
    a, b, c = mk_param(an, ai, al, inf, af), mk_param(bn, bi, bl, inf, bf), mk_param(cn, ci, cl, inf, cf)
    return not (trans_obligation(a, b, c) and a == b and b == c)


def eqhash_Parameters__twin(na: int, a1n: str, a1i: float, a1l: float, a1f: bool, a2n: str, a2i: float, a2l: float,
                            a2f: bool, a3n: str, a3i: float, a3f: bool,
                            nb: int, b1n: str, b1i: float, b1l: float, b1f: bool, b2n: str, b2i: float, b2l: float,
                            b2f: bool, b3n: str, b3i: float, b3f: bool) -> bool:
    """
    pre: 0 <= na <= MAXN and 0 <= nb <= MAXN
    pre: a1l == a1l and a2l == a2l and b1l == b1l and b2l == b2l
    pre: na == nb == 2 and a1n == b1n and a1i == b1i and a1l == b1l and a1f == b1f
    pre: a2n == b2n and a2i == b2i and a2l == b2l and a2f == b2f
    post: _ == True
    """
    inf = float('inf')
    a = mk_params([mk_param(a1n, a1i, a1l, inf, a1f), mk_param(a2n, a2i, a2l, inf, a2f)])
    b = mk_params([mk_param(b1n, b1i, b1l, inf, b1f), mk_param(b2n, b2i, b2l, inf, b2f)])
    return not (eq_obligation(a, b) and a == b)


def eqhash_ColumnInfo__twin(an: str, at: str, au: int, asc: str, ac: bool, ak: int, ac1: str, ac2: str, adr: bool,
                            adt: str, adn: bool, ads: str,
                            bn: str, bt: str, bu: int, bsc: str, bc: bool, bk: int, bc1: str, bc2: str, bdr: bool,
                            bdt: str, bdn: bool, bds: str) -> bool:
    """
    pre: 0 <= au < NU and 0 <= bu < NU and 0 <= ak <= 4 and 0 <= bk <= 4
    pre: CATA < 0 or ak == CATA
    pre: an == bn and at == bt and au == bu and asc == bsc and ac == bc and ak == bk and ac1 == bc1 and ac2 == bc2
    pre: adr == bdr and adt == bdt and adn == bdn and ads == bds
    post: _ == True
    """
    da = None if adn else ads
    a = mk_col(an, at, au, asc, ac, mk_cats(ak, ac1, ac2), adr, adt, da)
    b = mk_col(bn, bt, bu, bsc, bc, mk_cats(bk, bc1, bc2), bdr, bdt, da)
    return not (eq_obligation(a, b) and a == b)


def eqhash_DataInfo__twin(na: int, a1n: str, a1t: str, a1u: int, a1k: bool, a1c: str, a1d: bool,
                          a2n: str, a2t: str, a2d: bool, ap: bool, asep: str, amdt: str,
                          nb: int, b1n: str, b1t: str, b1u: int, b1k: bool, b1c: str, b1d: bool,
                          b2n: str, b2t: str, b2d: bool, bp: bool, bsep: str, bmdt: str,
                          d1n: bool, d1: str) -> bool:
    """
    pre: 0 <= na <= 2 and 0 <= nb <= 2 and 0 <= a1u < NU and 0 <= b1u < NU
    pre: na == nb == 2 and a1n == b1n and a1t == b1t and a1u == b1u and a1k == b1k and a1c == b1c and a1d == b1d
    pre: a2n == b2n and a2t == b2t and a2d == b2d
    post: _ == True
    """
    desc1 = None if d1n else d1
    ca = [_di_col(a1n, a1t, a1u, a1k, a1c, a1d, desc1), _di_col(a2n, a2t, 0, False, '', a2d, None)]
    cb = [_di_col(b1n, b1t, b1u, b1k, b1c, b1d, desc1), _di_col(b2n, b2t, 0, False, '', b2d, None)]
    a, b = mk_di(ca, ap, asep, amdt), mk_di(cb, bp, bsep, bmdt)
    return not (eq_obligation(a, b) and a == b)


def eqhash_VariabilityLevel__twin(an: str, ar: bool, agn: bool, ag: str, bn: str, br: bool, bgn: bool, bg: str) -> bool:
    """
    pre: an == bn and ar == br and agn == bgn and ag == bg
    post: _ == True
    """
    a, b = mk_vl(an, ar, None if agn else ag), mk_vl(bn, br, None if bgn else bg)
    return not (eq_obligation(a, b) and a == b)


def eq3_VariabilityLevel__twin(an: str, ar: bool, ag: str, bn: str, br: bool, bg: str, cn: str, cr: bool, cg: str,
                               gn: int) -> bool:
    """
    pre: gn == 0 and an == bn == cn and ar == br == cr and ag == bg == cg
    post: _ == True
    """
    a, b, c = mk_vl(an, ar, ag), mk_vl(bn, br, bg), mk_vl(cn, cr, cg)
    return not (trans_obligation(a, b, c) and a == b and b == c)


def eqhash_VariabilityHierarchy__twin(na: int, a1n: str, a1r: bool, a1g: str, a2n: str, a2r: bool, a2gn: bool,
                                      a2g: str, a3n: str, a3r: bool,
                                      nb: int, b1n: str, b1r: bool, b1g: str, b2n: str, b2r: bool, b2gn: bool,
                                      b2g: str, b3n: str, b3r: bool) -> bool:
    """
    pre: 0 <= na <= MAXN and 0 <= nb <= MAXN
    pre: na == nb == 2 and a1n == b1n and a1r == b1r and a1g == b1g and a2n == b2n and a2r == b2r and a2gn == b2gn
    pre: a2g == b2g
    post: _ == True
    """
    a = mk_vh([mk_vl(a1n, a1r, a1g), mk_vl(a2n, a2r, None if a2gn else a2g)])
    b = mk_vh([mk_vl(b1n, b1r, b1g), mk_vl(b2n, b2r, None if b2gn else b2g)])
    return not (eq_obligation(a, b) and a == b)


def eqhash_EstimationStep__twin(am: str, aint: bool, amax: int, anp: int, ap1: str, ano: int, ak1: str,
                                av1: int) -> bool:
    """
    pre: 0 <= anp <= 1 and 0 <= ano <= 1 and amax >= 0 and av1 >= 0
    post: _ == True
    """
    a = mk_est(am, aint, None, False, amax, False, None, None, None, None, (), mk_strs(anp, ap1, ''), None, None, None,
               mk_opts(ano, ak1, av1, '', 0), False)
    b = mk_est(am, aint, None, False, amax, False, None, None, None, None, (), mk_strs(anp, ap1, ''), None, None, None,
               mk_opts(ano, ak1, av1, '', 0), False)
    return not (eq_obligation(a, b) and a == b)


def eqhash_SimulationStep__twin(an: int, aseed: int, asn: bool, asol: str, artol: int, ano: int, ak1: str,
                                av1: int) -> bool:
    """
    pre: 0 <= ano <= 1 and min(an, aseed, artol, av1) >= 0
    post: _ == True
    """
    a = mk_sim(an, aseed, None if asn else asol, artol, None, mk_opts(ano, ak1, av1, '', 0))
    b = mk_sim(an, aseed, None if asn else asol, artol, None, mk_opts(ano, ak1, av1, '', 0))
    return not (eq_obligation(a, b) and a == b)


def eqhash_ExecutionSteps__twin(a1s: bool, a1m: str, a1i: bool, a1x: int, a1n: int, a1seed: int, a2m: str) -> bool:
    """
    pre: min(a1x, a1n, a1seed) >= 0
    post: _ == True
    """
    def mk():
        return mk_steps([_step(a1s, a1m, a1i, a1x, 0, '', 0, '', 0, a1n, a1seed),
                         _step(False, a2m, False, None, 0, '', 0, '', 0, 1, 1)])
    a, b = mk(), mk()
    return not (eq_obligation(a, b) and a == b)


def imm_Parameter__twin(name: str, init: float, lower: float, fix: bool, v: str) -> bool:
    """
    pre: lower <= init
    post: _ == True
    """
    return not imm_Parameter(name, init, lower, fix, v)


def imm_Parameters__twin(n: int, n1: str, n2: str, i1: float, newn: str, k: int) -> bool:
    """
    pre: 0 <= n <= 2 and 0 <= k <= 2 and small(n1, 1, 'ab') and small(n2, 1, 'ab') and small(newn, 1, 'ab')
    pre: i1 == i1 and n == 2 and n1 != n2 and k == 2 and newn != n1 and newn != n2
    post: _ == True
    """
    return not imm_Parameters(n, n1, n2, i1, newn, k)


def imm_ColumnInfo__twin(name: str, si: int, cont: bool, drop: bool, ck: int, c1: str, c2: str, k: int, ns: str,
                         nb: bool, nk: int) -> bool:
    """
    pre: 0 <= si <= 3 and 0 <= ck <= 4 and 0 <= k <= 8 and 0 <= nk <= 4 and small(ns, 3)
    pre: si == 0 and cont and k == 0
    post: _ == True
    """
    return not imm_ColumnInfo(name, si, cont, drop, ck, c1, c2, k, ns, nb, nk)


def imm_DataInfo__twin(n: int, n1: str, n2: str, drop: bool, has_path: bool, sep: str, k: int, ns: str) -> bool:
    """
    pre: 0 <= n <= 2 and 0 <= k <= 4 and small(ns, 3)
    pre: n == 2 and k == 3
    post: _ == True
    """
    return not imm_DataInfo(n, n1, n2, drop, has_path, sep, k, ns)


def imm_VariabilityLevel__twin(name: str, ref: bool, gn: bool, g: str, k: int, ns: str, nb: bool) -> bool:
    """
    pre: 0 <= k <= 3
    pre: k == 1
    post: _ == True
    """
    return not imm_VariabilityLevel(name, ref, gn, g, k, ns, nb)


def imm_VariabilityHierarchy__twin(n: int, n1: str, r1: bool, n2: str, r2: bool, k: int, ns: str, nr: bool) -> bool:
    """
    pre: 0 <= n <= 2 and 0 <= k <= 2
    pre: n == 2 and r1 and not r2 and k == 2 and not nr
    post: _ == True
    """
    return not imm_VariabilityHierarchy(n, n1, r1, n2, r2, k, ns, nr)


def imm_EstimationStep__twin(mi: int, inter: bool, mx: int, p1: str, k1: str, v1: int, k: int, ns: str, nb: bool,
                             ni: int, nn: bool) -> bool:
    """
    pre: 0 <= mi <= 2 and 1 <= mx <= 9999 and 0 <= k <= 17 and small(ns, 2, 'FOfo')
    pre: k == 0 and ns == 'fo'
    post: _ == True
    """
    return not imm_EstimationStep(mi, inter, mx, p1, k1, v1, k, ns, nb, ni, nn)


def imm_SimulationStep__twin(n: int, seed: int, k: int, ni: int) -> bool:
    """
    pre: 1 <= n and 0 <= k <= 2
    pre: k == 1 and ni >= 1
    post: _ == True
    """
    return not imm_SimulationStep(n, seed, k, ni)


def imm_ExecutionSteps__twin(n: int, s1: bool, mi: int, inter: bool, nn: int, k: int) -> bool:
    """
    pre: 0 <= n <= 2 and 0 <= mi <= 2 and 1 <= nn and 0 <= k <= 2
    pre: n == 2 and k == 2
    post: _ == True
    """
    return not imm_ExecutionSteps(n, s1, mi, inter, nn, k)
