"""C13 — datasets are read by NM-TRAN's rules (docs/NONMEM.rst): CrossHair obligations over the REAL functions of
pharmpy.model.external.nonmem.dataset and parsing.parse_column_info.

The reference ("oracle") side is written from docs/NONMEM.rst only:
  * row splitting: a character-level automaton for "delimiter is comma, space or TAB; spaces around a comma and after
    a TAB are eaten; spaces at both ends of a row are ignored; a comma at the beginning/end inserts a NULL".
  * prefilter: line based: comment lines (IGNORE=c / default # / IGNORE=@) are removed, a TAB preceded by a space is an
    error, a line consisting of spaces/TABs only is an error.
  * items: Fortran real syntax with E/e/D/d exponent, the short form a+b / a-b, lone sign = 0, '.'/'' = NULL, max 24.
Everything the docs do not say is left out of the precondition (see `outside` in checks/C13.py).
"""
import ast
import inspect
import os
import re
import textwrap
import warnings
from io import StringIO
from typing import List

warnings.simplefilter('ignore')

import pharmpy.model.external.nonmem.dataset as D  # noqa: E402
import pharmpy.model.external.nonmem.parsing as P  # noqa: E402
from pharmpy.model import DatasetError  # noqa: E402

TAB = chr(9)
NL = chr(10)
# VH_REAL=1: second-stage confirmation of a counterexample: the same obligations evaluated concretely with NO stubs
# (real numpy, real StringIO, real pandas row reader, real $INPUT record parsed by the real NM-TRAN parser).
REAL = os.environ.get('VH_REAL') == '1'


def _env_int(name, default):
    try:
        return int(os.environ.get(name, default))
    except ValueError:
        return default


# --------------------------------------------------------------------------------------------------------------
# (1) row splitting.  The separator is taken from the source of read_nonmem_dataset at import (never stored).

def extract_sep():
    src = textwrap.dedent(inspect.getsource(D.read_nonmem_dataset))
    for node in ast.walk(ast.parse(src)):
        if isinstance(node, ast.Call) and getattr(node.func, 'attr', '') == 'read_table':
            for kw in node.keywords:
                if kw.arg == 'sep':
                    return ast.literal_eval(kw.value)
    raise RuntimeError('separator regex not found in read_nonmem_dataset')


SEP = extract_sep()
ROWALPHA = '1.-, ' + TAB
ROW_MAX = _env_int('VH_ROWMAX', 4)
ROW_LEN = _env_int('VH_ROWLEN', -1)        # exact length pinned by the runner (-1: any length <= ROW_MAX)
ROW_FIRST = _env_int('VH_ROWFIRST', -1)    # index into ROWALPHA of the first character (-1: any)
ROW_SECOND = _env_int('VH_ROWSECOND', -1)


def row_in_claim(row):
    """Rows the documentation speaks about: no space before a TAB (that is an error, obligation 2), not blank, and
    the row does not begin or end with a TAB (the docs give the begin/end rule for commas only)."""
    if ' ' + TAB in row:
        return False
    s = row.strip(' ')
    if s == '':
        return False
    if s[0] == TAB or s[-1] == TAB:
        return False
    return True


def _row_split(row):
    if ROW_LEN >= 0 and len(row) != ROW_LEN:
        return False
    if ROW_FIRST >= 0 and (len(row) < 1 or row[0] != ROWALPHA[ROW_FIRST]):
        return False
    if ROW_SECOND >= 0 and (len(row) < 2 or row[1] != ROWALPHA[ROW_SECOND]):
        return False
    return True


def ref_fields(row):
    """Character-level automaton written from docs/NONMEM.rst."""
    s = row.strip(' ')
    n = len(s)
    fields = []
    start = 0
    i = 0
    while i < n:
        c = s[i]
        if c != ' ' and c != ',' and c != TAB:
            i += 1
            continue
        fields.append(s[start:i])
        # one delimiter: [spaces] (comma | TAB) [spaces]   or   spaces
        while i < n and s[i] == ' ':
            i += 1
        if i < n and (s[i] == ',' or s[i] == TAB):
            i += 1
            while i < n and s[i] == ' ':
                i += 1
        start = i
    fields.append(s[start:n])
    return fields


def rowsplit(row: str) -> bool:
    """
    pandas' python engine splits each line with re.compile(sep).split(line.strip()); sep is pharmpy's literal.
    pre: len(row) <= ROW_MAX and _row_split(row)
    pre: all(c in ROWALPHA for c in row)
    pre: row_in_claim(row)
    post: _ == True
    """
    if REAL:
        import pandas as pd
        df = pd.read_table(StringIO(row + NL), sep=SEP, na_filter=False, header=None, engine='python', quoting=3,
                           dtype=object, index_col=False)
        got = [str(v) for v in df.iloc[0]]
    else:
        got = re.compile(SEP).split(row.strip())
    return got == ref_fields(row)


def rowsplit__twin(row: str) -> bool:
    """
    pre: len(row) <= ROW_MAX and _row_split(row)
    pre: all(c in ROWALPHA for c in row)
    pre: row_in_claim(row)
    post: _ == True
    """
    return not rowsplit(row)


# --------------------------------------------------------------------------------------------------------------
# (2) NMTRANDataIO prefilter

class _Src:
    def __init__(self, text):
        self.text = text

    def read(self):
        return self.text


class _Capture(StringIO):
    """Takes the place of StringIO.__init__ in the MRO of the probe class below: records the string the real
    NMTRANDataIO.__init__ hands to its base class instead of copying it into a C buffer."""

    def __init__(self, contents=''):
        self.captured = contents


class _Probe(D.NMTRANDataIO, _Capture):
    pass


IGN = os.environ.get('VH_IGN', '#')          # ignore character for this process ('' = not given)
PRE_MAX = _env_int('VH_PREMAX', 4)
PRE_FIRST = _env_int('VH_PREFIRST', -1)
PRE_LEN = _env_int('VH_PRELEN', -1)
PRE_BLANKPOS = os.environ.get('VH_BLANKPOS', '')   # 'last' | 'inner' | ''
PRE_LASTKIND = os.environ.get('VH_LASTKIND', '')   # 'comment' | 'data' | ''


def _pre_alpha():
    # '@' is left out for IGNORE=@: the docs give the class [a-zA-Z#] while pharmpy (like NM-TRAN itself) also
    # drops lines starting with '@'; that difference is not decided here.
    base = '1 #' + TAB + NL
    if IGN == '@':
        return base + 'a'
    if IGN in ('', '#'):
        return base + 'a'
    return base + IGN


PREALPHA = _pre_alpha()


def is_comment_line(line):
    c = IGN if IGN else '#'
    if c == '@':
        k = 0
        while k < len(line) and (line[k] == ' ' or line[k] == TAB):
            k += 1
        if k == len(line):
            return False
        ch = line[k]
        return ch == '#' or ('a' <= ch <= 'z') or ('A' <= ch <= 'Z')
    return len(line) > 0 and line[0] == c


def is_blank_line(line):
    return all(ch == ' ' or ch == TAB for ch in line)


def split_lines(text):
    """-> (terminated lines, unterminated last line or None)"""
    parts = text.split(NL)
    last = parts.pop()
    return parts, (last if last != '' else None)


def ref_prefilter(text):
    """-> ('error', why) or ('ok', contents)"""
    lines, last = split_lines(text)
    kept = [ln for ln in lines if not is_comment_line(ln)]
    out = ''.join(ln + NL for ln in kept)
    if last is not None and not is_comment_line(last):
        kept.append(last)
        out = out + last
    for ln in kept:
        if ' ' + TAB in ln:
            return ('error', '')
    for ln in kept:
        if is_blank_line(ln):
            return ('error', '')
    return ('ok', out)


def run_prefilter(text):
    try:
        if REAL:
            return ('ok', D.NMTRANDataIO(StringIO(text), IGN).read())
        p = _Probe(_Src(text), IGN)
    except DatasetError:
        return ('error', '')
    return ('ok', p.captured)


def _pre_split(text):
    if PRE_LEN >= 0 and len(text) != PRE_LEN:
        return False
    if PRE_FIRST >= 0 and (len(text) < 1 or text[0] != PREALPHA[PRE_FIRST]):
        return False
    return True


def _terminated(text):
    return text == '' or text[-1] == NL


def _kept_lines(text):
    """-> (terminated non-comment lines, unterminated non-comment last line or None)"""
    lines, last = split_lines(text)
    kept = [ln for ln in lines if not is_comment_line(ln)]
    if last is not None and is_comment_line(last):
        last = None
    return kept, last


def _has_blank(text):
    """some newline-terminated data line is blank"""
    return any(is_blank_line(ln) for ln in _kept_lines(text)[0])


def _has_space_tab(text):
    kept, last = _kept_lines(text)
    return any(' ' + TAB in ln for ln in kept) or (last is not None and ' ' + TAB in last)


def _blank_pos_ok(text):
    """Case split of the blank-line rule: 'last' = the text ends with its blank lines (every line after the first
    blank line is a terminated blank line); 'inner' = anything follows a blank line (a data line, or an unterminated
    rest)."""
    if PRE_BLANKPOS == '':
        return True
    kept, last = _kept_lines(text)
    seen_blank = False
    inner = False
    for ln in kept:
        if is_blank_line(ln):
            seen_blank = True
        elif seen_blank:
            inner = True
    if seen_blank and split_lines(text)[1] is not None:
        inner = True        # an unterminated rest (data or comment) follows the blank line
    return inner == (PRE_BLANKPOS == 'inner')


def _last_ok(text):
    """The unterminated last line is a non-blank data line or a comment line (case split by the runner); the lines
    before it contain no blank line and no space-TAB (those rules have their own obligations)."""
    if _terminated(text):
        return False
    last = split_lines(text)[1]
    if is_blank_line(last) or _has_blank(text) or _has_space_tab(text):
        return False
    if PRE_LASTKIND == '':
        return True
    return is_comment_line(last) == (PRE_LASTKIND == 'comment')


def prefilter_comments(text: str) -> bool:
    """
    Comment lines are removed, everything else is handed on unchanged (texts without blank lines / space-TAB, every
    line newline-terminated).
    pre: len(text) <= PRE_MAX and _pre_split(text)
    pre: all(c in PREALPHA for c in text)
    pre: _terminated(text) and not _has_blank(text) and not _has_space_tab(text)
    post: _ == True
    """
    return run_prefilter(text) == ref_prefilter(text)


def prefilter_spacetab(text: str) -> bool:
    """
    A TAB preceded by a space in a data (non-comment) line is refused.
    pre: len(text) <= PRE_MAX and _pre_split(text)
    pre: all(c in PREALPHA for c in text)
    pre: _has_space_tab(text)
    post: _ == True
    """
    return run_prefilter(text)[0] == 'error'


def prefilter_blank(text: str) -> bool:
    """
    A newline-terminated data line that is empty or holds only spaces and TABs is refused.
    pre: len(text) <= PRE_MAX and _pre_split(text)
    pre: all(c in PREALPHA for c in text)
    pre: _has_blank(text) and _blank_pos_ok(text)
    post: _ == True
    """
    return run_prefilter(text)[0] == 'error'


def prefilter_lastline(text: str) -> bool:
    """
    A last line without a newline is a line: removed when it is a comment line, kept otherwise.  (A blank unterminated
    last line is not in the claim.)
    pre: len(text) <= PRE_MAX and _pre_split(text)
    pre: all(c in PREALPHA for c in text)
    pre: _last_ok(text)
    post: _ == True
    """
    return run_prefilter(text) == ref_prefilter(text)


def prefilter_comments__twin(text: str) -> bool:
    """
    pre: len(text) <= PRE_MAX and _pre_split(text)
    pre: all(c in PREALPHA for c in text)
    pre: _terminated(text) and not _has_blank(text) and not _has_space_tab(text)
    post: _ == True
    """
    return not prefilter_comments(text)


def prefilter_spacetab__twin(text: str) -> bool:
    """
    pre: len(text) <= PRE_MAX and _pre_split(text)
    pre: all(c in PREALPHA for c in text)
    pre: _has_space_tab(text)
    post: _ == True
    """
    return not prefilter_spacetab(text)


def prefilter_blank__twin(text: str) -> bool:
    """
    pre: len(text) <= PRE_MAX and _pre_split(text)
    pre: all(c in PREALPHA for c in text)
    pre: _has_blank(text) and _blank_pos_ok(text)
    post: _ == True
    """
    return not prefilter_blank(text)


def prefilter_lastline__twin(text: str) -> bool:
    """
    pre: len(text) <= PRE_MAX and _pre_split(text)
    pre: all(c in PREALPHA for c in text)
    pre: _last_ok(text)
    post: _ == True
    """
    return not prefilter_lastline(text)


# --------------------------------------------------------------------------------------------------------------
# (3) data items.  np.float64 -> recorder accepting exactly Python's float syntax over the item alphabet.

PYFLOAT = re.compile(r'[+-]?([0-9]+[.]?[0-9]*|[.][0-9]+)([eE][+-]?[0-9]+)?')


class Rec:
    def __init__(self, s):
        self.s = s


class _Nan:
    pass


NAN = _Nan()


class FakeNp:
    nan = NAN

    @staticmethod
    def float64(s):
        if not isinstance(s, str) or not PYFLOAT.fullmatch(s):
            raise ValueError(s)
        return Rec(s)


if not REAL:
    D.np = FakeNp

ITEMALPHA = os.environ.get('VH_ITEMALPHA', '19.+-EDd')
ITEM_MAX = _env_int('VH_ITEMMAX', 4)
ITEM_LEN = _env_int('VH_ITEMLEN', -1)
ITEM_FIRST = _env_int('VH_ITEMFIRST', -1)
ITEM_SECOND = _env_int('VH_ITEMSECOND', -1)
ITEM_THIRD = _env_int('VH_ITEMTHIRD', -1)
MDT = '-99'   # pharmpy's default conf.missing_data_token


def _item_split(x):
    if ITEM_LEN >= 0 and len(x) != ITEM_LEN:
        return False
    if ITEM_FIRST >= 0 and (len(x) < 1 or x[0] != ITEMALPHA[ITEM_FIRST]):
        return False
    if ITEM_SECOND >= 0 and (len(x) < 2 or x[1] != ITEMALPHA[ITEM_SECOND]):
        return False
    if ITEM_THIRD >= 0 and (len(x) < 3 or x[2] != ITEMALPHA[ITEM_THIRD]):
        return False
    return True


# documented forms (docs/NONMEM.rst): ordinary real numbers, E/e/D/d exponents, the short form a+b / a-b
_M = r'(?:[0-9]+[.]?[0-9]*|[.][0-9]+)'
PLAIN = re.compile(r'([+-]?)(' + _M + r')')
EXPO = re.compile(r'([+-]?)(' + _M + r')(?:[EeDd]([+-]?)|([+-]))([0-9]+)')
# regions of the two known defects (each has its own obligation; the main obligation excludes exactly these)
REGION_A = re.compile(r'[+-]' + _M + r'[Dd][+-]?[0-9]+')                 # signed mantissa with D exponent
REGION_B = re.compile(r'[+-]?' + _M + r'[+-][0-9]+[-+dD][0-9.+EeDd-]*')     # short form followed by junk


def parse_item(x):
    """documented number -> (negative, mantissa, exponent negative, exponent digits); None if not a documented form"""
    m = PLAIN.fullmatch(x)
    if m:
        return (m.group(1) == '-', m.group(2), False, '')
    m = EXPO.fullmatch(x)
    if m:
        es = m.group(3) if m.group(4) is None else m.group(4)
        return (m.group(1) == '-', m.group(2), es == '-', m.group(5))
    return None


def ref_item(x, null_value):
    """-> ('zero',) | ('nan',) | ('num', parts) | ('illegal',)"""
    if x == '.' or x == '':
        x = null_value
    if x == MDT:
        return ('nan',)
    if x == '+' or x == '-':
        return ('value', 0.0) if REAL else ('zero',)
    p = parse_item(x)
    if p is None:
        return ('illegal',)
    if REAL:
        return ('value', _value(p))
    return ('num', p)


def _value(parts):
    neg, mant, eneg, ed = parts
    return float(('-' if neg else '') + mant + ('E' + ('-' if eneg else '') + ed if ed else ''))


def run_item(x, null_value):
    try:
        got = D._convert_data_item(x, null_value, MDT)
    except DatasetError:
        return ('illegal',)
    if REAL:
        return ('nan',) if got != got else ('value', float(got))
    if got is NAN:
        return ('nan',)
    if isinstance(got, Rec):
        p = parse_item(got.s)
        if p is None:
            return ('bad string handed to float', got.s)
        return ('num', p)
    if isinstance(got, float) and got == 0.0:
        return ('zero',)
    return ('unexpected', repr(got))


def in_region_a(x):
    return REGION_A.fullmatch(x) is not None


def in_region_b(x):
    return REGION_B.fullmatch(x) is not None


def item(x: str) -> bool:
    """
    Every documented item form is converted to its documented value (compared as sign/mantissa/exponent of the string
    handed to the float constructor), NULL ('.' and '') becomes the NULL value (default '0'), the missing data token
    becomes NaN, and every other item over the number alphabet is refused with DatasetError.  Regions A and B (known
    defects) have their own obligations below.
    pre: len(x) <= ITEM_MAX and _item_split(x)
    pre: all(c in ITEMALPHA for c in x)
    pre: not in_region_a(x) and not in_region_b(x)
    post: _ == True
    """
    return run_item(x, '0') == ref_item(x, '0')


def item_signed_dexp(x: str) -> bool:
    """
    Region A: a signed number with a D/d exponent ("D or d instead of E or e are allowed") is read like its E form.
    pre: len(x) <= ITEM_MAX and _item_split(x)
    pre: all(c in ITEMALPHA for c in x)
    pre: in_region_a(x)
    post: _ == True
    """
    return run_item(x, '0') == ref_item(x, '0')


def item_shortform_junk(x: str) -> bool:
    """
    Region B: the short form a+b / a-b followed by further characters (+ - D d ...) is not a number and is refused.
    pre: len(x) <= ITEM_MAX and _item_split(x)
    pre: all(c in ITEMALPHA for c in x)
    pre: in_region_b(x)
    post: _ == True
    """
    return run_item(x, '0') == ('illegal',)


OTHERALPHA = '1.-Ex,'


def item_otherchar(x: str) -> bool:
    """
    "no other characters than Ee+-0123456789 are allowed": an item containing another character is refused with
    DatasetError (not ValueError, not a number).
    pre: 1 <= len(x) <= 3
    pre: all(c in OTHERALPHA for c in x)
    pre: 'x' in x or ',' in x
    post: _ == True
    """
    return run_item(x, '0') == ('illegal',)


NULLVALUES = '0123456789+-'


def item_null(kind: int, nv: int) -> bool:
    """
    NULL items ('.', '' and None) take the value of the NULL option, whose legal values are one character of [0-9+-].
    pre: 0 <= kind <= 2 and 0 <= nv < len(NULLVALUES)
    post: _ == True
    """
    x = ['.', '', None][kind]
    null_value = NULLVALUES[nv]
    expected = ref_item(null_value, '0')     # the value of the NULL option read as an item
    return expected[0] != 'illegal' and run_item(x, null_value) == expected


LONGALPHA = '12.E'
LONG_N = _env_int('VH_LONGN', -1)


def item_long(n: int, tail: str) -> bool:
    """
    24-character rule: an item of 25 or more characters is refused; 24 characters are still read.  The item is
    '1' * n followed by a symbolic tail.
    pre: 21 <= n <= 25 and 1 <= len(tail) <= 2 and (LONG_N < 0 or n == LONG_N)
    pre: all(c in LONGALPHA for c in tail)
    post: _ == True
    """
    x = '1' * n + tail
    r = run_item(x, '0')
    if len(x) > 24:
        return r == ('illegal',)
    return r == ref_item(x, '0')


def item_25(x: str) -> bool:
    """
    pre: len(x) == 25
    pre: all(c in ITEMALPHA for c in x)
    post: _ == True
    """
    return run_item(x, '0') == ('illegal',)


def item__twin(x: str) -> bool:
    """
    pre: len(x) <= ITEM_MAX and _item_split(x)
    pre: all(c in ITEMALPHA for c in x)
    pre: not in_region_a(x) and not in_region_b(x)
    post: _ == True
    """
    return not item(x)


def item_signed_dexp__twin(x: str) -> bool:
    """
    pre: len(x) <= ITEM_MAX and _item_split(x)
    pre: all(c in ITEMALPHA for c in x)
    pre: in_region_a(x)
    post: _ == True
    """
    return not item_signed_dexp(x)


def item_shortform_junk__twin(x: str) -> bool:
    """
    pre: len(x) <= ITEM_MAX and _item_split(x)
    pre: all(c in ITEMALPHA for c in x)
    pre: in_region_b(x)
    post: _ == True
    """
    return not item_shortform_junk(x)


def item_otherchar__twin(x: str) -> bool:
    """
    pre: 1 <= len(x) <= 3
    pre: all(c in OTHERALPHA for c in x)
    pre: 'x' in x or ',' in x
    post: _ == True
    """
    return not item_otherchar(x)


def item_null__twin(kind: int, nv: int) -> bool:
    """
    pre: 0 <= kind <= 2 and 0 <= nv < len(NULLVALUES)
    post: _ == True
    """
    return not item_null(kind, nv)


def item_long__twin(n: int, tail: str) -> bool:
    """
    pre: 21 <= n <= 25 and 1 <= len(tail) <= 2 and (LONG_N < 0 or n == LONG_N)
    pre: all(c in LONGALPHA for c in tail)
    post: _ == True
    """
    return not item_long(n, tail)


def item_25__twin(x: str) -> bool:
    """
    pre: len(x) == 25
    pre: all(c in ITEMALPHA for c in x)
    post: _ == True
    """
    return not item_25(x)


# --------------------------------------------------------------------------------------------------------------
# (4) parse_column_info over a stub control stream

class _Opt:
    def __init__(self, key, value):
        self.key, self.value = key, value

    def __iter__(self):
        return iter((self.key, self.value))


class _InputRecord:
    def __init__(self, opts):
        self.all_options = opts


class _Stream:
    def __init__(self, records):
        self._records = records

    def get_records(self, name, problem_no=0):
        return list(self._records) if name == 'INPUT' else []


COL_MAX = _env_int('VH_COLMAX', 3)
RESERVED = ['ID', 'DV', 'TIME', 'AMT']
# option kinds: (key, value, expected (colname, drop, given, replacement) or 'anon' or 'error'), {n} = position
NKINDS = 12


def _col_table(pos):
    name = 'C%d' % pos
    res = RESERVED[pos % len(RESERVED)]
    return [
        (name, None, (name, False, name, None)),
        ('DROP', None, 'anon'),
        ('SKIP', None, 'anon'),
        (name, 'DROP', (name, True, name, None)),
        (name, 'SKIP', (name, True, name, None)),
        ('DROP', name, (name, True, name, None)),
        ('SKIP', name, (name, True, name, None)),
        (res, None, (res, False, res, None)),
        (res, name, (name, False, name, (res, name))),
        (name, res, (name, False, name, (res, name))),
        (res, 'DROP', (res, True, res, None)),
        (name, 'X%d' % pos, 'error'),
    ]


COL_TABLES = [_col_table(pos) for pos in range(4)]
COL_N = _env_int('VH_COLN', -1)
COL_K0 = _env_int('VH_COLK0', -1)


def col_option(kind, pos):
    return COL_TABLES[pos][kind]


def _col_split(n, k0):
    if COL_N >= 0 and n != COL_N:
        return False
    if COL_K0 >= 0 and k0 != COL_K0:
        return False
    return True


def columns(n: int, k0: int, k1: int, k2: int, k3: int, cut: int) -> bool:
    """
    $INPUT option lists of n <= COL_MAX options (split over two records at `cut`), each option one of: name, DROP,
    SKIP, name=DROP, name=SKIP, DROP=name, SKIP=name, reserved, reserved=synonym, synonym=reserved, reserved=DROP,
    name=other name (refused).
    pre: 0 <= n <= COL_MAX and 0 <= cut <= n and _col_split(n, k0)
    pre: 0 <= k0 < NKINDS and 0 <= k1 < NKINDS and 0 <= k2 < NKINDS and 0 <= k3 < NKINDS
    post: _ == True
    """
    kinds = [k0, k1, k2, k3][:n]
    opts = [col_option(k, i) for i, k in enumerate(kinds)]
    pairs = [(o[0], o[1]) for o in opts]
    if REAL:
        from pharmpy.model.external.nonmem.nmtran_parser import NMTranParser
        text = '$PROBLEM\n'
        for part in (pairs[:cut], pairs[cut:]):
            if part:
                text += '$INPUT ' + ' '.join(k if v is None else k + '=' + v for k, v in part) + '\n'
        stream = NMTranParser().parse(text)
    else:
        stream = _Stream([_InputRecord(pairs[:cut]), _InputRecord(pairs[cut:])])
    exp_names, exp_drop, exp_given, exp_repl = [], [], [], {}
    anon = 0
    error = False
    for o in opts:
        e = o[2]
        if e == 'error':
            error = True
            break
        if e == 'anon':
            anon += 1
            exp_names.append('_DROP%d' % anon)
            exp_drop.append(True)
            exp_given.append(None)
        else:
            exp_names.append(e[0])
            exp_drop.append(e[1])
            exp_given.append(e[2])
            if e[3] is not None:
                exp_repl[e[3][0]] = e[3][1]
    try:
        colnames, drop, repl, given = P.parse_column_info(stream)
    except DatasetError:
        return error
    if error:
        return False
    return colnames == exp_names and drop == exp_drop and repl == exp_repl and given == exp_given


def columns__twin(n: int, k0: int, k1: int, k2: int, k3: int, cut: int) -> bool:
    """
    pre: 0 <= n <= COL_MAX and 0 <= cut <= n and _col_split(n, k0)
    pre: 0 <= k0 < NKINDS and 0 <= k1 < NKINDS and 0 <= k2 < NKINDS and 0 <= k3 < NKINDS
    post: _ == True
    """
    return not columns(n, k0, k1, k2, k3, cut)
