"""C04 (3)+(4) — bookkeeping of `update_thetas` and `update_random_variable_records` over contract stubs of the records.

The real functions of pharmpy.model.external.nonmem.update run; what is stubbed is what they call on the records:

  ThetaRecord  -> TRec : `len(r)`, `r.remove(inds)` (drop the thetas at these positions; the same object when inds is
                         empty), `r.update(params)` (the thetas of THIS record, positionally; tokens whose value did
                         not change keep their spelling) — the contract ThetaRecord documents/implements; the stub
                         raises AssertionError when it is handed a parameter list that does not line up with its thetas.
  OmegaRecord  -> ORec : `len(r)` = number of distributions (DIAGONAL record: one per item; BLOCK record: 1),
                         `r.remove([(i, 0), ...])`, `r.update(params)` with the same alignment checks.
  create_theta_record / create_omega_single / create_omega_block -> fresh one-entry stub records.
  control stream -> object with get_records/replace_all.

Oracle (name keyed, as the property is: "re-reading ... yields exactly the parameters ..., with the same names"):
the records returned hold exactly the new parameters (name -> value), each once, and every value that was not changed
still has its original spelling token.  Precondition = the property's edit alphabet: `new` arises from `old` by changing
values, removing and adding entries; kept names keep their relative order.
"""
import os
import warnings
from types import SimpleNamespace as NS

warnings.simplefilter('ignore')

try:
    import crosshair.core as _cc
    _cc.consider_shortcircuit = lambda *a, **k: None     # see C18_mfl.py: always execute callees
except ImportError:
    pass

import pharmpy.model.external.nonmem.update as U  # noqa: E402



class FP:
    """Stand-in for pharmpy.model.Parameter: update_thetas only reads .name/.symbol and compares with ==.
    `val` is one symbolic int standing for (init, lower, upper, fix)."""

    def __init__(self, name, val):
        self.name = name
        self.val = val
        self.symbol = ('sym', name)

    def __eq__(self, o):
        return isinstance(o, FP) and self.name == o.name and self.val == o.val

    def __hash__(self):
        return 0

    def __repr__(self):
        return f'FP({self.name},{self.val})'


class TRec:
    """Contract stub of ThetaRecord; items = [name, val, spelling]."""

    def __init__(self, items):
        self.items = [list(it) for it in items]

    def __len__(self):
        return len(self.items)

    def remove(self, inds):
        if not inds:
            return self
        assert all(0 <= i < len(self.items) for i in inds), ('remove: no such theta', inds)
        assert len(set(inds)) == len(inds), ('remove: index twice', inds)
        return TRec([it for i, it in enumerate(self.items) if i not in inds])

    def update(self, params):
        assert len(params) == len(self.items), ('update: parameter list does not line up', params, self.items)
        new = []
        for it, p in zip(self.items, params):
            assert p.name == it[0], ('update: value of another theta written here', p, it)
            new.append([it[0], p.val, it[2] if p.val == it[1] else ('respelled', it[0])])
        return TRec(new)


class NoSymbols:
    """`free_symbols` of random variables that share no symbol with the thetas (membership without hashing)."""

    def __contains__(self, x):
        return False


class CS:
    def __init__(self, recs):
        self.recs = recs
        self.out = None

    def get_records(self, name):
        return self.recs

    def replace_all(self, name, new):
        self.out = list(new)
        return self


U.create_theta_record = lambda param: TRec([[param.name, param.val, ('created', param.name)]])


# ---- encoding of an edit: table indexes fixed per path by bisection, then everything is concrete ---------------------------
try:
    from crosshair.tracers import NoTracing as _NoTracing
except ImportError:
    import contextlib
    _NoTracing = contextlib.nullcontext

import itertools  # noqa: E402

K = int(os.environ.get('VH_K', '3'))                # number of old entries (one process per K)
MAXINS = int(os.environ.get('VH_MAXINS', '2'))      # at most this many added entries
REGION = os.environ.get('VH_REGION', 'main')


def _pick(x, lo, hi):
    """Fix lo <= x < hi on this path by bisection (solver-decided branches); returns a native int."""
    while hi - lo > 1:
        mid = (lo + hi) // 2
        if x < mid:
            hi = mid
        else:
            lo = mid
    return lo


def _compositions(k):
    if k == 0:
        return [()]
    return [(first,) + rest for first in range(1, k + 1) for rest in _compositions(k - first)]


COMPS = _compositions(K)                                               # record sizes, e.g. (2, 1): $THETA a b / $THETA c
C_LO = int(os.environ.get('VH_CLO', '0'))           # optional case split on the record layout of the thetas
C_HI = int(os.environ.get('VH_CHI', str(len(COMPS))))
ACTS = list(itertools.product((0, 1, 2), repeat=K))                   # per old entry: 0 keep, 1 change value, 2 remove
INS = [g for r in range(MAXINS + 1) for g in itertools.combinations_with_replacement(range(K + 1), r)]   # gaps


def _body_thetas(c, a, g):
    sizes, acts, gaps = COMPS[c], ACTS[a], INS[g]
    old = [FP(i, 0) for i in range(K)]
    new = []
    fresh = K
    for i in range(K + 1):
        for _ in range(gaps.count(i)):
            new.append(FP(fresh, 7))
            fresh += 1
        if i < K and acts[i] != 2:
            new.append(FP(i, 0 if acts[i] == 0 else 1))
    recs = []
    pos = 0
    for size in sizes:
        recs.append(TRec([[p.name, p.val, ('orig', p.name)] for p in old[pos:pos + size]]))
        pos += size
    model = NS(random_variables=NS(free_symbols=NoSymbols()),
               internals=NS(old_random_variables=NS(free_symbols=NoSymbols())))
    cs = U.update_thetas(model, CS(list(recs)), old, new)
    flat = [it for r in cs.out for it in r.items]
    if len(flat) != len(new):
        raise AssertionError(f'{len(flat)} thetas written for {len(new)} parameters: {flat}')
    for p in new:
        hits = [it for it in flat if it[0] == p.name]
        if len(hits) != 1 or hits[0][1] != p.val:
            raise AssertionError(f're-reading would not give {p} back: {flat}')
        if p.name < K and p.val == 0 and hits[0][2] != ('orig', p.name):
            raise AssertionError(f'unchanged theta {p.name} lost its original spelling: {flat}')
    for r in recs:
        if len(r) == 1 and acts[r.items[0][0]] == 0 and not any(x is r for x in cs.out):
            raise AssertionError('an untouched one-theta record was not passed through as is')
    return True


def thetas_ok(c: int, a: int, g: int) -> bool:
    """
    pre: C_LO <= c < min(C_HI, len(COMPS)) and 0 <= a < len(ACTS) and 0 <= g < len(INS)
    post: _ == True
    """
    codes = [_pick(c, C_LO, min(C_HI, len(COMPS))), _pick(a, 0, len(ACTS)), _pick(g, 0, len(INS))]
    with _NoTracing():
        return _body_thetas(*codes)


def thetas_ok__twin(c: int, a: int, g: int) -> bool:
    """
    pre: C_LO <= c < min(C_HI, len(COMPS)) and 0 <= a < len(ACTS) and 0 <= g < len(INS)
    post: _ == True
    """
    codes = [_pick(c, C_LO, min(C_HI, len(COMPS))), _pick(a, 0, len(ACTS)), _pick(g, 0, len(INS))]
    with _NoTracing():
        return _body_thetas(*codes) is not True


# ---- (4) update_random_variables / update_random_variable_records --------------------------------------------------------
# Real pharmpy distributions, RandomVariables, Parameters and the real lcs.diff; only the records are stubs.
from pharmpy.basic import Expr  # noqa: E402
from pharmpy.model import (  # noqa: E402
    JointNormalDistribution,
    NormalDistribution,
    Parameter,
    Parameters,
    RandomVariables,
)


class ORec:
    """Contract stub of OmegaRecord. kind 'D': DIAGONAL record, one distribution per item; kind 'B': one BLOCK
    distribution whose items are its lower-triangular parameters. items = [parameter name, value, spelling]."""

    def __init__(self, kind, items):
        self.kind = kind
        self.items = [list(it) for it in items]

    def __len__(self):
        return len(self.items) if self.kind == 'D' else 1

    def remove(self, inds):
        if len(inds) == 0:
            return self
        assert self.kind == 'D', 'remove on a BLOCK record is not used by the updater for whole distributions'
        idx = [i for i, _ in inds]
        assert all(0 <= i < len(self.items) for i in idx) and len(set(idx)) == len(idx), ('remove', inds)
        return ORec('D', [it for i, it in enumerate(self.items) if i not in idx])

    def update(self, params):
        assert len(params) == len(self.items), ('update: parameter list does not line up', params, self.items)
        new = []
        for it, p in zip(self.items, params):
            assert p.name == it[0], ('update: value of another parameter written here', p.name, it)
            new.append([it[0], p.init, it[2] if p.init == it[1] else ('respelled', it[0])])
        return ORec(self.kind, new)


class CS2:
    def __init__(self, omegas, sigmas):
        self.recs = {'OMEGA': omegas, 'SIGMA': sigmas}
        self.out = {}

    def get_records(self, name):
        return self.recs[name]

    def replace_all(self, name, new):
        self.out[name] = list(new)
        return self


def _tri(dist):
    n = len(dist)
    if n == 1:
        return [dist.variance.name]
    return [dist.variance[r, c].name for r in range(n) for c in range(r + 1)]


def _create_single(model, rv, eta_number):
    p = model.parameters[rv.parameter_names[0]]
    return ORec('D', [[p.name, p.init, ('created', p.name)]])


def _create_block(model, dist, eta_number):
    return ORec('B', [[nm, model.parameters[nm].init, ('created', nm)] for nm in _tri(dist)])


U.create_omega_single = _create_single
U.create_omega_block = _create_block

# old layouts: sequences of records; 'D', m = DIAGONAL record with m items, 'B', s = BLOCK(s)
RECORD_KINDS = [('D', 1), ('D', 2), ('D', 3), ('B', 2), ('B', 3)]


def _layouts(k):
    """all sequences of records holding k distributions in total"""
    if k == 0:
        return [()]
    out = []
    for kind, m in RECORD_KINDS:
        nd = m if kind == 'D' else 1
        if nd <= k:
            out += [((kind, m),) + rest for rest in _layouts(k - nd)]
    return out


LAYOUTS = _layouts(K)
L_LO = int(os.environ.get('VH_LLO', '0'))           # optional case split on the layout index
L_HI = int(os.environ.get('VH_LHI', str(len(LAYOUTS))))
OINS = [g for r in range(MAXINS + 1)
        for g in itertools.combinations_with_replacement([(i, b) for i in range(K + 1) for b in (1, 2)], r)]


_DISTS = {}


def _mk_dist(tag, size):
    if (tag, size) not in _DISTS:      # distributions are immutable values; creating a joint one costs ~0.1 s (sympy)
        _DISTS[(tag, size)] = _mk_dist_(tag, size)
    return _DISTS[(tag, size)]


def _mk_dist_(tag, size):
    names = [f'ETA_{tag}{i}' for i in range(size)] if size > 1 else [f'ETA_{tag}']
    if size == 1:
        return NormalDistribution.create(names[0], 'iiv', 0, Expr.symbol(f'OM_{tag}'))
    cov = [[Expr.symbol(f'OM_{tag}_{max(r, c)}{min(r, c)}') for c in range(size)] for r in range(size)]
    return JointNormalDistribution.create(names, 'iiv', [0] * size, cov)


def _init(name, bump):
    # diagonal elements OM_x / OM_x_ii get 1 (+bump), off-diagonal 0.125 (+bump/8): positive definite
    diag = '_' not in name[3:] or name[-1] == name[-2]
    return (1.0 + bump) if diag else (0.125 + bump / 8)


def _region_omegas(layout, acts, gaps):
    """'omega_insert_into_diag' iff an entry is added between two KEPT distributions of one DIAGONAL record."""
    pos = 0
    for kind, m in layout:
        if kind == 'D' and m > 1:
            for gap, _ in gaps:
                if pos < gap < pos + m:
                    before = any(acts[i] != 2 for i in range(pos, gap))
                    after = any(acts[i] != 2 for i in range(gap, pos + m))
                    if before and after:
                        return 'omega_insert_into_diag'
        pos += m if kind == 'D' else 1
    return 'main'


def _body_omegas(lay, a, g):
    layout, acts, gaps = LAYOUTS[lay], ACTS[a], OINS[g]
    if _region_omegas(layout, acts, gaps) != REGION:
        return None
    olds = []
    recs = []
    pvals = {}
    tag = 0
    for kind, m in layout:
        if kind == 'D':
            ds = [_mk_dist(chr(65 + tag + i), 1) for i in range(m)]
            tag += m
        else:
            ds = [_mk_dist(chr(65 + tag), m)]
            tag += 1
        items = []
        for d in ds:
            for nm in _tri(d):
                pvals[nm] = _init(nm, 0)
                items.append([nm, pvals[nm], ('orig', nm)])
        recs.append(ORec(kind, items))
        olds += ds
    eps = NormalDistribution.create('EPS_1', 'ruv', 0, Expr.symbol('SI'))
    pvals['SI'] = 1.0
    srec = ORec('D', [['SI', 1.0, ('orig', 'SI')]])
    news = []
    newvals = dict(pvals)
    fresh = 0
    for i in range(K + 1):
        for gap, size in gaps:
            if gap == i:
                d = _mk_dist('N' + str(fresh), size)
                fresh += 1
                news.append(d)
                for nm in _tri(d):
                    newvals[nm] = _init(nm, 0)
        if i < K and acts[i] != 2:
            news.append(olds[i])
            if acts[i] == 1:
                for nm in _tri(olds[i]):
                    newvals[nm] = _init(nm, 1)
    for i in range(K):
        if acts[i] == 2:
            for nm in _tri(olds[i]):
                del newvals[nm]
    old_rvs = RandomVariables.create(olds + [eps])
    new_rvs = RandomVariables.create(news + [eps])
    params = Parameters.create([Parameter.create(nm, v) for nm, v in newvals.items()])
    cs = CS2(list(recs), [srec])
    model = NS(internals=NS(control_stream=cs, old_random_variables=old_rvs), random_variables=new_rvs,
               parameters=params)
    U.update_random_variables(model, old_rvs, new_rvs)
    # read the records back positionally: ETA(i) <-> i-th distribution slot
    slots = []
    for r in cs.out['OMEGA']:
        if r.kind == 'D':
            slots += [[it] for it in r.items]
        else:
            slots.append(r.items)
    if len(slots) != len(news):
        raise AssertionError(f'{len(slots)} distributions written for {len(news)} etas')
    for d, slot in zip(news, slots):
        want = _tri(d)
        if [it[0] for it in slot] != want:
            raise AssertionError(f'eta {d.names}: position holds {[it[0] for it in slot]}, model has {want}')
        for it in slot:
            if it[1] != newvals[it[0]]:
                raise AssertionError(f'{it[0]}: record says {it[1]}, model has {newvals[it[0]]}')
            if it[0] in pvals and pvals[it[0]] == newvals[it[0]] and it[2] != ('orig', it[0]):
                raise AssertionError(f'unchanged {it[0]} lost its original spelling')
    sig = [it for r in cs.out['SIGMA'] for it in r.items]
    if [(it[0], it[1], it[2]) for it in sig] != [('SI', 1.0, ('orig', 'SI'))]:
        raise AssertionError(f'untouched $SIGMA changed: {sig}')
    return True


def omegas_ok(lay: int, a: int, g: int) -> bool:
    """
    pre: L_LO <= lay < min(L_HI, len(LAYOUTS)) and 0 <= a < len(ACTS) and 0 <= g < len(OINS)
    post: _ in (True, None)
    """
    codes = [_pick(lay, L_LO, min(L_HI, len(LAYOUTS))), _pick(a, 0, len(ACTS)), _pick(g, 0, len(OINS))]
    with _NoTracing():
        return _body_omegas(*codes)


def omegas_ok__twin(lay: int, a: int, g: int) -> bool:
    """
    pre: L_LO <= lay < min(L_HI, len(LAYOUTS)) and 0 <= a < len(ACTS) and 0 <= g < len(OINS)
    post: _ == True
    """
    codes = [_pick(lay, L_LO, min(L_HI, len(LAYOUTS))), _pick(a, 0, len(ACTS)), _pick(g, 0, len(OINS))]
    with _NoTracing():
        return _body_omegas(*codes) is not True
