"""C04 (3)+(4) — bookkeeping of `update_thetas` and `update_random_variable_records` over contract stubs of the records.

The real functions of pharmpy.model.external.nonmem.update run; what is stubbed is what they call on the records:

  ThetaRecord  -> TRec : `len(r)`, `r.remove(inds)` (drop the thetas at these positions; the same object when inds is
                         empty), `r.update(params)` (the thetas of THIS record, positionally; tokens whose value did
                         not change keep their spelling) — the contract ThetaRecord documents/implements; the stub
                         raises AssertionError when it is handed a parameter list that does not line up with its thetas.
  OmegaRecord  -> ORec : `len(r)` = number of distributions (DIAGONAL record: one per item; BLOCK record: 1),
                         `r.remove([(i, 0), ...])`, `r.update(params)` with the same alignment checks.
  create_theta_record / create_omega_single / create_omega_block -> fresh one-entry stub records.
  control stream -> object with get_records/replace_all.

Oracle (name keyed, as the property is: "re-reading ... yields exactly the parameters ..., with the same names"):
the records returned hold exactly the new parameters (name -> value), each once, and every value that was not changed
still has its original spelling token.  Precondition = the property's edit alphabet: `new` arises from `old` by changing
values, removing and adding entries; kept names keep their relative order.
"""
import os
import warnings
from types import SimpleNamespace as NS
from typing import List, Tuple

warnings.simplefilter('ignore')

try:
    import crosshair.core as _cc
    _cc.consider_shortcircuit = lambda *a, **k: None     # see C18_mfl.py: always execute callees
except ImportError:
    pass

import pharmpy.model.external.nonmem.update as U  # noqa: E402

N = int(os.environ.get('VH_N', '3'))               # max number of old / new entries
NAMES = int(os.environ.get('VH_NAMES', '4'))       # names 0..NAMES-1
LEN_OLD = int(os.environ.get('VH_LENOLD', '-1'))   # optional case splits
LEN_NEW = int(os.environ.get('VH_LENNEW', '-1'))


class FP:
    """Stand-in for pharmpy.model.Parameter: update_thetas only reads .name/.symbol and compares with ==.
    `val` is one symbolic int standing for (init, lower, upper, fix)."""

    def __init__(self, name, val):
        self.name = name
        self.val = val
        self.symbol = ('sym', name)

    def __eq__(self, o):
        return isinstance(o, FP) and self.name == o.name and self.val == o.val

    def __hash__(self):
        return 0

    def __repr__(self):
        return f'FP({self.name},{self.val})'


class TRec:
    """Contract stub of ThetaRecord; items = [name, val, spelling]."""

    def __init__(self, items):
        self.items = [list(it) for it in items]

    def __len__(self):
        return len(self.items)

    def remove(self, inds):
        if not inds:
            return self
        assert all(0 <= i < len(self.items) for i in inds), ('remove: no such theta', inds)
        assert len(set(inds)) == len(inds), ('remove: index twice', inds)
        return TRec([it for i, it in enumerate(self.items) if i not in inds])

    def update(self, params):
        assert len(params) == len(self.items), ('update: parameter list does not line up', params, self.items)
        new = []
        for it, p in zip(self.items, params):
            assert p.name == it[0], ('update: value of another theta written here', p, it)
            new.append([it[0], p.val, it[2] if p.val == it[1] else ('respelled', it[0])])
        return TRec(new)


class NoSymbols:
    """`free_symbols` of random variables that share no symbol with the thetas (membership without hashing)."""

    def __contains__(self, x):
        return False


class CS:
    def __init__(self, recs):
        self.recs = recs
        self.out = None

    def get_records(self, name):
        return self.recs

    def replace_all(self, name, new):
        self.out = list(new)
        return self


U.create_theta_record = lambda param: TRec([[param.name, param.val, ('created', param.name)]])


def _edit_alphabet(o, n):
    """names unique on each side; kept names in the same relative order on both sides"""
    on = [a for a, _ in o]
    nn = [a for a, _ in n]
    if any(on[i] == on[j] for i in range(len(on)) for j in range(i)):
        return False
    if any(nn[i] == nn[j] for i in range(len(nn)) for j in range(i)):
        return False
    return [a for a in on if a in nn] == [a for a in nn if a in on]


def _ranges(o, n):
    # old entries are named 0..len(o)-1 in record order (the functions only compare names for equality, so this is a
    # renaming of the general case); new names range over the old names and NAMES-len(o) fresh ones
    return all(o[i][0] == i for i in range(len(o))) and all(0 <= b <= 1 for _, b in o) and \
        all(0 <= a < NAMES and 0 <= b <= 1 for a, b in n)


def thetas_ok(o: List[Tuple[int, int]], n: List[Tuple[int, int]], cut1: int, cut2: int, cut3: int) -> bool:
    """
    pre: len(o) <= N and len(n) <= N and (LEN_OLD < 0 or len(o) == LEN_OLD) and (LEN_NEW < 0 or len(n) == LEN_NEW)
    pre: _ranges(o, n) and _edit_alphabet(o, n)
    pre: 0 <= cut1 <= cut2 <= cut3 <= len(o)
    post: _ == True
    """
    old = [FP(a, b) for a, b in o]
    new = [FP(a, b) for a, b in n]
    parts = [old[:cut1], old[cut1:cut2], old[cut2:cut3], old[cut3:]]
    recs = [TRec([[p.name, p.val, ('orig', p.name)] for p in part]) for part in parts if part]
    model = NS(random_variables=NS(free_symbols=NoSymbols()),
               internals=NS(old_random_variables=NS(free_symbols=NoSymbols())))
    cs = U.update_thetas(model, CS(recs), old, new)
    flat = [it for r in cs.out for it in r.items]
    if len(flat) != len(new):
        return False                                    # a theta lost or written twice
    oldval = {p.name: p.val for p in old}
    for p in new:
        hits = [it for it in flat if it[0] == p.name]
        if len(hits) != 1 or hits[0][1] != p.val:
            return False                                # re-reading would not give this parameter back
        if p.name in oldval and oldval[p.name] == p.val and hits[0][2] != ('orig', p.name):
            return False                                # an unchanged value lost its original spelling
    # a record none of whose thetas changed and that holds one theta is passed through as the same object
    for r in recs:
        if len(r) == 1 and any(p.name == r.items[0][0] and p.val == r.items[0][1] for p in new):
            if not any(x is r for x in cs.out):
                return False
    return True


def thetas_ok__twin(o: List[Tuple[int, int]], n: List[Tuple[int, int]], cut1: int, cut2: int, cut3: int) -> bool:
    """
    pre: len(o) <= N and len(n) <= N and (LEN_OLD < 0 or len(o) == LEN_OLD) and (LEN_NEW < 0 or len(n) == LEN_NEW)
    pre: _ranges(o, n) and _edit_alphabet(o, n)
    pre: 0 <= cut1 <= cut2 <= cut3 <= len(o)
    post: _ == True
    """
    return not thetas_ok(o, n, cut1, cut2, cut3)
