"""C20 — concrete companion probe (sampling, not a solver verdict): table files written in NONMEM's fixed-width
formats by an independent writer (this file) from chosen numbers are read by the REAL NONMEMTableFile / ExtTable /
CovTable / PhiTable; the values, indices, labels and the rows NONMEM designates (-1000000000 final estimates,
-1000000001 standard errors, -1000000003 condition number, -1000000004/5 sd/corr forms, -1000000006 fixed flags) must be
exactly the numbers written (the expected value of a cell is Python's float() of the text written for it)."""
import os
import tempfile
import warnings

warnings.simplefilter('ignore')

TITLE = ('TABLE NO. %5d: First Order Conditional Estimation with Interaction: Goal Function=MINIMUM VALUE OF OBJECTIVE '
         'FUNCTION: Problem=1 Subproblem=0 Superproblem1=0 Iteration1=0 Superproblem2=0 Iteration2=0\n')
TITLE_COV = ('TABLE NO. %5d: First Order Conditional Estimation with Interaction: Problem=1 Subproblem=0 Superproblem1=0 '
             'Iteration1=0 Superproblem2=0 Iteration2=0\n')
PARS = ['THETA1', 'THETA2', 'THETA3', 'SIGMA(1,1)', 'OMEGA(1,1)', 'OMEGA(2,1)', 'OMEGA(2,2)']
NEW = ['THETA(1)', 'THETA(2)', 'THETA(3)', 'OMEGA(1,1)', 'OMEGA(2,1)', 'OMEGA(2,2)', 'SIGMA(1,1)']


def e5(x):
    return ' %12.5E' % x


def header(first, cols):
    return ' ' + ('%-12s' % first) + ''.join(' %-12s' % c for c in cols) + '\n'


def ext_table(no, rows):
    """rows: list of (iteration, [7 values], obj) -> (text, expected dict)"""
    txt = TITLE % no + header('ITERATION', PARS + ['OBJ'])
    exp = {}
    for it, vals, obj in rows:
        cells = [e5(v) for v in vals]
        objs = '    %.14f' % obj
        txt += '%13d' % it + ''.join(cells) + objs + '\n'
        exp[it] = (dict(zip(PARS, [float(c) for c in cells])), float(objs))
    return txt, exp


def _v(base, k):
    return [base * (i + 1) * (1 + 0.013 * k) * (-1 if (i + k) % 5 == 4 else 1) for i in range(7)]


def check_ext(d):
    from pharmpy.model.external.nonmem.table import NONMEMTableFile
    problems = []
    rows1 = [(i, _v(0.0123, i), 600.0 - 1.2345 * i) for i in range(0, 4)]
    rows1 += [(-1000000000, _v(0.0457, 9), 587.123456789), (-1000000001, _v(0.00191, 3), 0.0),
              (-1000000002, _v(0.31, 1), 0.0), (-1000000003, [17.25] + [0.0] * 6, 0.0),
              (-1000000004, _v(0.177, 2), 0.0), (-1000000005, _v(0.0311, 4), 0.0),
              (-1000000006, [0.0, 1.0, 0.0, 0.0, 0.0, 1.0, 0.0], 0.0), (-1000000007, [0.0, 37.0] + [0.0] * 5, 0.0)]
    rows2 = [(i, _v(0.731, i), 590.5 - 0.5 * i) for i in range(0, 3)]       # aborted: no final row
    t1, e1 = ext_table(1, rows1)
    t2, e2 = ext_table(2, rows2)
    path = os.path.join(d, 'run.ext')
    with open(path, 'w') as f:
        f.write(t1 + t2)
    tf = NONMEMTableFile(path)
    if len(tf) != 2 or [t.number for t in tf] != [1, 2]:
        problems.append(f'ext: tables {[t.number for t in tf]}')
        return problems
    a, b = tf.table_no(1), tf.table_no(2)

    def ren(dct, thetas=True):
        m = dict(zip(PARS, ['THETA(1)', 'THETA(2)', 'THETA(3)', 'SIGMA(1,1)', 'OMEGA(1,1)', 'OMEGA(2,1)', 'OMEGA(2,2)']))
        return {m[k]: v for k, v in dct.items() if thetas or not k.startswith('THETA')}

    def same(ser, want, what):
        got = {str(k): float(v) for k, v in ser.items()}
        if got != want:
            problems.append(f'ext: {what}: got {got} want {want}')
    same(a.final_parameter_estimates, ren(e1[-1000000000][0]), 'final estimates (row -1000000000)')
    same(a.standard_errors, ren(e1[-1000000001][0]), 'standard errors (row -1000000001)')
    same(a.omega_sigma_stdcorr, ren(e1[-1000000004][0], False), 'sd/corr estimates (row -1000000004)')
    same(a.omega_sigma_se_stdcorr, ren(e1[-1000000005][0], False), 'sd/corr standard errors (row -1000000005)')
    fx = {str(k): bool(v) for k, v in a.fixed.items()}
    if fx != {k: bool(v) for k, v in ren(e1[-1000000006][0]).items()}:
        problems.append(f'ext: fixed flags {fx}')
    if float(a.condition_number) != 17.25:
        problems.append(f'ext: condition number {a.condition_number}')
    if float(a.final_ofv) != e1[-1000000000][1] or float(a.initial_ofv) != e1[0][1]:
        problems.append(f'ext: ofv final {a.final_ofv} initial {a.initial_ofv}')
    if list(a.iterations) != [0, 1, 2, 3]:
        problems.append(f'ext: iterations {a.iterations}')
    if list(a.data_frame.columns) != ['ITERATION'] + NEW + ['OBJ']:
        problems.append(f'ext: column order {list(a.data_frame.columns)}')
    for it, (vals, obj) in e1.items():
        row = a.data_frame[a.data_frame['ITERATION'] == it]
        got = {c: float(row[c].iloc[0]) for c in NEW}
        if len(row) != 1 or got != ren(vals) or float(row['OBJ'].iloc[0]) != obj:
            problems.append(f'ext: row {it}')
    # second table: aborted run, fall back to the last iteration
    same(b.final_parameter_estimates, ren(e2[2][0]), 'fallback final estimates of an aborted run (last iteration)')
    if float(b.final_ofv) != e2[2][1] or float(b.initial_ofv) != e2[0][1]:
        problems.append('ext: fallback ofv')
    return problems


def check_cov(d):
    from pharmpy.model.external.nonmem.table import NONMEMTableFile
    problems = []
    n = len(PARS)
    fixed = {5}                       # OMEGA(2,1) fixed to zero: all-zero row and column
    for suffix, scale in (('.cov', 1e-4), ('.cor', 1.0), ('.coi', 1e3)):
        cells = [[e5(0.0 if (i in fixed or j in fixed) else scale * (1 + min(i, j)) * (0.5 if i != j else 2.0) *
                     (-1 if (i + j) % 3 == 2 and i != j else 1)) for j in range(n)] for i in range(n)]
        txt = TITLE_COV % 1 + header('NAME', PARS)
        for i in range(n):
            txt += ' ' + ('%-12s' % PARS[i]) + ''.join(cells[i]) + '\n'
        path = os.path.join(d, 'run' + suffix)
        with open(path, 'w') as f:
            f.write(txt)
        df = NONMEMTableFile(path).table_no(1).data_frame
        keep = [k for k in range(n) if k not in fixed]
        order = ['THETA(1)', 'THETA(2)', 'THETA(3)', 'OMEGA(1,1)', 'OMEGA(2,2)', 'SIGMA(1,1)']
        pos = {'THETA(1)': 0, 'THETA(2)': 1, 'THETA(3)': 2, 'SIGMA(1,1)': 3, 'OMEGA(1,1)': 4, 'OMEGA(2,2)': 6}
        if list(df.index) != order or list(df.columns) != order:
            problems.append(f'{suffix}: labels {list(df.index)} / {list(df.columns)}')
            continue
        for r in order:
            for c in order:
                if float(df.loc[r, c]) != float(cells[pos[r]][pos[c]]):
                    problems.append(f'{suffix}: cell ({r},{c})')
        assert keep
    return problems


def check_phi(d):
    from pharmpy.model.external.nonmem.table import NONMEMTableFile
    problems = []
    cols = ['ID', 'ETA(1)', 'ETA(2)', 'ETC(1,1)', 'ETC(2,1)', 'ETC(2,2)', 'OBJ']
    ids = [1, 2, 5, 7]
    txt = TITLE_COV % 1 + header('SUBJECT_NO', cols)
    exp = {}
    for k, i in enumerate(ids):
        if i == 5:          # an individual without observations: all zero
            vals = [0.0] * 5
            obj = 0.0
        else:
            vals = [-0.0438608 * (k + 1), 0.00543031 * (k + 2), 0.0248833 + k, -0.0029992 * (k + 1), 0.00715713 + k]
            obj = 5.9473520242962552 + 3 * k
        cells = [e5(v) for v in vals]
        objs = '    %.16f' % obj
        txt += '%13d%13d' % (k + 1, i) + ''.join(cells) + objs + '\n'
        exp[i] = ([float(c) for c in cells], float(objs))
    path = os.path.join(d, 'run.phi')
    with open(path, 'w') as f:
        f.write(txt)
    t = NONMEMTableFile(path).table_no(1)
    iofv = t.iofv
    want_ids = [1, 2, 7]
    if [int(i) for i in iofv.index] != want_ids or [float(v) for v in iofv.values] != [exp[i][1] for i in want_ids]:
        problems.append(f'phi: iofv {dict(iofv)}')
    etas = t.etas
    if [int(i) for i in etas.index] != want_ids or list(etas.columns) != ['ETA(1)', 'ETA(2)']:
        problems.append(f'phi: etas index/columns {list(etas.index)} {list(etas.columns)}')
    else:
        for i in want_ids:
            if [float(x) for x in etas.loc[i]] != exp[i][0][:2]:
                problems.append(f'phi: etas of {i}')
    etcs = t.etcs
    if [int(i) for i in etcs.index] != want_ids:
        problems.append('phi: etcs index')
    else:
        for i in want_ids:
            m = etcs.loc[i]
            a, b, c = exp[i][0][2:]
            if [[float(m.iloc[0, 0]), float(m.iloc[0, 1])], [float(m.iloc[1, 0]), float(m.iloc[1, 1])]] != [[a, b], [b, c]]:
                problems.append(f'phi: etc matrix of {i}')
            if list(m.columns) != ['ETA(1)', 'ETA(2)'] or list(m.index) != ['ETA(1)', 'ETA(2)']:
                problems.append(f'phi: etc labels of {i}')
    return problems


def check_table(d):
    from pharmpy.model.external.nonmem.table import NONMEMTableFile
    problems = []
    cols = ['ID', 'TIME', 'DV', 'PRED']
    txt = ''
    exp = {}
    for no in (1, 2):
        txt += 'TABLE NO. %2d\n' % no + ' ' + ''.join('%-12s' % c for c in cols).rstrip() + '\n'
        rows = []
        for r in range(5):
            if r == 3:
                txt += ' ' + ''.join('%-12s' % c for c in cols).rstrip() + '\n'     # repeated header inside a table
            cells = [' %11.4E' % v for v in (1 + r // 2, 0.5 * r * no, 17.3 - r - no, 16.9 - 0.93 * r * no)]
            txt += ''.join(cells) + '\n'
            rows.append([float(c) for c in cells])
        exp[no] = rows
    path = os.path.join(d, 'sdtab1')
    with open(path, 'w') as f:
        f.write(txt)
    tf = NONMEMTableFile(path)
    if len(tf) != 2:
        problems.append(f'table: {len(tf)} tables')
        return problems
    for no in (1, 2):
        df = tf.table_no(no).data_frame
        if list(df.columns) != cols or len(df) != 5:
            problems.append(f'table {no}: columns {list(df.columns)} rows {len(df)}')
            continue
        got = [[float(x) for x in df.iloc[r]] for r in range(5)]
        if got != exp[no]:
            problems.append(f'table {no}: values')
    return problems


def table_files():
    with tempfile.TemporaryDirectory() as d:
        problems = check_ext(d) + check_cov(d) + check_phi(d) + check_table(d)
    if problems:
        raise AssertionError('; '.join(problems[:5]))
    return True


if __name__ == '__main__':
    print(table_files())


def results_json():
    """Concrete companion (sampling): the example ModelfitResults survive to_json / read_results: every field comes
    back with the same labels and values (numbers to 12 significant digits: the writer prints 15; missing values may come back as NaN instead of None)."""
    import dataclasses
    import math
    import numpy as np
    import pandas as pd
    from pharmpy.tools import load_example_modelfit_results, read_results
    res = load_example_modelfit_results('pheno')
    with tempfile.TemporaryDirectory() as d:
        p = os.path.join(d, 'results.json')
        with open(p, 'w') as f:
            f.write(res.to_json())
        back = read_results(p)
    if type(back) is not type(res):
        raise AssertionError(f'read_results gives a {type(back).__name__}')

    def missing(x):
        return x is None or (isinstance(x, float) and math.isnan(x))

    def same(a, b):
        if missing(a) or missing(b):
            return missing(a) and missing(b)
        if isinstance(a, pd.DataFrame):
            if not isinstance(b, pd.DataFrame) or a.shape != b.shape or [str(c) for c in a.columns] != [str(c) for c in b.columns] \
                    or [str(i) for i in a.index] != [str(i) for i in b.index]:
                return False
            return all(same(a[c], b[c]) for c in a.columns)
        if isinstance(a, pd.Series):
            if not isinstance(b, pd.Series) or [str(i) for i in a.index] != [str(i) for i in b.index]:
                return False
            return all(same(x, y) for x, y in zip(a.tolist(), b.tolist()))
        if isinstance(a, (float, np.floating)) and isinstance(b, (int, float, np.floating, np.integer)):
            return float(a) == float(b) or abs(float(a) - float(b)) <= 1e-12 * max(abs(float(a)), abs(float(b)))
        if isinstance(a, (list, tuple)) and isinstance(b, (list, tuple)):
            return len(a) == len(b) and all(same(x, y) for x, y in zip(a, b))
        if hasattr(a, 'to_dict') and hasattr(b, 'to_dict') and not isinstance(a, (pd.DataFrame, pd.Series)):
            return a.to_dict() == b.to_dict()
        return a == b
    bad = [f.name for f in dataclasses.fields(res) if not same(getattr(res, f.name), getattr(back, f.name))]
    if bad:
        raise AssertionError(f'fields changed by the JSON round trip: {bad}')
    return True


def _read_fixed(path):
    """independent reader of a NONMEM table file: list of (title line, header, rows of strings)"""
    tables = []
    with open(path) as f:
        for line in f:
            if line.startswith('TABLE NO.'):
                tables.append([line, None, []])
            elif tables and tables[-1][1] is None:
                tables[-1][1] = line.split()
            elif tables and line.strip():
                tables[-1][2].append(line.split())
    return tables


def parse_results():
    """Concrete companion (sampling): read_modelfit_results on the repository's pheno_real run vs an independent
    whitespace reader of the same .ext / .cov / .cor / .coi / .phi files: final estimates and standard errors are the
    rows NONMEM designates, renamed to the model's parameter names in the model's order; OFV; covariance / correlation
    (unit diagonal) / precision matrices cell by cell; individual OFVs and etas per ID; sd/corr estimates."""
    import numpy as np
    from pharmpy.model import Model
    from pharmpy.tools import read_modelfit_results
    import pharmpy
    root = os.path.join(os.path.dirname(os.path.dirname(os.path.dirname(pharmpy.__file__))), 'tests', 'testdata', 'nonmem')
    if not os.path.exists(os.path.join(root, 'pheno_real.mod')):
        root = '/repo/tests/testdata/nonmem'
    mod = os.path.join(root, 'pheno_real.mod')
    model = Model.parse_model(mod)
    res = read_modelfit_results(mod)
    bad = []
    ext = _read_fixed(os.path.join(root, 'pheno_real.ext'))[-1]
    hdr = ext[1]
    rows = {int(r[0]): [float(x) for x in r[1:]] for r in ext[2]}
    fixed = rows.get(-1000000006, [0.0] * (len(hdr) - 1))
    # NONMEM's column labels -> model parameter names: thetas in order, then omegas, then sigmas (model order)
    labels = hdr[1:-1]
    th = [lab for lab in labels if lab.startswith('THETA')]
    om = [lab for lab in labels if lab.startswith('OMEGA')]
    sg = [lab for lab in labels if lab.startswith('SIGMA')]
    keep = [lab for lab in th + om + sg if fixed[labels.index(lab)] == 0.0]
    names = list(model.parameters.nonfixed.names)
    if len(keep) != len(names):
        raise AssertionError(f'{len(keep)} estimated NONMEM parameters vs {len(names)} model parameters')
    name_of = dict(zip(keep, names))
    for what, it, ser in (('final estimates', -1000000000, res.parameter_estimates),
                          ('standard errors', -1000000001, res.standard_errors),
                          ('sd/corr estimates', -1000000004, res.parameter_estimates_sdcorr)):
        if list(ser.index) != names:
            bad.append(f'{what}: index {list(ser.index)}')
            continue
        for lab in keep:
            # the sd/corr row carries omegas and sigmas only; the thetas there are the final estimates
            want = rows[-1000000000 if (it == -1000000004 and lab.startswith('THETA')) else it][labels.index(lab)]
            if float(ser[name_of[lab]]) != want:
                bad.append(f'{what}[{name_of[lab]}] = {float(ser[name_of[lab]])}, file has {want}')
    if float(res.ofv) != rows[-1000000000][-1]:
        bad.append(f'ofv {res.ofv} vs {rows[-1000000000][-1]}')
    for suffix, mat in (('.cov', res.covariance_matrix), ('.cor', res.correlation_matrix), ('.coi', res.precision_matrix)):
        t = _read_fixed(os.path.join(root, 'pheno_real' + suffix))[-1]
        cols = t[1][1:]
        cell = {(r[0], c): float(v) for r in t[2] for c, v in zip(cols, r[1:])}
        if list(mat.index) != names or list(mat.columns) != names:
            bad.append(f'{suffix}: labels {list(mat.index)}')
            continue
        for a in keep:
            for b in keep:
                want = cell[(a, b)]
                if suffix == '.cor' and a == b:
                    want = 1.0            # NONMEM prints the standard error on the diagonal; pharmpy reports 1
                got = float(mat.loc[name_of[a], name_of[b]])
                if abs(got - want) > 1e-12 * max(1.0, abs(want)):
                    bad.append(f'{suffix}[{a},{b}] = {got}, file has {want}')
    phi = _read_fixed(os.path.join(root, 'pheno_real.phi'))[-1]
    ph = phi[1]
    for r in phi[2][:10]:
        i = int(r[ph.index('ID')])
        if float(res.individual_ofv[i]) != float(r[ph.index('OBJ')]):
            bad.append(f'iofv[{i}]')
        etas = [float(r[ph.index(c)]) for c in ph if c.startswith('ETA(')]
        if [float(x) for x in res.individual_estimates.loc[i]] != etas:
            bad.append(f'individual estimates[{i}]')
    # defining relations between the reported matrices (tolerances of printed 6-digit numbers)
    se = res.standard_errors.to_numpy()
    cov = res.covariance_matrix.to_numpy()
    if not np.allclose(np.sqrt(np.diag(cov)), se, rtol=1e-4):
        bad.append('standard errors are not the square roots of the covariance diagonal')
    if bad:
        raise AssertionError('; '.join(bad[:6]))
    return True
