"""C16 — annotations and log messages are stored verbatim: the REAL LocalDirectoryContext.store_annotation /
retrieve_annotation / store_message run under CrossHair on symbolic strings over an in-memory `open`.
"""
import contextlib
import os
import pathlib
import tempfile

import pharmpy.workflows.contexts.local_directory as lc

NL = chr(10)
ALPHA_ANN = 'a ' + NL + 'b'
ALPHA_MSG = 'a",' + NL
MAXA = int(os.environ.get('VH_MAXA', '3'))
MAXM = int(os.environ.get('VH_MAXM', '2'))


class MemFile:
    store = {}

    def __init__(self, path, mode='r'):
        self.path = str(path)
        self.mode = mode
        EVENTS.append(('open', self.path.rsplit('/', 1)[-1], mode, tuple(HELD)))
        if mode == 'w':
            MemFile.store[self.path] = ''
        elif mode == 'r' and self.path not in MemFile.store:
            raise FileNotFoundError(self.path)

    def __enter__(self):
        return self

    def __exit__(self, *a):
        return False

    def readlines(self):
        content = MemFile.store[self.path]
        out = []
        cur = ''
        for ch in content:
            cur += ch
            if ch == NL:
                out.append(cur)
                cur = ''
        if cur:
            out.append(cur)
        return out

    # the rest of the text-file protocol a reader / writer may legitimately use
    def __iter__(self):
        return iter(self.readlines())

    def read(self):
        return MemFile.store[self.path]

    def readline(self):
        if not hasattr(self, '_lines'):
            self._lines = self.readlines()
        return self._lines.pop(0) if self._lines else ''

    def close(self):
        pass

    def flush(self):
        pass

    def writelines(self, lines):
        for line in lines:
            MemFile.store[self.path] += line

    def write(self, s):
        MemFile.store[self.path] = MemFile.store.get(self.path, '') + s


EVENTS = []      # ('lock'|'unlock', file, shared) and ('open', file, mode, locks held) in program order
HELD = []        # (file, shared) currently held


@contextlib.contextmanager
def _recording_path_lock(path, shared=False, blocking=True, reentrant=False):
    name = str(path).rsplit('/', 1)[-1]
    EVENTS.append(('lock', name, shared))
    HELD.append((name, shared))
    try:
        yield 0
    finally:
        HELD.remove((name, shared))
        EVENTS.append(('unlock', name, shared))


_TMP = pathlib.Path(tempfile.mkdtemp(prefix='c16ctx'))
lc.open = MemFile
pathlib.PosixPath.touch = lambda self, *a, **k: None      # lock files: no real side effects under tracing
lc.path_lock = _recording_path_lock


def _ctx():
    ctx = lc.LocalDirectoryContext.__new__(lc.LocalDirectoryContext)
    ctx.path = _TMP
    ctx._top_path = _TMP
    MemFile.store = {str(ctx._annotations_path): '', str(ctx._log_path): 'path,time,severity,message' + NL}
    return ctx


def _name_ok(n):
    return 1 <= len(n) <= 2 and all(c in 'mn1' for c in n)


def ann_roundtrip(name: str, ann: str, other: str, other_ann: str) -> bool:
    """
    Annotations without line breaks are retrieved verbatim, also after another model's annotation is stored / updated.
    pre: _name_ok(name) and _name_ok(other)
    pre: len(ann) <= MAXA and len(other_ann) <= 2
    pre: all(c in 'a b' for c in ann) and all(c in 'a b' for c in other_ann)
    post: _ == True
    """
    ctx = _ctx()
    ctx.store_annotation(other, other_ann)
    ctx.store_annotation(name, 'old')
    ctx.store_annotation(name, ann)
    if ctx.retrieve_annotation(name) != ann:
        return False
    if other != name and ctx.retrieve_annotation(other) != other_ann:
        return False
    return True


def ann_linebreak(name: str, ann: str) -> bool:
    """
    Finding region: annotations containing a line break.
    pre: _name_ok(name)
    pre: 1 <= len(ann) <= MAXA and all(c in ALPHA_ANN for c in ann) and NL in ann
    post: _ == True
    """
    ctx = _ctx()
    ctx.store_annotation(name, ann)
    return ctx.retrieve_annotation(name) == ann


def _atomic_rmw(events, fname, lockname):
    """every write of `fname` happens under an exclusive hold of `lockname`, and the read it is based on (the last
    read of `fname` before it) lies inside the SAME hold: the read-modify-write is one critical section."""
    section = 0
    read_section = None
    ok_any = False
    for ev in events:
        if ev[0] == 'lock' and ev[1] == lockname:
            section += 1
        elif ev[0] == 'open' and ev[1] == fname:
            held_ex = (lockname, False) in ev[3]
            if ev[2] == 'r':
                read_section = section if ((lockname, False) in ev[3] or (lockname, True) in ev[3]) else None
                if (lockname, False) not in ev[3]:
                    read_section = ('shared-or-none', section)
            elif ev[2] in ('w', 'a'):
                if not held_ex:
                    return False
                if ev[2] == 'w' and read_section != section:
                    return False
                ok_any = True
    return ok_any


def ann_atomic(name: str, ann: str) -> bool:
    """
    store_annotation is one critical section: the rewrite of the annotations file and the read it is based on happen
    under one exclusive hold of the annotations lock (otherwise two concurrent writers lose an update); store_message
    appends under the exclusive log lock.
    pre: _name_ok(name)
    pre: len(ann) <= 2 and all(c in 'ab ' for c in ann)
    post: _ == True
    """
    ctx = _ctx()
    ctx.store_annotation('m1', 'x')
    del EVENTS[:]
    ctx.store_annotation(name, ann)
    ok1 = _atomic_rmw(list(EVENTS), 'annotations', 'annotations.lock')
    del EVENTS[:]
    ctx.store_message('info', 'ctx', '2024-01-01 10:00:00', ann)
    ok2 = _atomic_rmw(list(EVENTS), 'log.csv', 'log.lock')
    return ok1 and ok2 and not HELD


def ann_atomic__twin(name: str, ann: str) -> bool:
    """
    pre: _name_ok(name)
    pre: len(ann) <= 2 and all(c in 'ab ' for c in ann)
    post: _ == True
    """
    return not ann_atomic(name, ann)


def _rfc4180(text):
    """reference reader: records of fields; quoted fields may contain commas, quotes ("") and line breaks."""
    recs, rec, field, i, inq = [], [], '', 0, False
    n = len(text)
    while i < n:
        ch = text[i]
        if inq:
            if ch == '"':
                if i + 1 < n and text[i + 1] == '"':
                    field += '"'
                    i += 1
                else:
                    inq = False
            else:
                field += ch
        else:
            if ch == '"' and field == '':
                inq = True
            elif ch == ',':
                rec.append(field)
                field = ''
            elif ch == NL:
                rec.append(field)
                recs.append(rec)
                rec, field = [], ''
            else:
                field += ch
        i += 1
    if field or rec:
        rec.append(field)
        recs.append(rec)
    return recs


def log_verbatim(m1: str, m2: str) -> bool:
    """
    Two messages logged in order are read back in order and verbatim by an RFC 4180 reader.
    pre: len(m1) <= MAXM and len(m2) <= 1
    pre: all(c in ALPHA_MSG for c in m1) and all(c in ALPHA_MSG for c in m2)
    post: _ == True
    """
    ctx = _ctx()
    ctx.store_message('info', 'ctx/sub', '2024-01-01 10:00:00', m1)
    ctx.store_message('warning', 'ctx', '2024-01-01 10:00:01', m2)
    recs = _rfc4180(MemFile.store[str(ctx._log_path)])
    return recs == [['path', 'time', 'severity', 'message'],
                    ['ctx/sub', '2024-01-01 10:00:00', 'info', m1],
                    ['ctx', '2024-01-01 10:00:01', 'warning', m2]]


def ann_roundtrip__twin(name: str, ann: str, other: str, other_ann: str) -> bool:
    """
    pre: _name_ok(name) and _name_ok(other)
    pre: len(ann) <= MAXA and len(other_ann) <= 2
    pre: all(c in 'a b' for c in ann) and all(c in 'a b' for c in other_ann)
    post: _ == True
    """
    return not ann_roundtrip(name, ann, other, other_ann)


def log_verbatim__twin(m1: str, m2: str) -> bool:
    """
    pre: len(m1) <= MAXM and len(m2) <= 1
    pre: all(c in ALPHA_MSG for c in m1) and all(c in ALPHA_MSG for c in m2)
    post: _ == True
    """
    return not log_verbatim(m1, m2)
