"""C13 — z3 regex-theory obligations (no length bound) for the regex literals pharmpy uses when reading datasets.

The literals are extracted from the pharmpy source at run time (AST), translated to z3 regular expressions and compared
with the language documented in docs/NONMEM.rst.  A `sat` answer yields a witness string which is confirmed with
Python's own `re` on the extracted literal before it is reported (functions `*_agrees`, also used by --replay).
"""
import ast
import inspect
import re
import textwrap
import warnings

warnings.simplefilter('ignore')

try:
    import re._parser as sre_parse
    import re._constants as sre_c
except ImportError:  # python < 3.11
    import sre_parse
    import sre_constants as sre_c

import z3  # noqa: E402

import pharmpy.model.external.nonmem.dataset as D  # noqa: E402

TAB = chr(9)
NL = chr(10)


# ---- extraction ------------------------------------------------------------------------------------------------

def extract_sep():
    src = textwrap.dedent(inspect.getsource(D.read_nonmem_dataset))
    for node in ast.walk(ast.parse(src)):
        if isinstance(node, ast.Call) and getattr(node.func, 'attr', '') == 'read_table':
            for kw in node.keywords:
                if kw.arg == 'sep':
                    return ast.literal_eval(kw.value)
    raise RuntimeError('separator regex not found in read_nonmem_dataset')


def extract_comment_regex(ignore_character):
    """The pattern string NMTRANDataIO.__init__ compiles for this ignore character (expression evaluated from the
    AST with `ignore_character` bound), and its flags expression."""
    src = textwrap.dedent(inspect.getsource(D.NMTRANDataIO.__init__))
    tree = ast.parse(src)
    for node in ast.walk(tree):
        if isinstance(node, ast.If) and isinstance(node.test, ast.Compare) and \
                isinstance(node.test.left, ast.Name) and node.test.left.id == 'ignore_character' and \
                isinstance(node.test.comparators[0], ast.Constant) and node.test.comparators[0].value == '@':
            branch = node.body if ignore_character == '@' else node.orelse
            for st in branch:
                if isinstance(st, ast.Assign) and isinstance(st.value, ast.Call) and \
                        getattr(st.value.func, 'attr', '') == 'compile':
                    expr = ast.Expression(st.value.args[0])
                    ast.fix_missing_locations(expr)
                    return eval(compile(expr, '<pharmpy>', 'eval'), {'ignore_character': ignore_character, 're': re})
    raise RuntimeError('comment regex not found in NMTRANDataIO.__init__')


# ---- sre -> z3 ---------------------------------------------------------------------------------------------------

_S = z3.StringSort()
_RS = z3.ReSort(_S)
ANYCHAR = z3.AllChar(_RS)


def _chars(cs):
    rs = [z3.Re(z3.StringVal(c)) for c in cs]
    return rs[0] if len(rs) == 1 else z3.Union(*rs)


_CATEGORY = {
    sre_c.CATEGORY_SPACE: ' \t\n\r\f\v',
    sre_c.CATEGORY_DIGIT: '0123456789',
}


def _in(items):
    neg = False
    parts = []
    for op, av in items:
        if op is sre_c.NEGATE:
            neg = True
        elif op is sre_c.LITERAL:
            parts.append(z3.Re(z3.StringVal(chr(av))))
        elif op is sre_c.RANGE:
            parts.append(z3.Range(z3.StringVal(chr(av[0])), z3.StringVal(chr(av[1]))))
        elif op is sre_c.CATEGORY and av in _CATEGORY:
            parts.append(_chars(_CATEGORY[av]))
        else:
            raise NotImplementedError(f'character class item {op} {av}')
    u = parts[0] if len(parts) == 1 else z3.Union(*parts)
    return z3.Diff(ANYCHAR, u) if neg else u


def _seq(parsed):
    rs = [_node(op, av) for op, av in parsed]
    if not rs:
        return z3.Re(z3.StringVal(''))
    return rs[0] if len(rs) == 1 else z3.Concat(*rs)


def _node(op, av):
    if op is sre_c.LITERAL:
        return z3.Re(z3.StringVal(chr(av)))
    if op is sre_c.NOT_LITERAL:
        return z3.Diff(ANYCHAR, z3.Re(z3.StringVal(chr(av))))
    if op is sre_c.ANY:
        return z3.Diff(ANYCHAR, z3.Re(z3.StringVal(NL)))
    if op is sre_c.IN:
        return _in(av)
    if op in (sre_c.MAX_REPEAT, sre_c.MIN_REPEAT):
        lo, hi, sub = av
        r = _seq(sub)
        if hi is sre_c.MAXREPEAT:
            if lo == 0:
                return z3.Star(r)
            if lo == 1:
                return z3.Plus(r)
            return z3.Concat(*([r] * lo + [z3.Star(r)]))
        return z3.Loop(r, lo, hi)
    if op is sre_c.BRANCH:
        return z3.Union(*[_seq(alt) for alt in av[1]])
    if op is sre_c.SUBPATTERN:
        return _seq(av[3])
    raise NotImplementedError(f'regex construct {op}')


def to_z3(pattern, strip_line_anchors=False):
    """z3 regular expression for the full-match language of `pattern`.  With strip_line_anchors the pattern must have
    the shape ^ body NEWLINE or ^ body NEWLINE? (a MULTILINE line pattern) and the language of `body` (a line without its newline) is
    returned."""
    parsed = list(sre_parse.parse(pattern))
    if strip_line_anchors:
        if not parsed or parsed[0] != (sre_c.AT, sre_c.AT_BEGINNING):
            raise NotImplementedError('line pattern does not start with ^')
        last = parsed[-1]
        opt_nl = last[0] in (sre_c.MAX_REPEAT, sre_c.MIN_REPEAT) and last[1][0] == 0 and last[1][1] == 1 and \
            list(last[1][2]) == [(sre_c.LITERAL, 10)]
        if last != (sre_c.LITERAL, 10) and not opt_nl:
            raise NotImplementedError('line pattern does not end with a newline')
        parsed = parsed[1:-1]
    return _seq(parsed)


def decide(formula, timeout_ms=60000):
    """-> ('unsat', None) | ('sat', witness string) | ('unknown', reason)"""
    s = z3.Solver()
    s.set('timeout', timeout_ms)
    x = z3.String('x')
    s.add(formula(x))
    r = s.check()
    if r == z3.unsat:
        return 'unsat', None
    if r == z3.sat:
        return 'sat', s.model().eval(x, model_completion=True).as_string()
    return 'unknown', s.reason_unknown()


def _unescape(w):
    """z3 prints non-printable characters as \\u{..}"""
    return re.sub(r'\\u\{([0-9a-fA-F]+)\}', lambda m: chr(int(m.group(1), 16)), w)


# ---- documented languages (docs/NONMEM.rst) -------------------------------------------------------------------------

def doc_separator(w):
    """A single delimiter: a comma with optional spaces on both sides, a TAB with optional spaces after it, or one or
    more spaces.  (A space before a TAB is an error and is excluded from the comparison.)"""
    if w == '':
        return False
    core = w.strip(' ')
    if core == '':
        return True
    if core == ',':
        return True
    if core == TAB:
        return w[0] == TAB
    return False


def doc_comment_line(line, c):
    if c == '@':
        k = 0
        while k < len(line) and line[k] in ' \t':
            k += 1
        return k < len(line) and (line[k] == '#' or 'a' <= line[k] <= 'z' or 'A' <= line[k] <= 'Z')
    return line[:1] == c


DOC_SEP_RE = ' *, *|\t *| +'


def doc_comment_re(c):
    if c == '@':
        return '[ \t]*[a-zA-Z#].*'
    return '[' + c + '].*'


# ---- obligations ------------------------------------------------------------------------------------------------------

def sep_equivalence():
    """L(sep) minus strings containing space-TAB  ==  documented delimiter language."""
    sep = extract_sep()
    a = to_z3(sep)
    b = to_z3(DOC_SEP_RE)
    bad = z3.Concat(z3.Star(ANYCHAR), z3.Re(z3.StringVal(' ' + TAB)), z3.Star(ANYCHAR))
    a = z3.Diff(a, bad)
    return decide(lambda x: z3.InRe(x, z3.Union(z3.Diff(a, b), z3.Diff(b, a))))


def sep_agrees(w: str) -> bool:
    """Concrete confirmation (real `re`, extracted literal) of a witness of sep_equivalence."""
    if ' ' + TAB in w:
        return True
    return (re.fullmatch(extract_sep(), w) is not None) == doc_separator(w)


def comment_equivalence(c):
    """Line language of the comment pattern for ignore character c == documented one.  For IGNORE=@ the comparison is
    restricted to lines without '@' (NM-TRAN also ignores lines starting with '@'; the docs are silent) and without
    the exotic white space characters CR, FF, VT (the documented \\s is read as space/TAB)."""
    pat = extract_comment_regex(c)
    a = to_z3(pat, strip_line_anchors=True)
    b = to_z3(doc_comment_re(c))
    excl = NL + ('@\r\f\v' if c == '@' else '')
    allowed = z3.Star(z3.Diff(ANYCHAR, _chars(excl)))
    return decide(lambda x: z3.InRe(x, z3.Intersect(allowed, z3.Union(z3.Diff(a, b), z3.Diff(b, a)))))


def comment_agrees(c: str, w: str) -> bool:
    """Concrete confirmation of a witness of comment_equivalence: the real compiled pattern removes line w iff the docs
    call it a comment line."""
    if NL in w or (c == '@' and any(ch in w for ch in '@\r\f\v')):
        return True
    pat = re.compile(extract_comment_regex(c), re.MULTILINE)
    removed = re.sub(pat, '', w + NL) == ''
    return removed == doc_comment_line(w, c)
