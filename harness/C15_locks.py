"""C15 — inductive-step obligations over the REAL lock classes of pharmpy.internals.fs.lock.

Every mutation of lock state happens inside a critical section of `_condition` / `_lock` / the pool `_lock`, so the
atomic transitions of the system are exactly those critical sections.  Each obligation starts from an ARBITRARY state
satisfying the invariant Inv (symbolic), runs ONE real half-step (`__enter__` or `__exit__` of the real generator
context manager) with the OS primitives replaced by contract models, and asserts Inv + the safety/liveness clause.

Thread ids are 1..3.  Per thread t the ghost stack of holds is (n_t, b_t): n_t holds, bit i of b_t set = hold i is
exclusive (bit 0 = oldest).  w_t: t is blocked in `Condition.wait()` inside `_lock_ex`; nt_t: it has been notified.
"""
import os
from collections import Counter

import pharmpy.internals.fs.lock as L

MAXN = int(os.environ.get('VH_MAXN', '2'))      # max holds per thread
NTHR = int(os.environ.get('VH_NTHR', '3'))      # threads that may be non-idle


class Blocked(BaseException):
    """The acting thread would block here: the step does not complete."""


class FakeCondition:
    """Contract model of threading.Condition(threading.RLock()) for single-step execution."""

    def __init__(self, cur):
        self.owner = None
        self.depth = 0
        self.cur = cur
        self.waiting = {}       # thread -> notified flag
        self.aborted = False
        self.nb_blocking_calls = 0

    def acquire(self, blocking=True):
        if self.owner is None or self.owner == self.cur:
            self.owner = self.cur
            self.depth += 1
            return True
        if blocking:
            self.nb_blocking_calls += 1
            self.aborted = True
            raise Blocked()
        return False

    def release(self):
        if self.aborted:
            return
        if self.owner != self.cur:
            raise RuntimeError('cannot release un-acquired lock')
        self.depth -= 1
        if self.depth == 0:
            self.owner = None

    def wait(self):
        if self.owner != self.cur:
            raise RuntimeError('cannot wait on un-acquired lock')
        self.nb_blocking_calls += 1
        self.waiting[self.cur] = False
        self.owner = None
        self.depth = 0
        self.aborted = True
        raise Blocked()

    def notify_all(self):
        if self.owner != self.cur:
            raise RuntimeError('cannot notify on un-acquired lock')
        for k in list(self.waiting):
            self.waiting[k] = True

    def __enter__(self):
        self.acquire()

    def __exit__(self, *a):
        self.release()


# ---------------------------------------------------------------------------------------------------------
# ghost state helpers

def _all_stacks(maxn):
    out = ['']
    frontier = ['']
    for _ in range(maxn):
        frontier = [x + m for x in frontier for m in 'SE']
        out += frontier
    return out


STACKS = _all_stacks(MAXN)      # c_t indexes this table; bottom (oldest hold) first
NST = len(STACKS)


def inv_params(c1, c2, c3, q1, q2, q3):
    """Representation invariant of a ShareableThreadLock between atomic steps (ghost view).
    c_t: code of thread t's hold stack; q_t: 0 running/idle, 1 waiting in _lock_ex un-notified, 2 waiting notified."""
    cs = (c1, c2, c3)
    qs = (q1, q2, q3)
    for i in range(3):
        if not (0 <= cs[i] < NST and 0 <= qs[i] <= 2):
            return False
        if i >= NTHR and (cs[i] or qs[i]):
            return False
    st = [STACKS[c] for c in cs]
    holders_e = [i for i in range(3) if 'E' in st[i]]
    if len(holders_e) > 1:
        return False
    if holders_e:
        e = holders_e[0]
        # an exclusive holder is the only holder and is not waiting
        if any(st[i] for i in range(3) if i != e):
            return False
        if qs[e]:
            return False
    for i in range(3):
        if qs[i] == 1:
            # L1 (no lost wake-up) as an invariant: an un-notified waiter's wait condition is true, and it is
            # kept true by another thread whose OLDEST hold is shared (a thread whose oldest hold is exclusive
            # acquired it when nobody held anything, i.e. when every waiter had already been notified).
            if not any(st[j][:1] == 'S' for j in range(3) if j != i):
                return False
    return True


def build(cur, c1, c2, c3, q1, q2, q3):
    tl = L.ShareableThreadLock()
    cond = FakeCondition(cur)
    cnt = Counter()
    for t, c in ((1, c1), (2, c2), (3, c3)):
        s = STACKS[c]
        if s:
            cnt[t] = len(s)
        if 'E' in s:
            cond.owner = t
            cond.depth = s.count('E')
    for t, q in ((1, q1), (2, q2), (3, q3)):
        if q:
            cond.waiting[t] = (q == 2)
    tl._condition = cond
    tl._acquired_by = cnt
    L.get_ident = lambda: cur
    return tl, cond


def post_state(tl, cond, stacks):
    """The real object after the step must agree with the ghost stacks, and the invariant must hold again."""
    for t in (1, 2, 3):
        if tl._acquired_by.get(t, 0) != len(stacks[t]):
            return False
        if t in tl._acquired_by and tl._acquired_by[t] == 0:
            return False
        if len(stacks[t]) > MAXN + 1:
            return False
    ne = {t: stacks[t].count('E') for t in (1, 2, 3)}
    if sum(ne.values()) == 0:
        if cond.owner is not None or cond.depth != 0:
            return False
    else:
        ts = [t for t in (1, 2, 3) if ne[t]]
        if len(ts) != 1 or cond.owner != ts[0] or cond.depth != ne[ts[0]]:
            return False
    full = _all_stacks(MAXN + 1)
    cs = [full.index(stacks[t]) for t in (1, 2, 3)]
    qs = [(2 if cond.waiting[t] else 1) if t in cond.waiting else 0 for t in (1, 2, 3)]
    return _inv_full(cs, qs, full)


def _inv_full(cs, qs, table):
    global STACKS, NST
    saved = (STACKS, NST)
    STACKS, NST = table, len(table)
    try:
        return inv_params(cs[0], cs[1], cs[2], qs[0], qs[1], qs[2])
    finally:
        STACKS, NST = saved


def _entered_cm(shared, cur):
    """A real, already-entered context manager of a scratch lock object (so that the generator is suspended at its
    `yield`); the caller then installs the symbolic pre-state into the same object and runs the real __exit__."""
    tl = L.ShareableThreadLock()
    tl._condition = FakeCondition(cur)
    L.get_ident = lambda: cur
    cm = tl._lock_sh(True, True) if shared else tl._lock_ex(True, True)
    cm.__enter__()
    return tl, cm


def _stacks(c1, c2, c3):
    return {1: STACKS[c1], 2: STACKS[c2], 3: STACKS[c3]}


def _top(c):
    return STACKS[c][-1:] if 0 <= c < NST else ''


# ---------------------------------------------------------------------------------------------------------
# obligations (CUR/BLK/REE are pinned per process by the runner: a concrete case split; the lock state is symbolic)

CUR = int(os.environ.get('VH_CUR', '0'))
BLK = int(os.environ.get('VH_BLK', '-1'))
REE = int(os.environ.get('VH_REE', '-1'))


def _split(cur, blocking=None, reentrant=None):
    if not 1 <= cur <= NTHR:
        return False
    if CUR and cur != CUR:
        return False
    if BLK >= 0 and blocking is not None and bool(BLK) != blocking:
        return False
    if REE >= 0 and reentrant is not None and bool(REE) != reentrant:
        return False
    return True


def sh_enter(cur: int, blocking: bool, reentrant: bool, c1: int, c2: int, c3: int, q1: int, q2: int, q3: int) -> bool:
    """
    One shared-acquire step from any invariant state by a running thread.
    pre: _split(cur, blocking, reentrant)
    pre: inv_params(c1, c2, c3, q1, q2, q3)
    pre: (q1, q2, q3)[cur - 1] == 0
    post: _ == True
    """
    tl, cond = build(cur, c1, c2, c3, q1, q2, q3)
    st = _stacks(c1, c2, c3)
    other_excl = any('E' in st[t] for t in (1, 2, 3) if t != cur)
    own = len(st[cur])
    cm = tl._lock_sh(blocking=blocking, reentrant=reentrant)
    try:
        cm.__enter__()
    except Blocked:
        # S3: only a blocking request may block, and only because another thread holds exclusively
        return blocking and other_excl and cond.nb_blocking_calls == 1 and post_state(tl, cond, st)
    except L.AcquiringThreadLevelLockWouldBlockError:
        return (not blocking) and other_excl and cond.nb_blocking_calls == 0 and post_state(tl, cond, st)
    except L.RecursiveDeadlockError:
        return (not reentrant) and own > 0 and not other_excl and post_state(tl, cond, st)
    # completed: S2 no other thread holds exclusively; S4 a non-reentrant recursion must not succeed
    if other_excl:
        return False
    if own > 0 and not reentrant:
        return False
    if cond.nb_blocking_calls and not blocking:
        return False
    st[cur] = st[cur] + 'S'
    return post_state(tl, cond, st)


def ex_enter(cur: int, blocking: bool, reentrant: bool, c1: int, c2: int, c3: int, q1: int, q2: int, q3: int) -> bool:
    """
    One exclusive-acquire step (also models a waiter resuming from Condition.wait(), notified or spuriously: the
    loop re-check is the same code from the same state).
    pre: _split(cur, blocking, reentrant)
    pre: inv_params(c1, c2, c3, q1, q2, q3)
    pre: blocking or (q1, q2, q3)[cur - 1] == 0
    post: _ == True
    """
    tl, cond = build(cur, c1, c2, c3, q1, q2, q3)
    # a resuming waiter leaves the wait set first (it re-acquires the RLock inside wait())
    cond.waiting.pop(cur, None)
    st = _stacks(c1, c2, c3)
    other_excl = any('E' in st[t] for t in (1, 2, 3) if t != cur)
    others_hold = any(len(st[t]) > 0 for t in (1, 2, 3) if t != cur)
    own = len(st[cur])
    cm = tl._lock_ex(blocking=blocking, reentrant=reentrant)
    try:
        cm.__enter__()
    except Blocked:
        if not blocking or cond.nb_blocking_calls != 1:
            return False
        if other_excl:
            # blocked on the RLock
            return cur not in cond.waiting and post_state(tl, cond, st)
        # blocked in wait(): legitimate only if another thread holds; un-notified waiter
        return others_hold and cond.waiting.get(cur) is False and post_state(tl, cond, st)
    except L.AcquiringThreadLevelLockWouldBlockError:
        return (not blocking) and others_hold and cond.nb_blocking_calls == 0 and post_state(tl, cond, st)
    except L.RecursiveDeadlockError:
        # S4: raised (not hung) exactly when the thread already holds and nobody else does
        return (not reentrant) and own > 0 and not others_hold and post_state(tl, cond, st)
    # completed: S1
    if others_hold:
        return False
    if own > 0 and not reentrant:
        return False
    if cond.owner != cur:
        return False
    if cond.nb_blocking_calls and not blocking:
        return False
    st[cur] = st[cur] + 'E'
    return post_state(tl, cond, st)


def sh_exit(cur: int, c1: int, c2: int, c3: int, q1: int, q2: int, q3: int) -> bool:
    """
    One shared-release step; Inv afterwards contains L1: every un-notified waiter still has a true wait condition.
    pre: _split(cur)
    pre: inv_params(c1, c2, c3, q1, q2, q3)
    pre: (q1, q2, q3)[cur - 1] == 0
    pre: _top((c1, c2, c3)[cur - 1]) == 'S'
    post: _ == True
    """
    scratch, cm = _entered_cm(True, cur)
    tl, cond = build(cur, c1, c2, c3, q1, q2, q3)
    scratch._condition = cond
    scratch._acquired_by = tl._acquired_by
    st = _stacks(c1, c2, c3)
    try:
        cm.__exit__(None, None, None)
    except Blocked:
        # releasing may only have to wait for the RLock of an exclusive holder -- impossible: then cur holds nothing
        return False
    st[cur] = st[cur][:-1]
    return post_state(scratch, cond, st)


def ex_exit(cur: int, c1: int, c2: int, c3: int, q1: int, q2: int, q3: int) -> bool:
    """
    One exclusive-release step.
    pre: _split(cur)
    pre: inv_params(c1, c2, c3, q1, q2, q3)
    pre: _top((c1, c2, c3)[cur - 1]) == 'E'
    post: _ == True
    """
    scratch, cm = _entered_cm(False, cur)
    tl, cond = build(cur, c1, c2, c3, q1, q2, q3)
    scratch._condition = cond
    scratch._acquired_by = tl._acquired_by
    st = _stacks(c1, c2, c3)
    try:
        cm.__exit__(None, None, None)
    except Blocked:
        return False
    st[cur] = st[cur][:-1]
    return post_state(scratch, cond, st)


# reachability twins: same pre, body reaches its end => the twin's post is violated
def sh_enter__twin(cur: int, blocking: bool, reentrant: bool, c1: int, c2: int, c3: int, q1: int, q2: int, q3: int) -> bool:
    """
    pre: _split(cur, blocking, reentrant)
    pre: inv_params(c1, c2, c3, q1, q2, q3)
    pre: (q1, q2, q3)[cur - 1] == 0
    post: _ == True
    """
    return not sh_enter(cur, blocking, reentrant, c1, c2, c3, q1, q2, q3)


def ex_enter__twin(cur: int, blocking: bool, reentrant: bool, c1: int, c2: int, c3: int, q1: int, q2: int, q3: int) -> bool:
    """
    pre: _split(cur, blocking, reentrant)
    pre: inv_params(c1, c2, c3, q1, q2, q3)
    pre: blocking or (q1, q2, q3)[cur - 1] == 0
    post: _ == True
    """
    return not ex_enter(cur, blocking, reentrant, c1, c2, c3, q1, q2, q3)


def sh_exit__twin(cur: int, c1: int, c2: int, c3: int, q1: int, q2: int, q3: int) -> bool:
    """
    The twin additionally demands a waiter, so that the L1 clause is exercised non-vacuously.
    pre: _split(cur)
    pre: inv_params(c1, c2, c3, q1, q2, q3)
    pre: (q1, q2, q3)[cur - 1] == 0
    pre: _top((c1, c2, c3)[cur - 1]) == 'S'
    pre: q1 == 1 or q2 == 1 or q3 == 1
    post: _ == True
    """
    return not sh_exit(cur, c1, c2, c3, q1, q2, q3)


def ex_exit__twin(cur: int, c1: int, c2: int, c3: int, q1: int, q2: int, q3: int) -> bool:
    """
    pre: _split(cur)
    pre: inv_params(c1, c2, c3, q1, q2, q3)
    pre: _top((c1, c2, c3)[cur - 1]) == 'E'
    post: _ == True
    """
    return not ex_exit(cur, c1, c2, c3, q1, q2, q3)
