"""C03 — record-level edits of a control stream touch only the edited record, also when the stream contains
byte-identical records (multi-$PROBLEM streams repeat $INPUT/$PK/$ERROR verbatim).

The control stream is assembled from chunks chosen by symbolic table indexes (duplicates allowed), parsed by the real
NMTranParser; one record chosen by a symbolic position is removed / replaced through the real
NMTranControlStream.remove_records / replace_records; the printed result must be the text with exactly that chunk
removed / replaced.  Per path the parser runs on concrete text (table indexes are fixed by bisection).
"""
import warnings

warnings.simplefilter('ignore')

try:
    from crosshair.tracers import NoTracing as _NoTracing
except ImportError:
    import contextlib
    _NoTracing = contextlib.nullcontext

from pharmpy.model.external.nonmem.nmtran_parser import NMTranParser  # noqa: E402
from pharmpy.model.external.nonmem.records.factory import create_record  # noqa: E402

import os  # noqa: E402

CHUNKS = ['$PROBLEM one\n', '$INPUT ID TIME DV\n', '$PK\nCL=THETA(1)\nV=THETA(2)\nS1=V\n', '$ERROR\nY=F+EPS(1)\n',
          '$THETA (0,1)\n', '$ESTIMATION METHOD=1 ; keep\n']
I1 = int(os.environ.get('VH_I1', '-1'))
N = len(CHUNKS)
NEW = '$PK\nCL=THETA(1)\nV=THETA(2)\nS1=V/1000\n'
NMTranParser().parse(''.join(CHUNKS))       # warm up the lark parsers outside any analysis


def _pick(x, lo, hi):
    while hi - lo > 1:
        mid = (lo + hi) // 2
        if x < mid:
            hi = mid
        else:
            lo = mid
    return lo


def _body(i1, i2, i3, i4, k, op):
    idx = [i1, i2, i3, i4]
    text = ''.join(CHUNKS[i] for i in idx)
    cs = NMTranParser().parse(text)
    if str(cs) != text:
        raise AssertionError(f'round trip of {text!r}')
    if len(cs.records) != 4:
        raise AssertionError(f'{len(cs.records)} records for 4 chunks')
    target = cs.records[k]
    if op == 0:
        out = cs.remove_records([target])
        want = ''.join(CHUNKS[i] for j, i in enumerate(idx) if j != k)
    else:
        out = cs.replace_records([target], [create_record(NEW)])
        want = ''.join(NEW if j == k else CHUNKS[i] for j, i in enumerate(idx))
    if str(out) != want:
        raise AssertionError(f'editing record {k} of {idx}: got {str(out)!r}, expected {want!r}')
    return True


def stream_edit(i1: int, i2: int, i3: int, i4: int, k: int, op: int) -> bool:
    """
    pre: 0 <= i1 < N and 0 <= i2 < N and 0 <= i3 < N and 0 <= i4 < N and 0 <= k < 4 and 0 <= op <= 1
    pre: I1 < 0 or i1 == I1
    post: _ == True
    """
    codes = [_pick(i1, 0, N), _pick(i2, 0, N), _pick(i3, 0, N), _pick(i4, 0, N), _pick(k, 0, 4), _pick(op, 0, 2)]
    with _NoTracing():
        return _body(*codes)


def stream_edit__twin(i1: int, i2: int, i3: int, i4: int, k: int, op: int) -> bool:
    """
    pre: 0 <= i1 < N and 0 <= i2 < N and 0 <= i3 < N and 0 <= i4 < N and 0 <= k < 4 and 0 <= op <= 1
    pre: I1 < 0 or i1 == I1
    post: _ == True
    """
    codes = [_pick(i1, 0, N), _pick(i2, 0, N), _pick(i3, 0, N), _pick(i4, 0, N), _pick(k, 0, 4), _pick(op, 0, 2)]
    with _NoTracing():
        return _body(*codes) is not True
