"""C19 — concrete companion probe (sampling, not a solver verdict): the post-processing statistics of the resampling
and diagnostic tools are pandas / numpy / scipy pipelines that cannot take symbolic values (not claimed).  This probe
evaluates them on fixed synthetic estimates and compares with their defining formulas computed directly with plain
Python arithmetic: bootstrap mean / median / bias / standard error / RSE / covariance / percentiles and the OFV
bookkeeping, case-deletion Cook scores, jackknife covariance, covariance ratios and delta-OFV, eta shrinkage (variance
and sd form), individual shrinkage, delta-method standard error."""
import math
import warnings

warnings.simplefilter('ignore')

NAMES = ['POP_CL', 'POP_VC', 'IIV_CL']
EST = [[0.0047, 1.01, 0.031], [0.0051, 0.97, 0.027], [0.0043, 1.08, 0.040], [0.0049, 0.99, 0.022], [0.0056, 0.93, 0.035],
       [0.0040, 1.12, 0.029], [0.0052, 1.02, 0.033]]
OFV = [587.2, 601.9, 570.3, 593.4, 611.0, 566.8, 590.1]
ORIG = [0.0047, 1.0, 0.03]
ORIG_OFV = 586.3


def close(a, b, tol=1e-9):
    a, b = float(a), float(b)
    if math.isnan(a) or math.isnan(b):
        return math.isnan(a) and math.isnan(b)
    return abs(a - b) <= tol * max(1.0, abs(a), abs(b))


def mean(xs):
    return sum(xs) / len(xs)


def var(xs, ddof=1):
    m = mean(xs)
    return sum((x - m) ** 2 for x in xs) / (len(xs) - ddof)


def median(xs):
    s = sorted(xs)
    n = len(s)
    return s[n // 2] if n % 2 else (s[n // 2 - 1] + s[n // 2]) / 2


def quantile(xs, q):
    s = sorted(xs)
    pos = q * (len(s) - 1)
    lo = int(math.floor(pos))
    hi = min(lo + 1, len(s) - 1)
    return s[lo] + (s[hi] - s[lo]) * (pos - lo)


def bootstrap():
    import pandas as pd
    from pharmpy.tools.bootstrap.results import calculate_results
    from pharmpy.workflows.results import ModelfitResults
    bad = []
    results = [ModelfitResults(parameter_estimates=pd.Series(e, index=NAMES), ofv=o) for e, o in zip(EST, OFV)]
    ids = [1, 2, 3, 4]
    iofv = pd.Series([100.5, 200.25, 150.0, 135.55], index=ids)
    orig = ModelfitResults(parameter_estimates=pd.Series(ORIG, index=NAMES), ofv=ORIG_OFV, individual_ofv=iofv)
    included = [[1, 1, 3, 4], [2, 2, 2, 4], [1, 2, 3, 4], [4, 4, 4, 4], [3, 1, 2, 2], [1, 3, 3, 4], [2, 4, 1, 1]]
    dofv = [ModelfitResults(ofv=ORIG_OFV + 1.5 * (k + 1)) for k in range(len(EST))]
    res = calculate_results(None, results, original_results=orig, included_individuals=included, dofv_results=dofv)
    st = res.parameter_statistics
    for j, nm in enumerate(NAMES):
        col = [e[j] for e in EST]
        want = dict(mean=mean(col), median=median(col), bias=mean(col) - ORIG[j], stderr=math.sqrt(var(col)),
                    RSE=math.sqrt(var(col)) / mean(col))
        for k, w in want.items():
            if not close(st.loc[nm, k], w):
                bad.append(f'bootstrap {k}[{nm}] = {st.loc[nm, k]}, definition gives {w}')
        for k, q in (('min', 0.0), ('2.5%', 0.025), ('5%', 0.05), ('median', 0.5), ('95%', 0.95), ('97.5%', 0.975),
                     ('max', 1.0), ('0.5%', 0.005), ('99.5%', 0.995)):
            if not close(res.parameter_distribution.loc[nm, k], quantile(col, q)):
                bad.append(f'bootstrap percentile {k}[{nm}]')
        for j2, nm2 in enumerate(NAMES):
            col2 = [e[j2] for e in EST]
            cov = sum((a - mean(col)) * (b - mean(col2)) for a, b in zip(col, col2)) / (len(col) - 1)
            if not close(res.covariance_matrix.loc[nm, nm2], cov):
                bad.append(f'bootstrap covariance[{nm},{nm2}]')
    ofvs = res.ofvs
    for i in range(len(EST)):
        ob = sum(float(iofv[k]) for k in included[i])
        want = dict(bootstrap_bootdata_ofv=OFV[i], original_bootdata_ofv=ob, bootstrap_origdata_ofv=ORIG_OFV + 1.5 * (i + 1),
                    original_origdata_ofv=ORIG_OFV, delta_bootdata=ob - OFV[i], delta_origdata=1.5 * (i + 1))
        for k, w in want.items():
            if not close(ofvs.loc[i, k], w):
                bad.append(f'bootstrap ofvs[{i},{k}] = {ofvs.loc[i, k]}, definition gives {w}')
    if not close(res.ofv_statistics.loc['bootstrap_bootdata_ofv', 'mean'], mean(OFV)) or \
            not close(res.ofv_statistics.loc['bootstrap_bootdata_ofv', 'stderr'], math.sqrt(var(OFV))):
        bad.append('bootstrap ofv statistics')
    return bad


def cdd():
    import numpy as np
    import pandas as pd
    from pharmpy.tools.cdd import results as C
    from pharmpy.workflows.results import ModelfitResults
    bad = []
    est = pd.DataFrame(EST[:5], columns=NAMES)
    base = pd.Series(ORIG, index=NAMES)
    covm = np.array([[4.0e-7, 1.0e-6, 2.0e-7], [1.0e-6, 9.0e-3, 1.0e-4], [2.0e-7, 1.0e-4, 4.0e-5]])
    cook = C.compute_cook_scores(base, est, pd.DataFrame(covm, index=NAMES, columns=NAMES))
    inv = np.linalg.inv(covm)
    for i in range(5):
        d = np.array(EST[i]) - np.array(ORIG)
        if cook is None or not close(cook[i], math.sqrt(float(d @ inv @ d)), 1e-7):
            bad.append(f'cdd cook score[{i}]')
    jk = C.compute_jackknife_covariance_matrix(est)
    n = 5
    for a, na in enumerate(NAMES):
        for b, nb in enumerate(NAMES):
            ca, cb = [e[a] for e in EST[:5]], [e[b] for e in EST[:5]]
            w = (n - 1) / n * sum((x - mean(ca)) * (y - mean(cb)) for x, y in zip(ca, cb))
            if not close(jk.loc[na, nb], w):
                bad.append(f'cdd jackknife covariance[{na},{nb}]')
    iofv = pd.Series([100.5, 200.25, 150.0, 135.55, 80.0], index=[1, 2, 3, 4, 5])
    baseres = ModelfitResults(ofv=float(iofv.sum()), individual_ofv=iofv)
    cres = [ModelfitResults(ofv=500.0 + 3 * k) for k in range(3)] + [None]
    skipped = [[1], [2, 3], [5], [4]]
    dofv = C.compute_delta_ofv(baseres, cres, skipped)
    for k in range(3):
        w = sum(float(iofv[i]) for i in iofv.index if i not in skipped[k]) - (500.0 + 3 * k)
        if not close(dofv[k], w):
            bad.append(f'cdd delta ofv[{k}] = {dofv[k]}, definition gives {w}')
    if not math.isnan(float(dofv[3])):
        bad.append('cdd delta ofv of a failed case is not NaN')
    cms = [ModelfitResults(covariance_matrix=pd.DataFrame(covm * (1 + 0.5 * k), index=NAMES, columns=NAMES)) for k in range(3)]
    ratios = C.compute_covariance_ratios(cms + [None], pd.DataFrame(covm, index=NAMES, columns=NAMES))
    for k in range(3):
        if ratios is None or not close(ratios[k], math.sqrt((1 + 0.5 * k) ** 3), 1e-7):
            bad.append(f'cdd covariance ratio[{k}]')
    if ratios is not None and not math.isnan(float(ratios[3])):
        bad.append('cdd covariance ratio of a failed case is not NaN')
    return bad


def shrinkage():
    import pandas as pd
    import pharmpy.modeling as pm
    from pharmpy.tools import load_example_modelfit_results
    bad = []
    m = pm.load_example_model('pheno')
    r = load_example_modelfit_results('pheno')
    pe, ie = r.parameter_estimates, r.individual_estimates
    om = {'ETA_CL': float(pe['IIV_CL']), 'ETA_VC': float(pe['IIV_VC'])}
    sh = pm.calculate_eta_shrinkage(m, pe, ie)
    shsd = pm.calculate_eta_shrinkage(m, pe, ie, sd=True)
    for e in ('ETA_CL', 'ETA_VC'):
        col = [float(x) for x in ie[e]]
        if not close(sh[e], 1 - var(col) / om[e]):
            bad.append(f'eta shrinkage[{e}] = {sh[e]}, definition gives {1 - var(col) / om[e]}')
        if not close(shsd[e], 1 - math.sqrt(var(col)) / math.sqrt(om[e])):
            bad.append(f'eta shrinkage sd[{e}]')
    ish = pm.calculate_individual_shrinkage(m, pe, r.individual_estimates_covariance)
    for i in list(ish.index)[:6]:
        c = r.individual_estimates_covariance[i]
        for e in ('ETA_CL', 'ETA_VC'):
            if not close(ish.loc[i, e], float(c.loc[e, e]) / om[e]):
                bad.append(f'individual shrinkage[{i},{e}]')
    # fixed parameters take their initial value
    pe2 = pe.drop('IIV_VC')
    m2 = pm.fix_parameters(m, ['IIV_VC'])
    sh2 = pm.calculate_eta_shrinkage(m2, pe2, ie)
    col = [float(x) for x in ie['ETA_VC']]
    if not close(sh2['ETA_VC'], 1 - var(col) / float(m.parameters['IIV_VC'].init)):
        bad.append('eta shrinkage with a fixed omega')
    assert isinstance(sh, pd.Series)
    return bad


def delta_method():
    import pandas as pd
    import sympy
    from pharmpy.internals.math import se_delta_method
    bad = []
    a, b, c = sympy.symbols('A B C')
    vals = {'A': 2.0, 'B': 3.0, 'C': 0.5}
    cov = pd.DataFrame([[0.04, 0.01, 0.0], [0.01, 0.09, -0.02], [0.0, -0.02, 0.16]], index=['A', 'B', 'C'],
                       columns=['A', 'B', 'C'])
    cases = [(a * b, {'A': 3.0, 'B': 2.0}), (a / b, {'A': 1 / 3.0, 'B': -2.0 / 9.0}),
             (a * sympy.exp(c), {'A': math.exp(0.5), 'C': 2.0 * math.exp(0.5)}), (b + 2 * c, {'B': 1.0, 'C': 2.0})]
    for expr, grad in cases:
        w = math.sqrt(sum(grad[i] * grad[j] * float(cov.loc[i, j]) for i in grad for j in grad))
        g = se_delta_method(expr, vals, cov)
        if not close(g, w, 1e-9):
            bad.append(f'delta method se of {expr} = {g}, definition gives {w}')
    return bad


def statistics():
    bad = bootstrap() + cdd() + shrinkage() + delta_method() + summaries()
    if bad:
        raise AssertionError('; '.join(bad[:5]))
    return True


def summaries():
    """summarize_modelfit_results_from_entries / summarize_errors_from_entries report, per model entry, the numbers of
    THAT entry's results: estimates, standard errors, relative standard errors, error / warning counts and the log
    messages in order."""
    import dataclasses
    import pharmpy.modeling as pm
    from pharmpy.tools import load_example_modelfit_results
    from pharmpy.tools.run import summarize_errors_from_entries, summarize_modelfit_results_from_entries
    from pharmpy.workflows import ModelEntry
    from pharmpy.workflows.log import Log
    bad = []
    m = pm.load_example_model('pheno')
    r = load_example_modelfit_results('pheno')
    log = Log().log_error('first error').log_warning('a warning').log_error('second error')
    r2 = dataclasses.replace(r, parameter_estimates=r.parameter_estimates * 1.25, standard_errors=r.standard_errors * 2,
                             relative_standard_errors=r.relative_standard_errors * 1.6, log=log,
                             parameter_estimates_iterations=None, ofv_iterations=None, ofv=601.25)
    r3 = dataclasses.replace(r, parameter_estimates=r.parameter_estimates * 0.5, log=Log().log_warning('only a warning'),
                             parameter_estimates_iterations=None, ofv_iterations=None, ofv=577.5)
    entries = [('pheno', r), ('second', r2), ('third', r3)]
    mes = [ModelEntry.create(pm.set_name(m, n), modelfit_results=res) for n, res in entries]
    df = summarize_modelfit_results_from_entries(mes)
    if [str(i) for i in df.index] != [n for n, _ in entries]:
        bad.append(f'summary index {list(df.index)}')
    else:
        for n, res in entries:
            for p in res.parameter_estimates.index:
                for col, ser in ((f'{p}_estimate', res.parameter_estimates), (f'{p}_SE', res.standard_errors),
                                 (f'{p}_RSE', res.relative_standard_errors)):
                    if col in df.columns and not close(df.loc[n, col], ser[p], 1e-12):
                        bad.append(f'summary {col}[{n}] = {df.loc[n, col]}, results have {ser[p]}')
            ne = sum(1 for e in res.log if e.category == 'ERROR')
            nw = sum(1 for e in res.log if e.category == 'WARNING')
            if int(df.loc[n, 'errors_found']) != ne or int(df.loc[n, 'warnings_found']) != nw:
                bad.append(f'summary error / warning counts of {n}')
            if not close(df.loc[n, 'ofv'], res.ofv, 1e-12):
                bad.append(f'summary ofv of {n} = {df.loc[n, "ofv"]}, results have {res.ofv}')
            if bool(df.loc[n, 'minimization_successful']) != bool(res.minimization_successful):
                bad.append(f'summary minimization_successful of {n}')
    err = summarize_errors_from_entries(mes)
    want = [(n, e.category, i, e.message) for n, res in entries for i, e in enumerate(res.log)]
    got = [(idx[0], idx[1], int(idx[2]), row['message']) for idx, row in err.iterrows()]
    if sorted(got) != sorted(want):
        bad.append(f'error summary {got} != {want}')
    return bad


if __name__ == '__main__':
    for f in (bootstrap, cdd, shrinkage, delta_method, summaries):
        try:
            print(f.__name__, f())
        except Exception as e:  # noqa
            import traceback
            traceback.print_exc()
