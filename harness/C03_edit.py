"""C03 obligations 3, 4, 5 — record splitting of NMTranParser, statement/node bookkeeping of
CodeRecord.update_statements (+ _index_statements_diff), and the AttrTree edit helpers used by the record updaters.
All run the REAL pharmpy code; stubs are listed in checks/C03.py."""
import os
import warnings
from typing import List

warnings.simplefilter('ignore')

import pharmpy.internals.parse.generic as G  # noqa: E402
import pharmpy.model.external.nonmem.nmtran_parser as NP  # noqa: E402
import pharmpy.model.external.nonmem.records.code_record as CRm  # noqa: E402
import pharmpy.model.external.nonmem.records.factory as F  # noqa: E402
from pharmpy.basic import Expr  # noqa: E402
from pharmpy.internals.parse import AttrToken, AttrTree, NoSuchRuleException  # noqa: E402
from pharmpy.model import Assignment, ModelSyntaxError  # noqa: E402
from pharmpy.model.external.nonmem.records.record import Record  # noqa: E402

NL = chr(10)
TAB = chr(9)
REAL = os.environ.get('VH_REAL') == '1'      # second-stage confirmation without stubs (where a stub is used)


def _env_int(name, default):
    try:
        return int(os.environ.get(name, default))
    except ValueError:
        return default


# --------------------------------------------------------------------------------------------------------------
# (3) NMTranParser.parse: record splitting round trip.  Known-record parsers -> identity stub.

class _Root:
    def __init__(self, content):
        self.content = content

    def __str__(self):
        return self.content


class _IdentityParser:
    def __init__(self, content):
        self.root = _Root(content)


if not REAL:
    F.known_records = {name: (Record, _IdentityParser) for name in F.known_records}

STRALPHA = '$PK ' + TAB + NL + '1'
STR_MAX = _env_int('VH_STRMAX', 4)
STR_LEN = _env_int('VH_STRLEN', -1)
STR_FIRST = _env_int('VH_STRFIRST', -1)


def _str_split(t):
    if STR_LEN >= 0 and len(t) != STR_LEN:
        return False
    if STR_FIRST >= 0 and (len(t) < 1 or t[0] != STRALPHA[STR_FIRST]):
        return False
    return True


def ref_records(text):
    """Reference: a record starts at each line whose first character after leading spaces/TABs is '$'.
    -> (number of record starts, text before the first start, a start is not followed by a letter)"""
    starts = 0
    bad = False
    before = None
    pos = 0
    n = len(text)
    while pos <= n:
        e = text.find(NL, pos)
        if e == -1:
            e = n
        k = pos
        while k < e and (text[k] == ' ' or text[k] == TAB):
            k += 1
        if k < e and text[k] == '$':
            if before is None:
                before = text[:pos]
            starts += 1
            if not (k + 1 < n and ('A' <= text[k + 1] <= 'Z' or 'a' <= text[k + 1] <= 'z')):
                bad = True
        pos = e + 1
    if before is None:
        before = text
    return starts, before, bad


def stream_split(text: str) -> bool:
    """
    str(NMTranParser().parse(text)) == text with one record per record start (plus the text before the first one),
    or ModelSyntaxError exactly when a '$' at a record start is not followed by a letter.
    pre: len(text) <= STR_MAX and _str_split(text)
    pre: all(c in STRALPHA for c in text)
    post: _ == True
    """
    starts, before, bad = ref_records(text)
    try:
        stream = NP.NMTranParser().parse(text)
    except ModelSyntaxError:
        return bad
    except Exception as e:
        if REAL and type(e).__module__.startswith('lark'):
            return True     # unstubbed confirmation only: the real record parser rejects the content
        raise
    if bad:
        return False
    if str(stream) != text:
        return False
    recs = list(stream.records)
    if len(recs) != starts + (1 if before else 0):
        return False
    if before:
        if str(recs[0]) != before:
            return False
        recs = recs[1:]
    for r in recs:
        if not r.raw_name.lstrip(' ' + TAB).startswith('$'):
            return False
        if str(r) != r.raw_name + str(r.root if hasattr(r, 'root') else r.content):
            return False
    return True


def stream_split__twin(text: str) -> bool:
    """
    pre: len(text) <= STR_MAX and _str_split(text)
    pre: all(c in STRALPHA for c in text)
    pre: '$P' in text
    post: _ == True
    """
    return not stream_split(text)


# --------------------------------------------------------------------------------------------------------------
# (4) CodeRecord.update_statements / _index_statements_diff bookkeeping

class Stmt(Assignment):
    """Opaque stand-in statement: a real Assignment (S<i> = i) whose equality is its identity number.  (Assignment.__eq__
    calls the builtin hash(), which CrossHair replaces by an unconstrained value; the bookkeeping under test only needs
    == on statements.)"""

    def __init__(self, sid):
        super().__init__(Expr.symbol('S%d' % sid), Expr.integer(sid))
        self.sid = sid

    def __eq__(self, other):
        return isinstance(other, Stmt) and self.sid == other.sid

    def __hash__(self):
        return self.sid


POOL = [Stmt(i) for i in range(4)]
NPOOL = _env_int('VH_NPOOL', 3)
SEQ_MAX = _env_int('VH_SEQMAX', 2)
OLD_N = _env_int('VH_OLDN', -1)
NEW_N = _env_int('VH_NEWN', -1)
OLD_0 = _env_int('VH_OLD0', -1)
GAP_MAX = _env_int('VH_GAPMAX', 1)
FIN_N = _env_int('VH_FINN', -1)
NEW_0 = _env_int('VH_NEW0', -1)


_CONC = list(range(16))


def _c(v):
    """symbolic small int -> concrete int (one path per value) so that everything downstream is concrete"""
    return _CONC[v]


def _stmt_node(ids):
    # like a real statement node, the stand-in ends with the line break of its line
    return AttrTree('statement', (AttrToken('S', ','.join(str(i) for i in ids) + '\n'),))


def _node_ids(node):
    v = node.children[0].value.strip()
    if v.startswith('c'):
        return []             # continuation node of a statement that prints as several nodes
    return [int(x) for x in v.split(',')]


# VH_MULTI=1: the last pool statement prints as TWO statement nodes (like a piecewise without else, which becomes one
# `IF (..) X = v` line per branch); records produced by an earlier update then hold statements spanning several nodes
MULTI = _env_int('VH_MULTI', 0)


def _continuations_ok(kids):
    """every node of the multi-node statement is directly followed by its continuation node, and no continuation node
    stands alone"""
    if not MULTI:
        return True
    st = [c.children[0].value.strip() for c in kids if c.rule == 'statement']
    sid = str(NPOOL - 1)
    i = 0
    while i < len(st):
        if st[i] == sid:
            if i + 1 >= len(st) or st[i + 1] != 'c' + sid:
                return False
            i += 2
        elif st[i].startswith('c'):
            return False
        else:
            i += 1
    return True


def _fresh_nodes(self, defined_symbols, s, rvs, trans):
    """stand-in for CodeRecord._statement_to_nodes (which prints the statement and parses it with lark): one fresh
    opaque 'statement' node carrying the identity of the statement"""
    sid = POOL.index(s)
    if MULTI and sid == NPOOL - 1:
        return [_stmt_node([sid]), AttrTree('statement', (AttrToken('S', 'c%d\n' % sid),))]
    return [_stmt_node([sid])]


CRm.CodeRecord._statement_to_nodes = _fresh_nodes


def build_record(old_ids, gaps, merges):
    """Old record: statements POOL[old_ids]; consecutive statements i-1,i share one node when merges[i]; gaps[k]
    non-statement nodes before group k (and after the last).  -> record, non-statement nodes, group nodes"""
    groups = []
    for i, sid in enumerate(old_ids):
        if i > 0 and merges[i]:
            groups[-1].append(sid)
        else:
            groups.append([sid])
    children = []
    index = []
    blanks = []
    si = 0
    for k, g in enumerate(groups):
        for j in range(gaps[k]):
            b = AttrToken('NEWLINE' if j == 0 else 'WS', 'b%d.%d' % (k, j))
            children.append(b)
            blanks.append(b)
        if MULTI and g == [NPOOL - 1]:
            # a statement that occupies two nodes in the old record as well
            index.append((len(children), len(children) + 2, si, si + 1))
            children.append(_stmt_node(g))
            children.append(AttrTree('statement', (AttrToken('S', 'c%d\n' % g[0]),)))
        else:
            index.append((len(children), len(children) + 1, si, si + len(g)))
            children.append(_stmt_node(g))
        si += len(g)
    for j in range(gaps[len(groups)]):
        b = AttrToken('NEWLINE' if j == 0 else 'WS', 'b%d.%d' % (len(groups), j))
        children.append(b)
        blanks.append(b)
    root = AttrTree('root', tuple(children))
    rec = CRm.CodeRecord('PK', '$PK', root, index=index, statements=[POOL[i] for i in old_ids])
    return rec, blanks, groups


def check_updated(rec2, new_ids, blanks):
    kids = rec2.root.children
    if [c for c in kids if c.rule != 'statement'] != blanks:
        return False
    if not _continuations_ok(kids):
        return False
    ids = []
    for c in kids:
        if c.rule == 'statement':
            ids.extend(_node_ids(c))
    if ids != new_ids:
        return False
    # index: consecutive statement ranges, increasing disjoint node ranges, nodes carry exactly those statements
    pos_s = 0
    pos_n = 0
    covered = 0
    for ni, nj, si, sj in rec2._index:
        if si != pos_s or sj <= si or ni < pos_n or nj <= ni or nj > len(kids):
            return False
        got = []
        for c in kids[ni:nj]:
            if c.rule != 'statement':
                return False
            got.extend(_node_ids(c))
            covered += 1
        if got != new_ids[si:sj]:
            return False
        pos_s, pos_n = sj, nj
    if pos_s != len(new_ids):
        return False
    if covered != sum(1 for c in kids if c.rule == 'statement'):
        return False
    return rec2._statements == [POOL[i] for i in new_ids]


def _seq_pre(no, o0, o1, o2, nn, n0, n1, n2, g0, g1, g2, g3):
    if not (0 <= no <= SEQ_MAX and 0 <= nn <= SEQ_MAX):
        return False
    if OLD_N >= 0 and no != OLD_N:
        return False
    if NEW_N >= 0 and nn != NEW_N:
        return False
    if OLD_0 >= 0 and o0 != OLD_0:
        return False
    if NEW_0 >= 0 and n0 != NEW_0:
        return False
    for v in (o0, o1, o2, n0, n1, n2):
        if not 0 <= v < NPOOL:
            return False
    for g in (g0, g1, g2, g3):
        if not 0 <= g <= GAP_MAX:
            return False
    return True


def update_statements(no: int, o0: int, o1: int, o2: int, nn: int, n0: int, n1: int, n2: int,
                      g0: int, g1: int, g2: int, g3: int, m1: bool, m2: bool) -> bool:
    """
    One update_statements(new) on a record with `no` old statements (consecutive ones may share a node = block IF),
    0..GAP_MAX non-statement nodes in every gap: all non-statement nodes survive once and in order, the statement nodes spell
    `new`, the new index is consistent, unchanged input returns the record itself, and when old is a prefix of new
    every old statement node is kept.
    pre: _seq_pre(no, o0, o1, o2, nn, n0, n1, n2, g0, g1, g2, g3)
    post: _ == True
    """
    old_ids = [_c(v) for v in [o0, o1, o2][:_c(no)]]
    new_ids = [_c(v) for v in [n0, n1, n2][:_c(nn)]]
    merges = [False] + [bool(m) for m in [m1, m2][:max(0, len(old_ids) - 1)]] + [False, False]
    ngroups = len(old_ids) - sum(1 for m in merges[:len(old_ids)] if m)
    gaps = [_c(g) for g in [g0, g1, g2, g3][:ngroups + 1]] + [0, 0, 0, 0]
    rec, blanks, groups = build_record(old_ids, gaps, merges)
    rec2 = rec.update_statements([POOL[i] for i in new_ids])
    if new_ids == old_ids:
        return rec2 is rec
    if not check_updated(rec2, new_ids, blanks):
        return False
    if new_ids[:len(old_ids)] == old_ids:
        kept = [c for c in rec2.root.children if c.rule == 'statement']
        for g in groups:
            if _stmt_node(g) not in kept:
                return False
    return True


def update_twice(no: int, o0: int, o1: int, nn: int, n0: int, n1: int, n2: int, kk: int, k0: int, k1: int,
                 g0: int, g1: int, g2: int, m1: bool) -> bool:
    """
    Two updates in a row (the second one runs on the index produced by the first).
    pre: _seq_pre(no, o0, o1, 0, nn, n0, n1, n2, g0, g1, g2, 0) and 0 <= kk <= SEQ_MAX and 0 <= k0 < NPOOL
    pre: 0 <= k1 < NPOOL and no <= 2 and (FIN_N < 0 or kk == FIN_N)
    pre: not (MULTI and m1)
    post: _ == True
    """
    old_ids = [_c(v) for v in [o0, o1][:_c(no)]]
    new_ids = [_c(v) for v in [n0, n1, n2][:_c(nn)]]
    fin_ids = [_c(v) for v in [k0, k1, n2][:_c(kk)]]
    merges = [False] + [bool(m) for m in [m1][:max(0, len(old_ids) - 1)]] + [False, False]
    ngroups = len(old_ids) - sum(1 for m in merges[:len(old_ids)] if m)
    gaps = [_c(g) for g in [g0, g1, g2][:ngroups + 1]] + [0, 0, 0, 0]
    rec, blanks, groups = build_record(old_ids, gaps, merges)
    rec2 = rec.update_statements([POOL[i] for i in new_ids])
    rec3 = rec2.update_statements([POOL[i] for i in fin_ids])
    if fin_ids == new_ids:
        return rec3 is rec2
    return check_updated(rec3, fin_ids, blanks)


# warm-up outside tracing: pharmpy caches hashes on the statement objects (cache_method), which would otherwise make the
# first traced path differ from later ones
for _a in POOL:
    hash(_a)
    for _b in POOL:
        _a == _b
for _args in ((2, 0, 1, 0, 2, 1, 0, 0, 1, 1, 1, 0, True, False), (1, 2, 0, 0, 2, 2, 1, 0, 0, 2, 0, 0, False, False),
              (0, 0, 0, 0, 1, 3 % NPOOL, 0, 0, 0, 0, 0, 0, False, False)):
    update_statements(*_args)
update_twice(2, 0, 1, 2, 1, 0, 0, 2, 2, 1, 1, 1, 1, False)


def update_statements__twin(no: int, o0: int, o1: int, o2: int, nn: int, n0: int, n1: int, n2: int,
                            g0: int, g1: int, g2: int, g3: int, m1: bool, m2: bool) -> bool:
    """
    pre: _seq_pre(no, o0, o1, o2, nn, n0, n1, n2, g0, g1, g2, g3)
    pre: no == 2 and nn == 2 and o0 != n0 and g1 == 1
    post: _ == True
    """
    return not update_statements(no, o0, o1, o2, nn, n0, n1, n2, g0, g1, g2, g3, m1, m2)


def update_twice__twin(no: int, o0: int, o1: int, nn: int, n0: int, n1: int, n2: int, kk: int, k0: int, k1: int,
                       g0: int, g1: int, g2: int, m1: bool) -> bool:
    """
    pre: _seq_pre(no, o0, o1, 0, nn, n0, n1, n2, g0, g1, g2, 0) and 0 <= kk <= SEQ_MAX and 0 <= k0 < NPOOL
    pre: 0 <= k1 < NPOOL and no == 2 and nn == 2 and kk == 2 and k0 != n0 and (FIN_N < 0 or kk == FIN_N)
    pre: not (MULTI and m1)
    post: _ == True
    """
    return not update_twice(no, o0, o1, nn, n0, n1, n2, kk, k0, k1, g0, g1, g2, m1)


# --------------------------------------------------------------------------------------------------------------
# (5) AttrTree edit helpers: frame conditions over child tuples of <= 4 tokens

RULES = ['WS', 'A', 'B', 'NEWLINE']
KIDS_MAX = _env_int('VH_KIDSMAX', 4)


def _kids_pre(n, r0, r1, r2, r3, rule):
    if not 0 <= n <= KIDS_MAX or not 0 <= rule < len(RULES):
        return False
    for r in (r0, r1, r2, r3):
        if not 0 <= r < len(RULES):
            return False
    return True


def _tree(n, rs):
    kids = tuple(AttrToken(RULES[rs[i]], 'v%d' % i) for i in range(n))
    return AttrTree('root', kids), list(kids)


NEW1 = AttrToken('N1', 'n1')
NEW2 = AttrToken('N2', 'n2')


def helper_remove_token_and_space(n: int, r0: int, r1: int, r2: int, r3: int, rule: int) -> bool:
    """
    remove_token_and_space(tree, rule): "Remove all tokens with rule and any WS before it": no child of that rule is
    left, a WS directly before one is gone, every other non-WS child is kept in order, and a WS child that is not
    followed (through WS/removed children only) by a removed child is kept.
    pre: _kids_pre(n, r0, r1, r2, r3, rule) and rule != 0 and n >= 1
    post: _ == True
    """
    tree, kids = _tree(n, [r0, r1, r2, r3])
    name = RULES[rule]
    out = list(G.remove_token_and_space(tree, name).children)
    if any(c.rule == name for c in out):
        return False
    # subsequence of the original
    k = 0
    for c in out:
        while k < len(kids) and kids[k] != c:
            k += 1
        if k == len(kids):
            return False
        k += 1
    for i, c in enumerate(kids):
        if c.rule == name:
            continue
        if c.rule != 'WS':
            if c not in out:
                return False
            continue
        if i + 1 < len(kids) and kids[i + 1].rule == name:
            if c in out:
                return False
            continue
        j = i + 1
        threatened = False
        while j < len(kids) and (kids[j].rule == 'WS' or kids[j].rule == name):
            if kids[j].rule == name:
                threatened = True
            j += 1
        if not threatened and c not in out:
            return False
    return True


def helper_insert(n: int, r0: int, r1: int, r2: int, r3: int, rule: int, after: bool) -> bool:
    """
    insert_before_or_at_end / insert_after(tree, rule, nodes): with the inserted nodes taken out the children are
    unchanged; the nodes sit directly before (after) the first child of that rule, or at the end (nowhere) if there
    is none.
    pre: _kids_pre(n, r0, r1, r2, r3, rule)
    post: _ == True
    """
    tree, kids = _tree(n, [r0, r1, r2, r3])
    name = RULES[rule]
    new = [NEW1, NEW2]
    if after:
        out = list(G.insert_after(tree, name, new).children)
    else:
        out = list(G.insert_before_or_at_end(tree, name, new).children)
    if [c for c in out if c not in new] != kids:
        return False
    first = next((i for i, c in enumerate(kids) if c.rule == name), -1)
    if first == -1:
        return out == kids if after else out == kids + new
    p = out.index(kids[first])
    if after:
        return out[p + 1:p + 3] == new
    return p >= 2 and out[p - 2:p] == new


def helper_replace(n: int, r0: int, r1: int, r2: int, r3: int, rule: int, use_set: bool) -> bool:
    """
    replace_first(child) / set(rule, child): the first child of that rule is replaced, all others are untouched;
    none: replace_first returns the tree itself, set raises NoSuchRuleException.
    pre: _kids_pre(n, r0, r1, r2, r3, rule)
    post: _ == True
    """
    tree, kids = _tree(n, [r0, r1, r2, r3])
    name = RULES[rule]
    child = AttrToken(name, 'replacement')
    first = next((i for i, c in enumerate(kids) if c.rule == name), -1)
    try:
        out = tree.set(name, child) if use_set else tree.replace_first(child)
    except NoSuchRuleException:
        return use_set and first == -1
    if first == -1:
        return (not use_set) and out is tree
    return list(out.children) == kids[:first] + [child] + kids[first + 1:] and out.rule == tree.rule


def helper_partition(n: int, r0: int, r1: int, r2: int, r3: int, rule: int) -> bool:
    """
    partition(rule) -> (head, item, tail) whose concatenation is the children; item is the first child of that rule;
    remove(rule) drops exactly the children of that rule.
    pre: _kids_pre(n, r0, r1, r2, r3, rule)
    post: _ == True
    """
    tree, kids = _tree(n, [r0, r1, r2, r3])
    name = RULES[rule]
    head, item, tail = tree.partition(name)
    if list(head) + list(item) + list(tail) != kids:
        return False
    first = next((i for i, c in enumerate(kids) if c.rule == name), -1)
    if first == -1:
        if list(item) or list(tail):
            return False
    elif len(head) != first or list(item) != [kids[first]]:
        return False
    if list(tree.remove(name).children) != [c for c in kids if c.rule != name]:
        return False
    return str(tree) == ''.join(c.value for c in kids)


def helper_remove_token_and_space__twin(n: int, r0: int, r1: int, r2: int, r3: int, rule: int) -> bool:
    """
    pre: _kids_pre(n, r0, r1, r2, r3, rule) and rule != 0 and n >= 3 and r0 == 0 and r1 == rule
    post: _ == True
    """
    return not helper_remove_token_and_space(n, r0, r1, r2, r3, rule)


def helper_insert__twin(n: int, r0: int, r1: int, r2: int, r3: int, rule: int, after: bool) -> bool:
    """
    pre: _kids_pre(n, r0, r1, r2, r3, rule) and n >= 2 and r1 == rule
    post: _ == True
    """
    return not helper_insert(n, r0, r1, r2, r3, rule, after)


def helper_replace__twin(n: int, r0: int, r1: int, r2: int, r3: int, rule: int, use_set: bool) -> bool:
    """
    pre: _kids_pre(n, r0, r1, r2, r3, rule) and n >= 2 and r1 == rule
    post: _ == True
    """
    return not helper_replace(n, r0, r1, r2, r3, rule, use_set)


def helper_partition__twin(n: int, r0: int, r1: int, r2: int, r3: int, rule: int) -> bool:
    """
    pre: _kids_pre(n, r0, r1, r2, r3, rule) and n >= 2 and r1 == rule
    post: _ == True
    """
    return not helper_partition(n, r0, r1, r2, r3, rule)
