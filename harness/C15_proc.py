"""C15 — process-level lock, ref pool and composed path_lock: inductive steps / bounded histories over the REAL code
of pharmpy.internals.fs.lock with fcntl/os/threading replaced by contract models.

Kernel contract (POSIX fcntl record locks, whole file, two processes): per process a mode in {0 none, 1 SH, 2 EX};
EX excludes every lock of the other process, SH excludes the other's EX; a conflicting request blocks, or fails with
BlockingIOError(EAGAIN) under LOCK_NB; a request on an already held lock converts it; closing ANY fd of the file drops
the process's lock.
"""
import fcntl as _real_fcntl
import os
from collections import Counter

import pharmpy.internals.fs.lock as L

MAXC = int(os.environ.get('VH_MAXC', '2'))


class Blocked(BaseException):
    pass


class FakeMutex:
    """threading.Lock contract; `held_by_other`: a thread of this process is inside the critical section (it can
    only be blocked in lockf there)."""

    def __init__(self, held_by_other=False, on_release=None, on_gap=None):
        self.sections = 0               # critical sections completed in this step
        self.on_gap = on_gap            # rely: what other threads may have done between two critical sections
        self.held = held_by_other
        self.mine = False
        self.aborted = False
        self.blocking_acquires = 0
        self.on_release = on_release    # observer: called at the END of each critical section (state is published)
        self.bad = []

    def acquire(self, blocking=True):
        if not self.held:
            if self.sections and self.on_gap is not None:
                # the step left its critical section and enters another one: in between, any other thread may have
                # run complete critical sections of its own (rely condition of the atomic-section argument)
                self.on_gap()
            self.held = True
            self.mine = True
            return True
        if blocking:
            self.blocking_acquires += 1
            self.aborted = True
            raise Blocked()
        return False

    def release(self):
        if self.aborted:
            return
        if not self.mine:
            raise RuntimeError('release unlocked lock')
        self.held = False
        self.mine = False
        self.sections += 1
        if self.on_release is not None and not self.on_release():
            self.bad.append('invariant broken at the end of a critical section')

    def __enter__(self):
        self.acquire()

    def __exit__(self, *a):
        self.release()


class FakeFcntl:
    LOCK_SH = _real_fcntl.LOCK_SH
    LOCK_EX = _real_fcntl.LOCK_EX
    LOCK_NB = _real_fcntl.LOCK_NB
    LOCK_UN = _real_fcntl.LOCK_UN

    def __init__(self, km, ko, mutex=None):
        self.km = km
        self.ko = ko
        self.calls = []
        self.mutex = mutex

    def lockf(self, fd, op):
        self.calls.append(op)
        nb = bool(op & self.LOCK_NB)
        base = op & ~self.LOCK_NB
        if base == self.LOCK_UN:
            self.km = 0
            return
        if base == self.LOCK_SH:
            conflict = self.ko == 2
            new = 1
        elif base == self.LOCK_EX:
            conflict = self.ko != 0
            new = 2
        else:
            raise ValueError('bad lockf operation')
        if conflict:
            if nb:
                raise BlockingIOError(11, 'Resource temporarily unavailable')
            if self.mutex is not None:
                self.mutex.aborted = True   # the thread stays inside the critical section, blocked in the kernel
            raise Blocked()
        self.km = new


PCUR = int(os.environ.get('VH_CUR', '0'))
PSH = int(os.environ.get('VH_SH', '-1'))
PBLK = int(os.environ.get('VH_BLK', '-1'))


def _psplit(cur, shared, blocking=None):
    """Concrete case split pinned per process by the runner (acting thread and request flags); the lock/kernel state
    stays symbolic."""
    if not 1 <= cur <= 3:
        return False
    if PCUR and cur != PCUR:
        return False
    if PSH >= 0 and bool(PSH) != shared:
        return False
    if PBLK >= 0 and blocking is not None and bool(PBLK) != blocking:
        return False
    return True


def kernel_ok(km, ko):
    return 0 <= km <= 2 and 0 <= ko <= 2 and not (km == 2 and ko != 0) and not (ko == 2 and km != 0)


def pinv(s1, e1, s2, e2, s3, e3, km, ko):
    """Invariant P1 of ShareableProcessLock + kernel contract."""
    for x in (s1, e1, s2, e2, s3, e3):
        if not 0 <= x <= MAXC:
            return False
    if not kernel_ok(km, ko):
        return False
    anye = e1 + e2 + e3 > 0
    anys = s1 + s2 + s3 > 0
    want = 2 if anye else (1 if anys else 0)
    return km == want


def pbuild(cur, s1, e1, s2, e2, s3, e3, km, ko, mutex_taken=False):
    pl = L.ShareableProcessLock(7)
    pl._lock = FakeMutex(mutex_taken)
    sh, exc = Counter(), Counter()
    for t, s, e in ((1, s1, e1), (2, s2, e2), (3, s3, e3)):
        if s:
            sh[t] = s
        if e:
            exc[t] = e
    pl._shared_by = sh
    pl._exclusively_held_by = exc
    fk = FakeFcntl(km, ko, pl._lock)
    L.fcntl = fk
    L.get_ident = lambda: cur
    L.is_windows = False
    L.is_mac_os = False
    return pl, fk


def pstate_ok(pl, fk, counts):
    for t in (1, 2, 3):
        s, e = counts[t]
        if pl._shared_by.get(t, 0) != s or pl._exclusively_held_by.get(t, 0) != e:
            return False
        if t in pl._shared_by and pl._shared_by[t] == 0:
            return False
        if t in pl._exclusively_held_by and pl._exclusively_held_by[t] == 0:
            return False
    c = counts
    global MAXC
    saved = MAXC
    MAXC = saved + 1
    try:
        return pinv(c[1][0], c[1][1], c[2][0], c[2][1], c[3][0], c[3][1], fk.km, fk.ko)
    finally:
        MAXC = saved


def p_enter(cur: int, shared: bool, blocking: bool, reentrant: bool, mutex_taken: bool,
            s1: int, e1: int, s2: int, e2: int, s3: int, e3: int, km: int, ko: int) -> bool:
    """
    One process-level acquire step from any invariant state.
    pre: _psplit(cur, shared, blocking)
    pre: pinv(s1, e1, s2, e2, s3, e3, km, ko)
    post: _ == True
    """
    pl, fk = pbuild(cur, s1, e1, s2, e2, s3, e3, km, ko, mutex_taken)
    counts = {1: (s1, e1), 2: (s2, e2), 3: (s3, e3)}
    own = counts[cur][0] + counts[cur][1]
    anye = e1 + e2 + e3 > 0
    held = (s1 + s2 + s3 + e1 + e2 + e3) > 0
    # reference: which kernel request is needed and whether it conflicts with the other process
    if not held:
        need = 1 if shared else 2
    elif not shared and not anye:
        need = 2
    else:
        need = 0
    conflict = (need == 2 and ko != 0) or (need == 1 and ko == 2)
    cm = pl.lock(shared, blocking, reentrant)
    try:
        cm.__enter__()
    except Blocked:
        if not blocking:
            return False    # S3: a non-blocking request never reaches a blocking primitive
        if mutex_taken:
            return fk.calls == [] and pstate_ok(pl, fk, counts)
        if not reentrant and own:
            return False
        return conflict and pstate_ok(pl, fk, counts) and pl._lock.held
    except L.AcquiringProcessLevelLockWouldBlockError:
        if blocking:
            return False
        ok_reason = mutex_taken or (conflict and (reentrant or not own))
        nb_only = all(op & FakeFcntl.LOCK_NB for op in fk.calls)
        return ok_reason and nb_only and pstate_ok(pl, fk, counts) and pl._lock.held == mutex_taken
    except L.RecursiveDeadlockError:
        return (not reentrant) and own > 0 and not mutex_taken and fk.calls == [] \
            and pstate_ok(pl, fk, counts) and not pl._lock.held
    # completed
    if mutex_taken or conflict or (own and not reentrant):
        return False
    if not blocking and not all(op & FakeFcntl.LOCK_NB for op in fk.calls):
        return False
    s, e = counts[cur]
    counts[cur] = (s + 1, e) if shared else (s, e + 1)
    if pl._lock.held:
        return False
    # cross-process exclusion at the moment of the grant
    if not shared and not (fk.km == 2 and fk.ko == 0):
        return False
    if shared and not (fk.km >= 1 and fk.ko != 2):
        return False
    return pstate_ok(pl, fk, counts)


def p_exit(cur: int, shared: bool, mutex_taken: bool,
           s1: int, e1: int, s2: int, e2: int, s3: int, e3: int, km: int, ko: int) -> bool:
    """
    One process-level release step: unlock only when nobody of this process holds, downgrade only when the last
    exclusive holder leaves; never blocks on the kernel.
    pre: _psplit(cur, shared)
    pre: pinv(s1, e1, s2, e2, s3, e3, km, ko)
    pre: ((s1, s2, s3)[cur - 1] if shared else (e1, e2, e3)[cur - 1]) >= 1
    post: _ == True
    """
    scratch = L.ShareableProcessLock(7)
    scratch._lock = FakeMutex(False)
    L.fcntl = FakeFcntl(0, 0)
    L.get_ident = lambda: cur
    L.is_windows = False
    cm = scratch.lock(shared, True, True)
    cm.__enter__()
    pl, fk = pbuild(cur, s1, e1, s2, e2, s3, e3, km, ko, mutex_taken)
    scratch._lock = pl._lock
    scratch._shared_by = pl._shared_by
    scratch._exclusively_held_by = pl._exclusively_held_by
    counts = {1: (s1, e1), 2: (s2, e2), 3: (s3, e3)}
    try:
        cm.__exit__(None, None, None)
    except Blocked:
        return mutex_taken and fk.calls == [] and pstate_ok(scratch, fk, counts)
    if mutex_taken:
        return False
    s, e = counts[cur]
    counts[cur] = (s - 1, e) if shared else (s, e - 1)
    return (not scratch._lock.held) and pstate_ok(scratch, fk, counts)


def p_enter__twin(cur: int, shared: bool, blocking: bool, reentrant: bool, mutex_taken: bool,
                  s1: int, e1: int, s2: int, e2: int, s3: int, e3: int, km: int, ko: int) -> bool:
    """
    pre: _psplit(cur, shared, blocking)
    pre: pinv(s1, e1, s2, e2, s3, e3, km, ko)
    post: _ == True
    """
    return not p_enter(cur, shared, blocking, reentrant, mutex_taken, s1, e1, s2, e2, s3, e3, km, ko)


def p_exit__twin(cur: int, shared: bool, mutex_taken: bool,
                 s1: int, e1: int, s2: int, e2: int, s3: int, e3: int, km: int, ko: int) -> bool:
    """
    pre: _psplit(cur, shared)
    pre: pinv(s1, e1, s2, e2, s3, e3, km, ko)
    pre: ((s1, s2, s3)[cur - 1] if shared else (e1, e2, e3)[cur - 1]) >= 1
    post: _ == True
    """
    return not p_exit(cur, shared, mutex_taken, s1, e1, s2, e2, s3, e3, km, ko)


# ---------------------------------------------------------------------------------------------------------
# R1: ThreadSafeKeyedRefPool

def pool_enter(has: bool, rc: int, other: bool, race: bool = False) -> bool:
    """
    pre: 1 <= rc <= 3
    post: _ == True
    """
    made, destroyed = [], []
    refs = {}
    if has:
        refs['k'] = ('OBJ', rc)
    if other:
        refs['o'] = ('OTHER', 1)
    live = [o for o, _ in refs.values()]
    rival = []

    def gap():
        # rely: if the step is split into several critical sections, a rival thread may complete its own request for
        # the same key in between (it finds no entry, creates its object, becomes a user of it)
        if race and not rival:
            rival.append(1)
            e = refs.get('k')
            if e is None:
                refs['k'] = ('RIVAL', 1)
                live.append('RIVAL')
            else:
                refs['k'] = (e[0], e[1] + 1)

    def factory(k):
        made.append(k)
        live.append(('NEW', k))
        return ('NEW', k)

    def destroy(o):
        destroyed.append(o)
        live.remove(o)
    # the invariant is demanded at the end of the LAST critical section of the step (a step made of several sections
    # may publish intermediate states; what it may not do is destroy an object while the key has users)
    mutex = FakeMutex(on_release=lambda: sorted(map(str, live)) == sorted(str(o) for o, _ in refs.values()), on_gap=gap)
    pool = L.ThreadSafeKeyedRefPool(mutex, refs, factory, destroy)
    cm = pool('k')
    obj = cm.__enter__()
    if destroyed or mutex.bad:
        # R1: an object of a key is destroyed only when its last user leaves; here the key has at least one user
        # (for the fd pool: closing ANY descriptor of the file drops the process's kernel lock)
        return False
    if sorted(map(str, live)) != sorted(str(o) for o, _ in refs.values()):
        return False
    if other and refs.get('o') != ('OTHER', 1):
        return False
    if pool._lock.held:
        return False
    if rival:
        # the rival's reference is still counted and both users got the object of the pool entry
        return refs['k'][1] == (rc + 2 if has else 2) and obj == refs['k'][0]
    if has:
        return made == [] and obj == 'OBJ' and refs['k'] == ('OBJ', rc + 1)
    return made == ['k'] and obj == ('NEW', 'k') and refs['k'] == (obj, 1)


def pool_exit(rc: int, other: bool) -> bool:
    """
    pre: 1 <= rc <= 3
    post: _ == True
    """
    made, destroyed = [], []
    refs = {}
    live = []

    def factory(k):
        made.append(k)
        live.append(('NEW', k))
        return ('NEW', k)

    def destroy(o):
        destroyed.append(o)
        live.remove(o)
    # R1 as an invariant published at the end of every critical section: the live objects (open fds) are exactly
    # the objects in the pool -- so removal from the pool and destruction are one atomic step
    mutex = FakeMutex(on_release=lambda: sorted(map(str, live)) == sorted(str(o) for o, _ in refs.values()))
    pool = L.ThreadSafeKeyedRefPool(mutex, refs, factory, destroy)
    cm = pool('k')
    obj = cm.__enter__()
    refs['k'] = (obj, rc)       # arbitrary number of current users
    if other:
        refs['o'] = ('OTHER', 1)
        live.append('OTHER')
    made.clear()
    cm.__exit__(None, None, None)
    if made or pool._lock.held or mutex.bad:
        return False
    if other and refs.get('o') != ('OTHER', 1):
        return False
    if rc == 1:
        return 'k' not in refs and destroyed == [obj]
    return refs['k'] == (obj, rc - 1) and destroyed == []


def pool_enter__twin(has: bool, rc: int, other: bool, race: bool = False) -> bool:
    """
    pre: 1 <= rc <= 3
    post: _ == True
    """
    return not pool_enter(has, rc, other, race)


def pool_exit__twin(rc: int, other: bool) -> bool:
    """
    pre: 1 <= rc <= 3
    post: _ == True
    """
    return not pool_exit(rc, other)


# ---------------------------------------------------------------------------------------------------------
# composed path_lock: bounded histories of one process (threads 1 and 2) over the contract environment

class FakeOs:
    O_RDWR = os.O_RDWR
    name = 'posix'

    class path:
        normpath = staticmethod(os.path.normpath)

    def __init__(self, fk):
        self.open_fds = []
        self.closed = []
        self.fk = fk
        self.next = 10

    def open(self, path, flags):
        self.next += 1
        self.open_fds.append(self.next)
        return self.next

    def close(self, fd):
        self.closed.append(fd)
        self.open_fds.remove(fd)
        self.fk.km = 0      # POSIX: closing any fd of the file drops the process's lock


def _fresh_env(ko):
    fk = FakeFcntl(0, ko)
    fos = FakeOs(fk)
    L.fcntl = fk
    L.os = fos
    L.is_windows = False
    L.is_mac_os = False
    ident = [1]
    L.get_ident = lambda: ident[0]

    class CondFactory:
        pass
    import C15_locks as TL
    L._thread_level_lock_ref = L.ThreadSafeKeyedRefPool(FakeMutex(), {}, lambda _k: _mk_tl(TL, ident))
    L._process_level_lock_ref = L.ThreadSafeKeyedRefPool(FakeMutex(), {}, lambda fd: _mk_pl(fd, fk))
    fdrefs = {}
    fdm = FakeMutex(on_release=lambda: sorted(fos.open_fds) == sorted(o for o, _ in fdrefs.values()))
    L._fd_ref = L.ThreadSafeKeyedRefPool(fdm, fdrefs, lambda p: fos.open(p, fos.O_RDWR), lambda fd: fos.close(fd))
    fos.fd_mutex = fdm
    return fk, fos, ident


class _Cond:
    """RLock+Condition contract for multi-step histories (no waiting threads are modelled: a step that would wait
    raises Blocked and the history ends there)."""

    def __init__(self, ident):
        self.ident = ident
        self.owner = None
        self.depth = 0
        self.notifications = 0
        self.aborted = False

    def acquire(self, blocking=True):
        cur = self.ident[0]
        if self.owner is None or self.owner == cur:
            self.owner = cur
            self.depth += 1
            return True
        if blocking:
            self.aborted = True
            raise Blocked()
        return False

    def release(self):
        if self.aborted:
            return
        if self.owner != self.ident[0]:
            raise RuntimeError('release of un-acquired lock')
        self.depth -= 1
        if self.depth == 0:
            self.owner = None

    def wait(self):
        self.aborted = True
        raise Blocked()

    def notify_all(self):
        self.notifications += 1


def _mk_tl(TL, ident):
    tl = L.ShareableThreadLock()
    tl._condition = _Cond(ident)
    return tl


def _mk_pl(fd, fk):
    pl = L.ShareableProcessLock(fd)
    pl._lock = FakeMutex()
    fk.mutex = pl._lock
    return pl


def _quiescent(fk, fos):
    return (not fos.fd_mutex.bad and L._thread_level_lock_ref._refs == {} and L._process_level_lock_ref._refs == {} and L._fd_ref._refs == {}
            and fos.open_fds == [] and fk.km == 0)


def path_two(ko: int, sh1: bool, bl1: bool, re1: bool, t2: int, sh2: bool, bl2: bool, re2: bool) -> bool:
    """
    History: thread 1 locks the path with arbitrary flags; while it holds, thread t2 (1 = the same thread, nested;
    2 = another thread) requests the same path with arbitrary flags; everything is released.  Other process holds
    mode ko throughout.  Checks the reader-writer specification of each grant/refusal, that a refusal rolls back
    every level, that the fd is opened once and closed exactly when the last user leaves with all bookkeeping empty.
    pre: 0 <= ko <= 2 and 1 <= t2 <= 2
    post: _ == True
    """
    fk, fos, ident = _fresh_env(ko)
    ident[0] = 1
    cm1 = L.path_lock('/x/../x/f', sh1, bl1, re1)
    conflict1 = (ko == 2) or (ko == 1 and not sh1)
    try:
        fd1 = cm1.__enter__()
    except Blocked:
        return bl1 and conflict1
    except L.AcquiringProcessLevelLockWouldBlockError:
        return (not bl1) and conflict1 and _quiescent(fk, fos)
    if conflict1:
        return False
    if fos.open_fds != [fd1] or fk.km != (1 if sh1 else 2):
        return False
    # second request
    ident[0] = t2
    cm2 = L.path_lock('/x/f', sh2, bl2, re2)
    same = t2 == 1
    # reference reader-writer + reentrancy specification
    if same:
        expect = 'grant' if re2 else 'recursive'
        if re2 and not sh2 and ko != 0:
            expect = 'wait'      # upgrade of the kernel lock conflicts with the other process
    else:
        if (not sh1) or (not sh2):
            expect = 'wait'
        else:
            expect = 'grant'
    got = None
    try:
        fd2 = cm2.__enter__()
        got = 'grant'
    except Blocked:
        got = 'blocked'
    except L.AcquiringLockWouldBlockError:
        got = 'wouldblock'
    except L.RecursiveDeadlockError:
        got = 'recursive'
    if expect == 'grant':
        if got != 'grant' or fd2 != fd1 or fos.open_fds != [fd1]:
            return False
        want_km = 2 if (not sh1 or not sh2) else 1
        if fk.km != want_km:
            return False
        cm2.__exit__(None, None, None)
    elif expect == 'recursive':
        if got != 'recursive':
            return False
    else:
        if got != ('blocked' if bl2 else 'wouldblock'):
            return False
        if got == 'blocked':
            return True     # history ends: thread is waiting, thread 1 still holds
    # after the second request finished or was refused, thread 1's hold must be intact
    if fos.fd_mutex.bad:
        return False
    if fos.open_fds != [fd1] or fos.closed != [] or fk.km != (1 if sh1 else 2):
        return False
    tl = L._thread_level_lock_ref._refs.get('/x/f')
    if tl is None or tl[1] != 1 or dict(tl[0]._acquired_by) != {1: 1}:
        return False
    ident[0] = 1
    cm1.__exit__(None, None, None)
    return _quiescent(fk, fos) and fos.closed == [fd1]


def path_two__twin(ko: int, sh1: bool, bl1: bool, re1: bool, t2: int, sh2: bool, bl2: bool, re2: bool) -> bool:
    """
    pre: 0 <= ko <= 2 and 1 <= t2 <= 2
    pre: ko == 0
    post: _ == True
    """
    return not path_two(ko, sh1, bl1, re1, t2, sh2, bl2, re2)
