"""C18 (a) — ModelFeatures algebra vs plain set operations on the explicitly expanded option sets.

Operands are built directly from the real feature classes; which options a statement holds is chosen by symbolic small
ints indexing concrete tables (each value = one solver-decided path); transit / peripheral counts are symbolic ints.
The real `ModelFeatures.__add__/__sub__/__eq__/contain_subset/least_number_of_transformations` run on them and the
result is expanded by reading its fields (wildcards expanded from the documented option lists) and compared with
union / difference(+category default when empty) / equality / inclusion / disjointness of the operand expansions.

Env pins (one process per case):  VH_FAM  family of operands (modes|transits|periph|cov|pair|indirect)
                                  VH_CAT  category for the `modes` family
                                  VH_OP   add|sub|eq|contain|lnt
                                  VH_REGION  main | <finding slug>  (a finding region is the exact complement of the
                                             exclusion made by the main obligation of the same family/op)
"""
import itertools
import os
import warnings

warnings.simplefilter('ignore')

try:    # CrossHair's optional "short-circuiting" replaces calls to contract-carrying callees (its own hash() wrapper) by
    # fresh symbols on a random 30% of the paths; a symbolic hash of a concrete dataclass is then rejected by native
    # dicts/sets ("proxy intolerance" -> path UNKNOWN). Always executing the callee is the sound, exact alternative.
    import crosshair.core as _cc
    _cc.consider_shortcircuit = lambda *a, **k: None
    from crosshair.tracers import NoTracing as _NoTracing
except ImportError:
    import contextlib
    _NoTracing = contextlib.nullcontext


def _pick(x, lo, hi):
    """Fix a table index lo <= x < hi on this path by bisection (log2(hi-lo) solver-decided branches); the result is
    a native int, so everything computed from it afterwards is concrete."""
    while hi - lo > 1:
        mid = (lo + hi) // 2
        if x < mid:
            hi = mid
        else:
            lo = mid
    return lo


from pharmpy.tools.mfl.parse import ModelFeatures  # noqa: E402
from pharmpy.tools.mfl.statement.feature.absorption import Absorption  # noqa: E402
from pharmpy.tools.mfl.statement.feature.covariate import Covariate  # noqa: E402
from pharmpy.tools.mfl.statement.feature.direct_effect import DirectEffect  # noqa: E402
from pharmpy.tools.mfl.statement.feature.effect_comp import EffectComp  # noqa: E402
from pharmpy.tools.mfl.statement.feature.elimination import Elimination  # noqa: E402
from pharmpy.tools.mfl.statement.feature.indirect_effect import IndirectEffect  # noqa: E402
from pharmpy.tools.mfl.statement.feature.lagtime import LagTime  # noqa: E402
from pharmpy.tools.mfl.statement.feature.metabolite import Metabolite  # noqa: E402
from pharmpy.tools.mfl.statement.feature.peripherals import Peripherals  # noqa: E402
from pharmpy.tools.mfl.statement.feature.symbols import Name, Option, Wildcard  # noqa: E402
from pharmpy.tools.mfl.statement.feature.transits import Transits  # noqa: E402

FAM = os.environ.get('VH_FAM', 'modes')
CAT = os.environ.get('VH_CAT', 'absorption')
OP = os.environ.get('VH_OP', 'all')
REGION = os.environ.get('VH_REGION', 'main')
MAXC = int(os.environ.get('VH_MAXC', '2'))      # largest transit / peripheral count
NST = int(os.environ.get('VH_NST', '2'))        # statements per transit / peripheral operand (1..NST)
SWAP = os.environ.get('VH_SWAP', '0') == '1'   # the multi-statement operand is the right-hand one
P1LO = int(os.environ.get('VH_P1LO', '0'))         # optional case split on the first table index of a family
P1HI = int(os.environ.get('VH_P1HI', '1000000'))
SIZE = os.environ.get('VH_SIZE', 'quick')      # quick: smaller covariate / pair tables (see checks/C18.py bounds)

# ---- documented option lists (docs/mfl.rst, grammar.py); independent of the *_WILDCARD tuples of pharmpy ------------
MODES = dict(absorption=('FO', 'ZO', 'SEQ-ZO-FO', 'INST'), elimination=('FO', 'ZO', 'MM', 'MIX-FO-MM'),
             lagtime=('ON', 'OFF'), direct_effect=('LINEAR', 'EMAX', 'SIGMOID'),
             effect_comp=('LINEAR', 'EMAX', 'SIGMOID'), metabolite=('PSC', 'BASIC'))
CLS = dict(absorption=Absorption, elimination=Elimination, lagtime=LagTime, direct_effect=DirectEffect,
           effect_comp=EffectComp, metabolite=Metabolite)
DEPOTS = ('DEPOT', 'NODEPOT')
PMODES = ('DRUG', 'MET')
IE_MODES = ('LINEAR', 'EMAX', 'SIGMOID')
IE_PROD = ('DEGRADATION', 'PRODUCTION')
FPS = ('LIN', 'PIECE_LIN', 'EXP', 'POW')      # expansion of the covariate effect wildcard (Covariate.eval)
# category defaults restored by an empty difference (Absorption/Elimination/LagTime/Transits/Peripherals.__sub__,
# ModelFeatures.create)
DEFAULT = {'absorption': {'INST'}, 'elimination': {'FO'}, 'lagtime': {'OFF'}, 'transits': {(0, 'DEPOT')},
           'peripherals:DRUG': {0}}
PK_CATS = ('absorption', 'elimination', 'lagtime', 'transits', 'peripherals:DRUG')
KEYCAT = {'ABSORPTION': 'absorption', 'ELIMINATION': 'elimination', 'LAGTIME': 'lagtime', 'DIRECT': 'direct_effect',
          'EFFECTCOMP': 'effect_comp', 'METABOLITE': 'metabolite', 'TRANSITS': 'transits', 'INDIRECT': 'indirect_effect'}


def _nes(xs):
    out = []
    for r in range(1, len(xs) + 1):
        out += list(itertools.combinations(xs, r))
    return out


def _names(t):
    return tuple(Name(x) for x in t)


# concrete tables indexed by the symbolic codes; the wildcard is always the LAST entry
MODE_T = {c: [CLS[c](_names(s)) for s in _nes(MODES[c])] + [CLS[c](Wildcard())] for c in MODES}
DEPOT_T = [_names(s) for s in _nes(DEPOTS)] + [Wildcard()]
PMODE_T = [_names(s) for s in _nes(PMODES)] + [Wildcard()]
IEM_T = [_names(s) for s in _nes(IE_MODES)] + [Wildcard()]
IEP_T = [_names(s) for s in _nes(IE_PROD)] + [Wildcard()]
COVP_T = _nes(('CL', 'V'))
COVC_T = _nes(('WGT', 'AGE')) if SIZE == 'thorough' else [('WGT',), ('WGT', 'AGE')]
COVF_T = (_nes(('EXP', 'LIN')) if SIZE == 'thorough' else [('EXP',), ('EXP', 'LIN')]) + [Wildcard()]
COUNT_T = _nes(tuple(range(MAXC + 1)))     # non-empty count lists over 0..MAXC, ascending
NK = len(COUNT_T)
NM = len(MODE_T[CAT]) if CAT in MODE_T else 0
ND = len(DEPOT_T)
NP = len(PMODE_T)


# ---- reference expansion: read the fields, expand wildcards from the documented lists --------------------------------
def _modeset(m, universe):
    if isinstance(m, Wildcard):
        return set(universe)
    return {n.name for n in m}     # raises when a feature holds a malformed (non-tuple) option field


def expand(mf):
    d = {}
    for cat in MODES:
        f = getattr(mf, cat)
        d[cat] = set() if f is None else _modeset(f.modes, MODES[cat])
    tr = set()
    for t in mf.transits:
        for dn in _modeset(t.depot, DEPOTS):
            for c in t.counts:
                tr.add((c, dn))
    d['transits'] = tr
    d['peripherals:DRUG'] = set()
    d['peripherals:MET'] = set()
    for p in mf.peripherals:
        for mn in _modeset(p.modes, PMODES):
            for c in p.counts:
                d['peripherals:' + mn].add(c)
    ie = set()
    for i in mf.indirect_effect:
        for mn in _modeset(i.modes, IE_MODES):
            for pn in _modeset(i.production, IE_PROD):
                ie.add((mn, pn))
    d['indirect_effect'] = ie
    cov = {}
    for c in mf.covariate:
        fps = FPS if isinstance(c.fp, Wildcard) else c.fp
        for par in c.parameter:
            for co in c.covariate:
                for fp in fps:
                    k = (par, co, fp, c.op)
                    st = 2 if c.optional.option else 1      # 1 = forced {present}, 2 = optional {absent, present}
                    if cov.get(k, 0) < st:
                        cov[k] = st
    d['covariate'] = cov
    return d


def _is_pk(e):
    return any(e[c] for c in PK_CATS) or bool(e['peripherals:MET']) or bool(e['metabolite'])


def _check_add(a, b, A, B):
    R = expand(a + b)
    for cat in A:
        if cat == 'covariate':
            want = {k: max(A[cat].get(k, 0), B[cat].get(k, 0)) for k in set(A[cat]) | set(B[cat])}
        else:
            want = A[cat] | B[cat]
        if R[cat] != want:
            return False
    return True


def _check_sub(a, b, A, B):
    R = expand(a - b)
    raw = {}
    for cat in A:
        if cat == 'covariate':
            raw[cat] = {k: v for k, v in A[cat].items() if k not in B[cat]}
        else:
            raw[cat] = A[cat] - B[cat]
    pk_all_empty = not any(raw[c] for c in PK_CATS) and not raw['peripherals:MET'] and not raw['metabolite']
    if pk_all_empty and not _is_pk(R):
        # A - A: the empty space (no pharmacokinetic statement at all) is the plain set difference
        return all(R[cat] == raw[cat] for cat in A if cat not in PK_CATS)
    for cat in A:
        want = raw[cat]
        if not want and cat in DEFAULT and _is_pk(R):
            want = DEFAULT[cat]
            if cat == 'peripherals:DRUG' and R['peripherals:MET'] and not R[cat]:
                continue    # only metabolite peripherals left: no drug default is added (not demanded either way)
        if R[cat] != want:
            return False
    return True


def _check_eq(a, b, A, B, cats):
    return bool(a == b) == all(A[c] == B[c] for c in cats)


def _check_contain(a, b, A, B, tool):
    return bool(a.contain_subset(b, tool=tool)) == all(B[c] <= A[c] for c in PK_CATS)


def _check_lnt(a, b, A, B):
    lnt = a.least_number_of_transformations(b)
    got = {}
    for key, fn in lnt.items():
        if not callable(fn):
            return False
        kind = key[0]
        if kind == 'PERIPHERALS':
            cat = 'peripherals:MET' if len(key) == 3 else 'peripherals:DRUG'
            val = key[1]
        elif kind in ('TRANSITS', 'INDIRECT'):
            cat = KEYCAT[kind]
            val = (key[1], key[2])
        elif kind in KEYCAT:
            cat = KEYCAT[kind]
            val = key[1]
        else:
            return False
        got.setdefault(cat, []).append(val)
    for cat in A:
        if cat == 'covariate' or not A[cat] or not B[cat]:
            continue
        vals = got.get(cat, [])
        if A[cat] & B[cat]:
            if vals:
                return False      # already part of other: no transformation in this category
        else:
            if len(vals) != 1 or vals[0] not in B[cat]:
                return False      # exactly one transformation, to an option of other
    return True


OPS = ('add', 'sub', 'eq', 'contain', 'lnt')


def _ops(region_of, skip=()):
    """Operations whose region for this operand pair is the one this process is pinned to."""
    ops = OPS if OP == 'all' else (OP,)
    return [op for op in ops if op not in skip and region_of(op) == REGION]


def _check(ops, a, b, eq_cats=None, tool=None):
    """Run every selected operation; an AssertionError names the first operation that disagrees."""
    A, B = expand(a), expand(b)
    for op in ops:
        if op == 'add':
            ok = _check_add(a, b, A, B)
        elif op == 'sub':
            ok = _check_sub(a, b, A, B)
        elif op == 'eq':
            ok = _check_eq(a, b, A, B, eq_cats if eq_cats is not None else list(A))
        elif op == 'contain':
            ok = _check_contain(a, b, A, B, tool)
        else:
            ok = _check_lnt(a, b, A, B)
        if not ok:
            raise AssertionError(f'{op} disagrees with the set reference')
    return True


# Every family below has the same shape: the parameters are table indexes; `_pick` fixes them (one path per value, the
# bounds in `pre:` are what z3 enumerates), the operands are then concrete objects and the real pharmpy operation plus
# the reference comparison run with opcode tracing suspended (same result as traced execution on concrete data).
def _run(body, *ranged):
    codes = [_pick(v, lo, hi) for v, lo, hi in ranged]
    with _NoTracing():
        return body(*codes)


# ---- family: one mode-list category -----------------------------------------------------------------------------------
_PKM = ('absorption', 'elimination', 'lagtime')
_SUB = {c: _nes(MODES[c]) for c in MODES}


def _region_modes(op, x, y):
    """Name of the region the operand pair lies in: 'main' or the slug of the finding that owns it."""
    wild = x == NM - 1 or y == NM - 1
    A = set(MODES[CAT]) if x == NM - 1 else set(_SUB[CAT][x])
    B = set(MODES[CAT]) if y == NM - 1 else set(_SUB[CAT][y])
    if CAT in _PKM and op in ('sub', 'eq') and wild:
        return 'wildcard_sub_eq'      # Absorption/Elimination/LagTime.__eq__ iterate `modes` of a wildcard
    if CAT == 'metabolite':
        if op == 'eq':
            return 'main' if A == B else 'eq_ignores_metabolite'      # __eq__ never compares metabolite
        if op == 'sub' and wild:
            return 'wildcard_sub_eq'
    if CAT in ('direct_effect', 'effect_comp', 'metabolite') and op == 'sub':
        if A < B and y != NM - 1:
            return 'pd_sub_empty'     # builds DirectEffect/EffectComp/Metabolite(modes=None)
    return 'main'


def _body_modes(x, y):
    ops = _ops(lambda op: _region_modes(op, x, y), skip=() if CAT in _PKM else ('contain',))
    if not ops:
        return None
    a = ModelFeatures.create(**{CAT: MODE_T[CAT][x]})
    b = ModelFeatures.create(**{CAT: MODE_T[CAT][y]})
    return _check(ops, a, b)


def alg_modes(x: int, y: int) -> bool:
    """
    pre: 0 <= x < NM and 0 <= y < NM
    post: _ in (True, None)
    """
    return _run(_body_modes, (x, 0, NM), (y, 0, NM))


def alg_modes__twin(x: int, y: int) -> bool:
    """
    pre: 0 <= x < NM and 0 <= y < NM
    post: _ == True
    """
    return _run(_body_modes, (x, 0, NM), (y, 0, NM)) is not True


# ---- families: transits / peripherals (1..2 statements on one side, 1 on the other; counts from COUNT_T) ---------------
def _mk_counted(cls, key, opt_t, k1, o1, k2, o2):
    st = (cls(COUNT_T[k1], opt_t[o1]),)
    if k2 >= 0:
        st += (cls(COUNT_T[k2], opt_t[o2]),)
    return ModelFeatures.create(**{key: st})


def _region_transits(op, a, b):
    if op != 'contain':
        return 'main'
    A, B = expand(a)['transits'], expand(b)['transits']
    if {c for c, _ in B} <= {c for c, _ in A} and {d for _, d in B} <= {d for _, d in A} and not B <= A:
        return 'contain_transits_cross'   # counts and depots are compared separately (FIXME in _subset_transits)
    return 'main'


def _body_transits(k1, d1, k2, d2, l1, f1):
    a = _mk_counted(Transits, 'transits', DEPOT_T, k1, d1, k2, d2)
    b = _mk_counted(Transits, 'transits', DEPOT_T, l1, f1, -1, 0)
    if SWAP:
        a, b = b, a
    ops = _ops(lambda op: _region_transits(op, a, b))
    if not ops:
        return None
    return _check(ops, a, b)


def alg_transits(k1: int, d1: int, k2: int, d2: int, l1: int, f1: int) -> bool:
    """
    pre: max(0, P1LO) <= k1 < min(NK, P1HI) and 0 <= l1 < NK and -1 <= k2 < NK and (NST >= 2 or k2 == -1)
    pre: 0 <= d1 < ND and 0 <= d2 < ND and 0 <= f1 < ND and (k2 >= 0 or d2 == 0)
    post: _ in (True, None)
    """
    return _run(_body_transits, (k1, max(0, P1LO), min(NK, P1HI)), (d1, 0, ND), (k2, -1, NK), (d2, 0, ND), (l1, 0, NK), (f1, 0, ND))


def alg_transits__twin(k1: int, d1: int, k2: int, d2: int, l1: int, f1: int) -> bool:
    """
    pre: max(0, P1LO) <= k1 < min(NK, P1HI) and 0 <= l1 < NK and -1 <= k2 < NK and (NST >= 2 or k2 == -1)
    pre: 0 <= d1 < ND and 0 <= d2 < ND and 0 <= f1 < ND and (k2 >= 0 or d2 == 0)
    post: _ == True
    """
    return _run(_body_transits, (k1, max(0, P1LO), min(NK, P1HI)), (d1, 0, ND), (k2, -1, NK), (d2, 0, ND), (l1, 0, NK), (f1, 0, ND)) is not True


def _region_periph(op, m1, k2, m2, n1, a, b):
    if m1 == NP - 1 or n1 == NP - 1 or (k2 >= 0 and m2 == NP - 1):
        return 'periph_wildcard'     # PERIPHERALS(n,*) makes every operation raise TypeError
    if op == 'eq' and k2 >= 0:
        A, B = expand(a), expand(b)
        if all(A[k] == B[k] for k in ('peripherals:DRUG', 'peripherals:MET')):
            return 'eq_statement_shape'  # tuple-of-statements comparison depends on how the statements are split
    if op == 'contain' and (m1 != 0 or n1 != 0 or (k2 >= 0 and m2 != 0)):
        return 'outside'             # contain_subset looks at DRUG peripherals only (tool modelsearch): not claimed
    return 'main'


def _body_periph(k1, m1, k2, m2, l1, n1):
    a = _mk_counted(Peripherals, 'peripherals', PMODE_T, k1, m1, k2, m2)
    b = _mk_counted(Peripherals, 'peripherals', PMODE_T, l1, n1, -1, 0)
    if SWAP:
        a, b = b, a
    ops = _ops(lambda op: _region_periph(op, m1, k2, m2, n1, a, b))
    if not ops:
        return None
    return _check(ops, a, b, tool='modelsearch')


def alg_periph(k1: int, m1: int, k2: int, m2: int, l1: int, n1: int) -> bool:
    """
    pre: max(0, P1LO) <= k1 < min(NK, P1HI) and 0 <= l1 < NK and -1 <= k2 < NK and (NST >= 2 or k2 == -1)
    pre: 0 <= m1 < NP and 0 <= m2 < NP and 0 <= n1 < NP and (k2 >= 0 or m2 == 0)
    post: _ in (True, None)
    """
    return _run(_body_periph, (k1, max(0, P1LO), min(NK, P1HI)), (m1, 0, NP), (k2, -1, NK), (m2, 0, NP), (l1, 0, NK), (n1, 0, NP))


def alg_periph__twin(k1: int, m1: int, k2: int, m2: int, l1: int, n1: int) -> bool:
    """
    pre: max(0, P1LO) <= k1 < min(NK, P1HI) and 0 <= l1 < NK and -1 <= k2 < NK and (NST >= 2 or k2 == -1)
    pre: 0 <= m1 < NP and 0 <= m2 < NP and 0 <= n1 < NP and (k2 >= 0 or m2 == 0)
    post: _ == True
    """
    return _run(_body_periph, (k1, max(0, P1LO), min(NK, P1HI)), (m1, 0, NP), (k2, -1, NK), (m2, 0, NP), (l1, 0, NK), (n1, 0, NP)) is not True


# ---- family: covariates (explicit effects; optional '?' and forced; wildcard effect list; '*' and '+') -----------------
# statement code s in [0, NCOV): parameter subset x covariate subset x effect list (incl. *) x operator x optional
NCOV = len(COVP_T) * len(COVC_T) * len(COVF_T) * 2 * 2


def _mk_cov(s):
    s, opt = divmod(s, 2)
    s, plus = divmod(s, 2)
    s, f = divmod(s, len(COVF_T))
    p, c = divmod(s, len(COVC_T))
    return Covariate(COVP_T[p], COVC_T[c], COVF_T[f], '+' if plus else '*', Option(bool(opt)))


def _region_cov(op, a, b):
    if op != 'eq':
        return 'main'
    A, B = expand(a)['covariate'], expand(b)['covariate']
    if all(k in B and B[k] == v for k, v in A.items()) and A != B:
        return 'eq_cov_one_directional'   # ModelFeatures._eq_covariate only checks lhs effects against rhs
    return 'main'


def _cov_keys(c):
    fps = FPS if isinstance(c.fp, Wildcard) else c.fp
    return {(par, co, fp, c.op): (2 if c.optional.option else 1) for par in c.parameter for co in c.covariate for fp in fps}


def _body_cov(s1, s2, t1):
    st = (_mk_cov(s1),) + ((_mk_cov(s2),) if s2 >= 0 else ())
    if len(st) == 2:
        k1, k2 = _cov_keys(st[0]), _cov_keys(st[1])
        if any(k in k2 and k2[k] != v for k, v in k1.items()):
            # two statements of ONE space that name the same effect once as forced and once as optional: the feature
            # language does not define their combination (outside the claim)
            return None
    a = ModelFeatures.create(covariate=st)
    b = ModelFeatures.create(covariate=(_mk_cov(t1),))     # any operator: '+' effects never match '*' effects
    if SWAP:
        a, b = b, a
    ops = _ops(lambda op: _region_cov(op, a, b), skip=('contain', 'lnt'))
    if not ops:
        return None
    return _check(ops, a, b, eq_cats=['covariate'])


COV_LO = int(os.environ.get('VH_S1LO', '0'))
COV_HI = int(os.environ.get('VH_S1HI', str(NCOV)))


def alg_cov(s1: int, s2: int, t1: int) -> bool:
    """
    pre: COV_LO <= s1 < COV_HI and -1 <= s2 < NCOV and 0 <= t1 < NCOV and (NST >= 2 or s2 == -1)
    post: _ in (True, None)
    """
    return _run(_body_cov, (s1, COV_LO, COV_HI), (s2, -1, NCOV), (t1, 0, NCOV))


def alg_cov__twin(s1: int, s2: int, t1: int) -> bool:
    """
    pre: COV_LO <= s1 < COV_HI and -1 <= s2 < NCOV and 0 <= t1 < NCOV and (NST >= 2 or s2 == -1)
    post: _ == True
    """
    return _run(_body_cov, (s1, COV_LO, COV_HI), (s2, -1, NCOV), (t1, 0, NCOV)) is not True


# ---- family: 2-category product (absorption x peripherals/DRUG, elimination on one side only) --------------------------
# no wildcard here (wildcards: family modes); quick: options FO/ZO/INST x FO/ZO
PAIR_A = [Absorption(_names(t)) for t in _nes(MODES['absorption'] if SIZE == 'thorough' else ('FO', 'ZO', 'INST'))]
PAIR_E = [Elimination(_names(t)) for t in _nes(MODES['elimination'] if SIZE == 'thorough' else ('FO', 'ZO'))]
NA = len(PAIR_A)
NE = len(PAIR_E)


def _mk_pair(x, k, e):
    kw = dict(absorption=PAIR_A[x], peripherals=(Peripherals(COUNT_T[k]),))
    if e >= 0:
        kw['elimination'] = PAIR_E[e]
    return ModelFeatures.create(**kw)


def _body_pair(x, kx, ex, y, ky):
    return _check(_ops(lambda op: 'main'), _mk_pair(x, kx, ex), _mk_pair(y, ky, -1), tool='modelsearch')


def alg_pair(x: int, kx: int, ex: int, y: int, ky: int) -> bool:
    """
    pre: max(0, P1LO) <= x < min(NA, P1HI) and 0 <= y < NA and -1 <= ex < NE and 0 <= kx < NK and 0 <= ky < NK
    post: _ in (True, None)
    """
    return _run(_body_pair, (x, max(0, P1LO), min(NA, P1HI)), (kx, 0, NK), (ex, -1, NE), (y, 0, NA), (ky, 0, NK))


def alg_pair__twin(x: int, kx: int, ex: int, y: int, ky: int) -> bool:
    """
    pre: max(0, P1LO) <= x < min(NA, P1HI) and 0 <= y < NA and -1 <= ex < NE and 0 <= kx < NK and 0 <= ky < NK
    post: _ == True
    """
    return _run(_body_pair, (x, max(0, P1LO), min(NA, P1HI)), (kx, 0, NK), (ex, -1, NE), (y, 0, NA), (ky, 0, NK)) is not True


# ---- family: indirect effect (mode list x production) ------------------------------------------------------------------
NIM = len(IEM_T)
NIP = len(IEP_T)


def _mk_ie(m1, p1, m2, p2):
    st = (IndirectEffect(IEM_T[m1], IEP_T[p1]),)
    if m2 >= 0:
        st += (IndirectEffect(IEM_T[m2], IEP_T[p2]),)
    return ModelFeatures.create(indirect_effect=st)


def _region_indirect(op, a, b):
    if op == 'eq' and expand(a)['indirect_effect'] == expand(b)['indirect_effect']:
        if [(i.modes, i.production) for i in a.indirect_effect] != [(i.modes, i.production) for i in b.indirect_effect]:
            return 'eq_statement_shape'   # statement-tuple comparison: `*` vs the explicit full list, 2 statements vs 1
    if op == 'lnt' and not (expand(a)['indirect_effect'] & expand(b)['indirect_effect']):
        return 'lnt_indirect_keyerror'    # _lnt_indirect_effect looks up a Name object where the key holds its string
    return 'main'


def _body_indirect(m1, p1, m2, p2, n1, q1):
    a, b = _mk_ie(m1, p1, m2, p2), _mk_ie(n1, q1, -1, 0)
    if SWAP:
        a, b = b, a
    ops = _ops(lambda op: _region_indirect(op, a, b), skip=('contain',))
    if not ops:
        return None
    return _check(ops, a, b)


def alg_indirect(m1: int, p1: int, m2: int, p2: int, n1: int, q1: int) -> bool:
    """
    pre: 0 <= m1 < NIM and -1 <= m2 < NIM and 0 <= n1 < NIM and 0 <= p1 < NIP and 0 <= p2 < NIP and 0 <= q1 < NIP
    pre: (m2 >= 0 or p2 == 0) and (NST >= 2 or m2 == -1)
    post: _ in (True, None)
    """
    return _run(_body_indirect, (m1, 0, NIM), (p1, 0, NIP), (m2, -1, NIM), (p2, 0, NIP), (n1, 0, NIM), (q1, 0, NIP))


def alg_indirect__twin(m1: int, p1: int, m2: int, p2: int, n1: int, q1: int) -> bool:
    """
    pre: 0 <= m1 < NIM and -1 <= m2 < NIM and 0 <= n1 < NIM and 0 <= p1 < NIP and 0 <= p2 < NIP and 0 <= q1 < NIP
    pre: (m2 >= 0 or p2 == 0) and (NST >= 2 or m2 == -1)
    post: _ == True
    """
    return _run(_body_indirect, (m1, 0, NIM), (p1, 0, NIP), (m2, -1, NIM), (p2, 0, NIP), (n1, 0, NIM), (q1, 0, NIP)) is not True
