"""C18 (a) — ModelFeatures algebra vs plain set operations on the explicitly expanded option sets.

Operands are built directly from the real feature classes; which options a statement holds is chosen by symbolic small
ints indexing concrete tables (each value = one solver-decided path); transit / peripheral counts are symbolic ints.
The real `ModelFeatures.__add__/__sub__/__eq__/contain_subset/least_number_of_transformations` run on them and the
result is expanded by reading its fields (wildcards expanded from the documented option lists) and compared with
union / difference(+category default when empty) / equality / inclusion / disjointness of the operand expansions.

Env pins (one process per case):  VH_FAM  family of operands (modes|transits|periph|cov|pair|indirect)
                                  VH_CAT  category for the `modes` family
                                  VH_OP   add|sub|eq|contain|lnt
                                  VH_REGION  main | <finding slug>  (a finding region is the exact complement of the
                                             exclusion made by the main obligation of the same family/op)
"""
import itertools
import os
import warnings
from typing import List

warnings.simplefilter('ignore')

from pharmpy.tools.mfl.parse import ModelFeatures  # noqa: E402
from pharmpy.tools.mfl.statement.feature.absorption import Absorption  # noqa: E402
from pharmpy.tools.mfl.statement.feature.covariate import Covariate  # noqa: E402
from pharmpy.tools.mfl.statement.feature.direct_effect import DirectEffect  # noqa: E402
from pharmpy.tools.mfl.statement.feature.effect_comp import EffectComp  # noqa: E402
from pharmpy.tools.mfl.statement.feature.elimination import Elimination  # noqa: E402
from pharmpy.tools.mfl.statement.feature.indirect_effect import IndirectEffect  # noqa: E402
from pharmpy.tools.mfl.statement.feature.lagtime import LagTime  # noqa: E402
from pharmpy.tools.mfl.statement.feature.metabolite import Metabolite  # noqa: E402
from pharmpy.tools.mfl.statement.feature.peripherals import Peripherals  # noqa: E402
from pharmpy.tools.mfl.statement.feature.symbols import Name, Option, Wildcard  # noqa: E402
from pharmpy.tools.mfl.statement.feature.transits import Transits  # noqa: E402

FAM = os.environ.get('VH_FAM', 'modes')
CAT = os.environ.get('VH_CAT', 'absorption')
OP = os.environ.get('VH_OP', 'add')
REGION = os.environ.get('VH_REGION', 'main')
MAXC = int(os.environ.get('VH_MAXC', '2'))      # largest transit / peripheral count
NST = int(os.environ.get('VH_NST', '2'))        # statements per transit / peripheral operand (1..NST)

# ---- documented option lists (docs/mfl.rst, grammar.py); independent of the *_WILDCARD tuples of pharmpy ------------
MODES = dict(absorption=('FO', 'ZO', 'SEQ-ZO-FO', 'INST'), elimination=('FO', 'ZO', 'MM', 'MIX-FO-MM'),
             lagtime=('ON', 'OFF'), direct_effect=('LINEAR', 'EMAX', 'SIGMOID'),
             effect_comp=('LINEAR', 'EMAX', 'SIGMOID'), metabolite=('PSC', 'BASIC'))
CLS = dict(absorption=Absorption, elimination=Elimination, lagtime=LagTime, direct_effect=DirectEffect,
           effect_comp=EffectComp, metabolite=Metabolite)
DEPOTS = ('DEPOT', 'NODEPOT')
PMODES = ('DRUG', 'MET')
IE_MODES = ('LINEAR', 'EMAX', 'SIGMOID')
IE_PROD = ('DEGRADATION', 'PRODUCTION')
FPS = ('LIN', 'PIECE_LIN', 'EXP', 'POW')      # expansion of the covariate effect wildcard (Covariate.eval)
# category defaults restored by an empty difference (Absorption/Elimination/LagTime/Transits/Peripherals.__sub__,
# ModelFeatures.create)
DEFAULT = {'absorption': {'INST'}, 'elimination': {'FO'}, 'lagtime': {'OFF'}, 'transits': {(0, 'DEPOT')},
           'peripherals:DRUG': {0}}
PK_CATS = ('absorption', 'elimination', 'lagtime', 'transits', 'peripherals:DRUG')
KEYCAT = {'ABSORPTION': 'absorption', 'ELIMINATION': 'elimination', 'LAGTIME': 'lagtime', 'DIRECT': 'direct_effect',
          'EFFECTCOMP': 'effect_comp', 'METABOLITE': 'metabolite', 'TRANSITS': 'transits', 'INDIRECT': 'indirect_effect'}


def _nes(xs):
    out = []
    for r in range(1, len(xs) + 1):
        out += list(itertools.combinations(xs, r))
    return out


def _names(t):
    return tuple(Name(x) for x in t)


# concrete tables indexed by the symbolic codes; the wildcard is always the LAST entry
MODE_T = {c: [CLS[c](_names(s)) for s in _nes(MODES[c])] + [CLS[c](Wildcard())] for c in MODES}
DEPOT_T = [_names(s) for s in _nes(DEPOTS)] + [Wildcard()]
PMODE_T = [_names(s) for s in _nes(PMODES)] + [Wildcard()]
IEM_T = [_names(s) for s in _nes(IE_MODES)] + [Wildcard()]
IEP_T = [_names(s) for s in _nes(IE_PROD)] + [Wildcard()]
COVP_T = _nes(('CL', 'V'))
COVC_T = _nes(('WGT', 'AGE'))
COVF_T = _nes(('EXP', 'LIN')) + [Wildcard()]
NM = len(MODE_T[CAT]) if CAT in MODE_T else 0
ND = len(DEPOT_T)
NP = len(PMODE_T)


# ---- reference expansion: read the fields, expand wildcards from the documented lists --------------------------------
def _modeset(m, universe):
    if isinstance(m, Wildcard):
        return set(universe)
    return {n.name for n in m}     # raises when a feature holds a malformed (non-tuple) option field


def expand(mf):
    d = {}
    for cat in MODES:
        f = getattr(mf, cat)
        d[cat] = set() if f is None else _modeset(f.modes, MODES[cat])
    tr = set()
    for t in mf.transits:
        for dn in _modeset(t.depot, DEPOTS):
            for c in t.counts:
                tr.add((c, dn))
    d['transits'] = tr
    d['peripherals:DRUG'] = set()
    d['peripherals:MET'] = set()
    for p in mf.peripherals:
        for mn in _modeset(p.modes, PMODES):
            for c in p.counts:
                d['peripherals:' + mn].add(c)
    ie = set()
    for i in mf.indirect_effect:
        for mn in _modeset(i.modes, IE_MODES):
            for pn in _modeset(i.production, IE_PROD):
                ie.add((mn, pn))
    d['indirect_effect'] = ie
    cov = {}
    for c in mf.covariate:
        fps = FPS if isinstance(c.fp, Wildcard) else c.fp
        for par in c.parameter:
            for co in c.covariate:
                for fp in fps:
                    k = (par, co, fp, c.op)
                    st = 2 if c.optional.option else 1      # 1 = forced {present}, 2 = optional {absent, present}
                    if cov.get(k, 0) < st:
                        cov[k] = st
    d['covariate'] = cov
    return d


def _is_pk(e):
    return any(e[c] for c in PK_CATS) or bool(e['peripherals:MET']) or bool(e['metabolite'])


def _check_add(a, b, A, B):
    R = expand(a + b)
    for cat in A:
        if cat == 'covariate':
            want = {k: max(A[cat].get(k, 0), B[cat].get(k, 0)) for k in set(A[cat]) | set(B[cat])}
        else:
            want = A[cat] | B[cat]
        if R[cat] != want:
            return False
    return True


def _check_sub(a, b, A, B):
    R = expand(a - b)
    raw = {}
    for cat in A:
        if cat == 'covariate':
            raw[cat] = {k: v for k, v in A[cat].items() if k not in B[cat]}
        else:
            raw[cat] = A[cat] - B[cat]
    pk_all_empty = not any(raw[c] for c in PK_CATS) and not raw['peripherals:MET'] and not raw['metabolite']
    if pk_all_empty and not _is_pk(R):
        # A - A: the empty space (no pharmacokinetic statement at all) is the plain set difference
        return all(R[cat] == raw[cat] for cat in A if cat not in PK_CATS)
    for cat in A:
        want = raw[cat]
        if not want and cat in DEFAULT and _is_pk(R):
            want = DEFAULT[cat]
            if cat == 'peripherals:DRUG' and R['peripherals:MET'] and not R[cat]:
                continue    # only metabolite peripherals left: no drug default is added (not demanded either way)
        if R[cat] != want:
            return False
    return True


def _check_eq(a, b, A, B, cats):
    return bool(a == b) == all(A[c] == B[c] for c in cats)


def _check_contain(a, b, A, B, tool):
    return bool(a.contain_subset(b, tool=tool)) == all(B[c] <= A[c] for c in PK_CATS)


def _check_lnt(a, b, A, B):
    lnt = a.least_number_of_transformations(b)
    got = {}
    for key, fn in lnt.items():
        if not callable(fn):
            return False
        kind = key[0]
        if kind == 'PERIPHERALS':
            cat = 'peripherals:MET' if len(key) == 3 else 'peripherals:DRUG'
            val = key[1]
        elif kind in ('TRANSITS', 'INDIRECT'):
            cat = KEYCAT[kind]
            val = (key[1], key[2])
        elif kind in KEYCAT:
            cat = KEYCAT[kind]
            val = key[1]
        else:
            return False
        got.setdefault(cat, []).append(val)
    for cat in A:
        if cat == 'covariate' or not A[cat] or not B[cat]:
            continue
        vals = got.get(cat, [])
        if A[cat] & B[cat]:
            if vals:
                return False      # already part of other: no transformation in this category
        else:
            if len(vals) != 1 or vals[0] not in B[cat]:
                return False      # exactly one transformation, to an option of other
    return True


def _check(a, b, eq_cats=None, tool=None):
    A, B = expand(a), expand(b)
    if OP == 'add':
        return _check_add(a, b, A, B)
    if OP == 'sub':
        return _check_sub(a, b, A, B)
    if OP == 'eq':
        return _check_eq(a, b, A, B, eq_cats if eq_cats is not None else list(A))
    if OP == 'contain':
        return _check_contain(a, b, A, B, tool)
    if OP == 'lnt':
        return _check_lnt(a, b, A, B)
    raise RuntimeError(OP)


# ---- family: one mode-list category -----------------------------------------------------------------------------------
_PKM = ('absorption', 'elimination', 'lagtime')


def _region_modes(x, y):
    """Name of the region the operand pair lies in: 'main' or the slug of the finding that owns it."""
    wild = x == NM - 1 or y == NM - 1
    A = set(MODES[CAT]) if x == NM - 1 else set(_SUB[CAT][x])
    B = set(MODES[CAT]) if y == NM - 1 else set(_SUB[CAT][y])
    if CAT in _PKM and OP in ('sub', 'eq') and wild:
        return 'wildcard_sub_eq'      # Absorption/Elimination/LagTime.__eq__ iterate `modes` of a wildcard
    if CAT == 'metabolite':
        if OP == 'eq':
            return 'main' if A == B else 'eq_ignores_metabolite'      # __eq__ never compares metabolite
        if OP == 'sub' and wild:
            return 'wildcard_sub_eq'
    if CAT in ('direct_effect', 'effect_comp', 'metabolite') and OP == 'sub':
        if A < B and y != NM - 1:
            return 'pd_sub_empty'     # builds DirectEffect/EffectComp/Metabolite(modes=None)
    return 'main'


_SUB = {c: _nes(MODES[c]) for c in MODES}


def _mk_modes(i):
    return ModelFeatures.create(**{CAT: MODE_T[CAT][i]})


def alg_modes(x: int, y: int) -> bool:
    """
    pre: 0 <= x < NM and 0 <= y < NM
    pre: _region_modes(x, y) == REGION
    post: _ == True
    """
    return _check(_mk_modes(x), _mk_modes(y))


def alg_modes__twin(x: int, y: int) -> bool:
    """
    pre: 0 <= x < NM and 0 <= y < NM
    pre: _region_modes(x, y) == REGION
    post: _ == True
    """
    return not alg_modes(x, y)


# ---- family: transits (1..NST statements per operand, symbolic counts, depot option incl. wildcard) --------------------
def _counts_ok(cs):
    return 1 <= len(cs) <= 2 and all(0 <= c <= MAXC for c in cs) and (len(cs) < 2 or cs[0] != cs[1])


def _mk_transits(c1, d1, c2, d2):
    st = (Transits(tuple(c1), DEPOT_T[d1]),)
    if c2:
        st += (Transits(tuple(c2), DEPOT_T[d2]),)
    return ModelFeatures.create(transits=st)


def _region_transits(c1, d1, c2, d2, e1, f1):
    if OP != 'contain':
        return 'main'
    a, b = _mk_transits(c1, d1, c2, d2), _mk_transits(e1, f1, [], 0)
    if os.environ.get('VH_SWAP') == '1':
        a, b = b, a
    A, B = expand(a)['transits'], expand(b)['transits']
    if {c for c, _ in B} <= {c for c, _ in A} and {d for _, d in B} <= {d for _, d in A} and not B <= A:
        return 'contain_transits_cross'   # counts and depots are compared separately (FIXME in _subset_transits)
    return 'main'


def alg_transits(c1: List[int], d1: int, c2: List[int], d2: int, e1: List[int], f1: int) -> bool:
    """
    pre: _counts_ok(c1) and _counts_ok(e1) and (len(c2) == 0 or (NST >= 2 and _counts_ok(c2)))
    pre: 0 <= d1 < ND and 0 <= d2 < ND and 0 <= f1 < ND and (len(c2) > 0 or d2 == 0)
    pre: _region_transits(c1, d1, c2, d2, e1, f1) == REGION
    post: _ == True
    """
    a = _mk_transits(c1, d1, c2, d2)
    b = _mk_transits(e1, f1, [], 0)
    a2, b2 = (b, a) if os.environ.get('VH_SWAP') == '1' else (a, b)
    return _check(a2, b2)


def alg_transits__twin(c1: List[int], d1: int, c2: List[int], d2: int, e1: List[int], f1: int) -> bool:
    """
    pre: _counts_ok(c1) and _counts_ok(e1) and (len(c2) == 0 or (NST >= 2 and _counts_ok(c2)))
    pre: 0 <= d1 < ND and 0 <= d2 < ND and 0 <= f1 < ND and (len(c2) > 0 or d2 == 0)
    pre: _region_transits(c1, d1, c2, d2, e1, f1) == REGION
    post: _ == True
    """
    a = _mk_transits(c1, d1, c2, d2)
    b = _mk_transits(e1, f1, [], 0)
    a2, b2 = (b, a) if os.environ.get('VH_SWAP') == '1' else (a, b)
    return not _check(a2, b2)


# ---- family: peripherals (DRUG / MET statements) ----------------------------------------------------------------------
def _mk_periph(c1, m1, c2, m2):
    st = (Peripherals(tuple(c1), PMODE_T[m1]),)
    if c2:
        st += (Peripherals(tuple(c2), PMODE_T[m2]),)
    return ModelFeatures.create(peripherals=st)


def _region_periph(c1, m1, c2, m2, e1, n1):
    wild = m1 == NP - 1 or n1 == NP - 1 or (len(c2) > 0 and m2 == NP - 1)
    if wild:
        return 'periph_wildcard'     # PERIPHERALS(n,*) makes every operation raise TypeError
    if OP == 'eq' and len(c2) > 0:
        a, b = _mk_periph(c1, m1, c2, m2), _mk_periph(e1, n1, [], 0)
        A, B = expand(a), expand(b)
        if all(A[k] == B[k] for k in ('peripherals:DRUG', 'peripherals:MET')):
            return 'eq_periph_shape'  # tuple-of-statements comparison depends on how the statements are split
    if OP == 'contain' and (m1 != 0 or n1 != 0 or (len(c2) > 0 and m2 != 0)):
        return 'outside'             # contain_subset looks at DRUG peripherals only (tool modelsearch): not claimed
    return 'main'


def alg_periph(c1: List[int], m1: int, c2: List[int], m2: int, e1: List[int], n1: int) -> bool:
    """
    pre: _counts_ok(c1) and _counts_ok(e1) and (len(c2) == 0 or (NST >= 2 and _counts_ok(c2)))
    pre: 0 <= m1 < NP and 0 <= m2 < NP and 0 <= n1 < NP and (len(c2) > 0 or m2 == 0)
    pre: _region_periph(c1, m1, c2, m2, e1, n1) == REGION
    post: _ == True
    """
    a = _mk_periph(c1, m1, c2, m2)
    b = _mk_periph(e1, n1, [], 0)
    a2, b2 = (b, a) if os.environ.get('VH_SWAP') == '1' else (a, b)
    return _check(a2, b2, tool='modelsearch')


def alg_periph__twin(c1: List[int], m1: int, c2: List[int], m2: int, e1: List[int], n1: int) -> bool:
    """
    pre: _counts_ok(c1) and _counts_ok(e1) and (len(c2) == 0 or (NST >= 2 and _counts_ok(c2)))
    pre: 0 <= m1 < NP and 0 <= m2 < NP and 0 <= n1 < NP and (len(c2) > 0 or m2 == 0)
    pre: _region_periph(c1, m1, c2, m2, e1, n1) == REGION
    post: _ == True
    """
    return not alg_periph(c1, m1, c2, m2, e1, n1)


# ---- family: covariates (explicit effects; optional '?' and forced; wildcard effect list) ------------------------------
def _mk_cov(p, c, f, plus, opt):
    return Covariate(COVP_T[p], COVC_T[c], COVF_T[f], '+' if plus else '*', Option(bool(opt)))


def alg_cov(p1: int, c1: int, f1: int, o1: bool, two: bool, p2: int, c2: int, f2: int, plus2: bool, o2: bool,
            q1: int, d1: int, g1: int, r1: bool) -> bool:
    """
    pre: 0 <= p1 < 3 and 0 <= c1 < 3 and 0 <= f1 < 4 and 0 <= p2 < 3 and 0 <= c2 < 3 and 0 <= f2 < 4
    pre: 0 <= q1 < 3 and 0 <= d1 < 3 and 0 <= g1 < 4
    pre: two or (p2 == 0 and c2 == 0 and f2 == 0 and not plus2 and not o2)
    pre: _region_cov(p1, c1, f1, o1, two, p2, c2, f2, plus2, o2, q1, d1, g1, r1) == REGION
    post: _ == True
    """
    st = (_mk_cov(p1, c1, f1, False, o1),)
    if two:
        st += (_mk_cov(p2, c2, f2, plus2, o2),)
    a = ModelFeatures.create(covariate=st)
    b = ModelFeatures.create(covariate=(_mk_cov(q1, d1, g1, False, r1),))
    a2, b2 = (b, a) if os.environ.get('VH_SWAP') == '1' else (a, b)
    return _check(a2, b2, eq_cats=['covariate'])


def _region_cov(p1, c1, f1, o1, two, p2, c2, f2, plus2, o2, q1, d1, g1, r1):
    if OP != 'eq':
        return 'main'
    st = (_mk_cov(p1, c1, f1, False, o1),) + ((_mk_cov(p2, c2, f2, plus2, o2),) if two else ())
    a = ModelFeatures.create(covariate=st)
    b = ModelFeatures.create(covariate=(_mk_cov(q1, d1, g1, False, r1),))
    if os.environ.get('VH_SWAP') == '1':
        a, b = b, a
    A, B = expand(a)['covariate'], expand(b)['covariate']
    if all(k in B and B[k] == v for k, v in A.items()) and A != B:
        return 'eq_cov_one_directional'   # ModelFeatures._eq_covariate only checks lhs effects against rhs
    return 'main'


def alg_cov__twin(p1: int, c1: int, f1: int, o1: bool, two: bool, p2: int, c2: int, f2: int, plus2: bool, o2: bool,
                  q1: int, d1: int, g1: int, r1: bool) -> bool:
    """
    pre: 0 <= p1 < 3 and 0 <= c1 < 3 and 0 <= f1 < 4 and 0 <= p2 < 3 and 0 <= c2 < 3 and 0 <= f2 < 4
    pre: 0 <= q1 < 3 and 0 <= d1 < 3 and 0 <= g1 < 4
    pre: two or (p2 == 0 and c2 == 0 and f2 == 0 and not plus2 and not o2)
    pre: _region_cov(p1, c1, f1, o1, two, p2, c2, f2, plus2, o2, q1, d1, g1, r1) == REGION
    post: _ == True
    """
    return not alg_cov(p1, c1, f1, o1, two, p2, c2, f2, plus2, o2, q1, d1, g1, r1)


# ---- family: 2-category product (absorption x peripherals/DRUG, plus elimination on one side) --------------------------
NA = len(MODE_T['absorption']) - 1      # no wildcard here (wildcards: family modes)
NE = len(MODE_T['elimination']) - 1


def _mk_pair(x, cs, e):
    kw = dict(absorption=MODE_T['absorption'][x], peripherals=(Peripherals(tuple(cs)),))
    if e >= 0:
        kw['elimination'] = MODE_T['elimination'][e]
    return ModelFeatures.create(**kw)


def alg_pair(x: int, cx: List[int], ex: int, y: int, cy: List[int]) -> bool:
    """
    pre: 0 <= x < NA and 0 <= y < NA and -1 <= ex < NE and _counts_ok(cx) and _counts_ok(cy)
    post: _ == True
    """
    return _check(_mk_pair(x, cx, ex), _mk_pair(y, cy, -1), tool='modelsearch')


def alg_pair__twin(x: int, cx: List[int], ex: int, y: int, cy: List[int]) -> bool:
    """
    pre: 0 <= x < NA and 0 <= y < NA and -1 <= ex < NE and _counts_ok(cx) and _counts_ok(cy)
    post: _ == True
    """
    return not alg_pair(x, cx, ex, y, cy)


# ---- family: indirect effect (mode list x production) ------------------------------------------------------------------
NIM = len(IEM_T)
NIP = len(IEP_T)


def _mk_ie(m1, p1, two, m2, p2):
    st = (IndirectEffect(IEM_T[m1], IEP_T[p1]),)
    if two:
        st += (IndirectEffect(IEM_T[m2], IEP_T[p2]),)
    return ModelFeatures.create(indirect_effect=st)


def alg_indirect(m1: int, p1: int, two: bool, m2: int, p2: int, n1: int, q1: int) -> bool:
    """
    pre: 0 <= m1 < NIM and 0 <= m2 < NIM and 0 <= n1 < NIM and 0 <= p1 < NIP and 0 <= p2 < NIP and 0 <= q1 < NIP
    pre: two or (m2 == 0 and p2 == 0)
    post: _ == True
    """
    return _check(_mk_ie(m1, p1, two, m2, p2), _mk_ie(n1, q1, False, 0, 0))


def alg_indirect__twin(m1: int, p1: int, two: bool, m2: int, p2: int, n1: int, q1: int) -> bool:
    """
    pre: 0 <= m1 < NIM and 0 <= m2 < NIM and 0 <= n1 < NIM and 0 <= p1 < NIP and 0 <= p2 < NIP and 0 <= q1 < NIP
    pre: two or (m2 == 0 and p2 == 0)
    post: _ == True
    """
    return not alg_indirect(m1, p1, two, m2, p2, n1, q1)
