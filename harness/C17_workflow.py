"""C17 — workflows execute as their task graph specifies: obligations over the REAL pharmpy.workflows code.

Every obligation builds a workflow with the real `Task` / `WorkflowBuilder` / `Workflow` / `insert_context` /
`execute_workflow`, from a *declared* graph given by symbolic edge booleans over tasks t0..t4 (an edge i->j only for
i < j, so every declared graph is a DAG), symbolic static inputs, and recording task functions
f_i(*args) = (i, args).  The oracle is computed from the declaration only (never from the networkx graph):

  value(j) = (j, [context] + static inputs of j + value(p) for the predecessors p of j in entry order)

"entry order" = the order in which tasks entered the workflow: add_task appends, a replaced task leaves and its
replacement enters at the end (DESIGN.md, C17).  `Workflow.as_dask_dict()` is evaluated by `spec_get`, a small
evaluator of the dask graph specification (https://docs.dask.org/en/stable/spec.html); with VH_REAL_DASK=1 (second
stage of counterexample confirmation) the same obligations run on the real `dask.threaded.get` with the real uuid4.
"""
import os

import pharmpy.workflows.execute as X
import pharmpy.workflows.workflow as W
from pharmpy.workflows import Task, Workflow, WorkflowBuilder

# Concrete case split, one process per case (pinned by the runner through the environment; a pinned dimension is
# not read from the function's parameters, so the corresponding parameter of a reported call is irrelevant and the
# replay uses the same environment):
N = int(os.environ.get('VH_N', '4'))            # number of tasks t0..t(N-1), 1..5
EPIN = os.environ.get('VH_EPIN', '')            # '0'/'1' per leading entry of PAIRS: those edges are pinned
VARIANTS = os.environ.get('VH_VARIANTS', '1') == '1'   # 0: predecessor lists always ascending and always lists
NA = int(os.environ.get('VH_NA', '2'))          # insert_workflow / add_operator: tasks of A (1..3)
NB = int(os.environ.get('VH_NB', '2'))          # tasks of B (1..3)
CPIN = os.environ.get('VH_CPIN', '')            # exec_context: '0'/'1'/'x' per task: `takes context` pinned
APIN = os.environ.get('VH_APIN', '')            # '0'/'1' pins for A's edges a01, a02, a12 (leading ones)
PM = int(os.environ.get('VH_PM', '0'))          # insert_workflow predecessors: 0 None, 1 one Task, 2 list
SHAPE = os.environ.get('VH_SHAPE', 'A')
REAL = os.environ.get('VH_REAL_DASK') == '1'
EXCL_RESULTS = os.environ.get('VH_EXCL_RESULTS') == '1'
MAXSTR = int(os.environ.get('VH_MAXSTR', '8'))


def _plain_dict():
    return {}


def _plain_networkx_dicts():
    """Under CrossHair a call `dict()` yields CrossHair's own mapping type, which does not raise TypeError for an
    unhashable key; networkx's add_nodes_from (used by DiGraph.copy) relies on that TypeError to tell `node` from
    `(node, attrdict)`.  The graph classes' dict factories (all `dict`) are therefore rebound to a function returning a
    dict literal, which CrossHair leaves alone.  Same behaviour outside CrossHair."""
    import networkx as nx
    for cls in (nx.Graph, nx.DiGraph):
        for attr in ('node_dict_factory', 'node_attr_dict_factory', 'adjlist_outer_dict_factory',
                     'adjlist_inner_dict_factory', 'edge_attr_dict_factory', 'graph_attr_dict_factory'):
            if getattr(cls, attr, None) is dict:
                setattr(cls, attr, staticmethod(_plain_dict))


_plain_networkx_dicts()

PAIRS = [(0, 1), (0, 2), (1, 2), (0, 3), (1, 3), (2, 3), (0, 4), (1, 4), (2, 4), (3, 4)]
import uuid as _uuid_module  # noqa: E402

_real_uuid = getattr(W, 'uuid', _uuid_module)


class _FakeUuid:
    """uuid stand-in: deterministic (CrossHair re-executes paths), same shape and length as a uuid4, unique per call."""

    def __init__(self):
        self.n = 0

    def uuid4(self):
        self.n += 1
        return '00000000-0000-4000-8000-%012d' % self.n


def _fresh():
    W.uuid = _real_uuid if REAL else _FakeUuid()


# ---------------------------------------------------------------------------------------------------------
# evaluator of the dask graph specification

def spec_get(dsk, key):
    """Value of `key` in the dask graph `dsk`.  Spec: a computation is (1) a key present in the graph, (2) a task =
    tuple whose first element is callable, evaluated as f(*computations), (3) a list of computations, (4) any other
    value, taken literally.  Every key is computed at most once; a cycle is an error."""
    keys = list(dsk)
    cache = {}
    active = []

    def find(c):
        if isinstance(c, str):          # all keys of as_dask_dict are strings
            for k in keys:
                if c == k:              # (== instead of hashing: c may be symbolic)
                    return k
        return None

    def value(k):
        if k in cache:
            return cache[k]
        if k in active:
            raise RuntimeError('Cycle detected in the task graph')
        active.append(k)
        v = comp(dsk[k])
        active.pop()
        cache[k] = v
        return v

    def comp(c):
        if isinstance(c, list):
            return [comp(x) for x in c]
        if isinstance(c, tuple) and len(c) > 0 and callable(c[0]):
            return c[0](*[comp(a) for a in c[1:]])
        k = find(c)
        if k is not None:
            return value(k)
        return c

    return value(find(key))


def _get(dsk):
    if REAL:
        from dask.threaded import get
        return get(dsk, 'results')
    return spec_get(dsk, 'results')


# ---------------------------------------------------------------------------------------------------------
# declared graphs and the reference evaluation

def _mk(i, calls, ctx=False):
    if ctx:
        def f(context, *a):
            calls.append(i)
            return (i, (context,) + a)
    else:
        def f(*a):
            calls.append(i)
            return (i, a)
    return f


def _edges(E):
    """Declared edges among t0..t(N-1): pinned ones from the environment, the others from the symbolic booleans."""
    out = []
    for idx, (i, j) in enumerate(PAIRS):
        if j >= N:
            continue
        e = (EPIN[idx] == '1') if idx < len(EPIN) else E[idx]
        if e:
            out.append((i, j))
    return out


def _statics(i, s):
    """Static inputs of task i: shape A = one int each; shape B = 0, 2, 1, 3, 0 inputs (repeats allowed)."""
    if SHAPE == 'A':
        return (s[i],)
    return [(), (s[1], s[0]), (s[2],), (s[3], s[3], s[4]), ()][i]


def reference(nodes, edges, statics, entry, pre=None):
    """Sequential evaluation of the declared graph.  nodes: ids; edges: set of (u, v); statics[u]: tuple;
    entry: list of ids in entry order; pre[u]: tuple prepended (the context) or absent."""
    pos = {u: k for k, u in enumerate(entry)}
    memo = {}

    def val(u):
        if u not in memo:
            ps = sorted([a for (a, b) in edges if b == u], key=lambda a: pos[a])
            memo[u] = (u, (pre or {}).get(u, ()) + tuple(statics[u]) + tuple(val(p) for p in ps))
        return memo[u]
    return {u: val(u) for u in nodes}


def _sinks(nodes, edges):
    return [u for u in nodes if not any(a == u for (a, b) in edges)]


def _sources(nodes, edges):
    return [u for u in nodes if not any(b == u for (a, b) in edges)]


def _check_exec(wf, nodes, edges, expected, calls):
    """as_dask_dict + evaluation against the reference; != 1 sink must be refused with ValueError."""
    sinks = _sinks(nodes, edges)
    if len(sinks) != 1:
        try:
            wf.as_dask_dict()
        except ValueError:
            return True
        return False
    d = wf.as_dask_dict()
    if len(d) != len(nodes) or not all(isinstance(k, str) for k in d):
        return False
    got = _get(d)
    if got != expected[sinks[0]]:
        return False
    return sorted(calls) == sorted(nodes)     # every task exactly once


def _build_add(E, s, calls, rev=False, single=False, ctx=None):
    n = N
    tasks = [Task(f't{i}', _mk(i, calls, bool(ctx and ctx[i])), *_statics(i, s)) for i in range(n)]
    edges = _edges(E)
    if not VARIANTS:
        rev = single = False
    wb = WorkflowBuilder(name='wfname')
    for j in range(n):
        p = [tasks[i] for (i, jj) in edges if jj == j]
        if len(p) > 1 and rev:
            p.reverse()
        if not p:
            wb.add_task(tasks[j])
        elif len(p) == 1 and single:
            wb.add_task(tasks[j], predecessors=p[0])
        else:
            wb.add_task(tasks[j], predecessors=p)
    return tasks, edges, wb


# ---------------------------------------------------------------------------------------------------------
# obligations

def _structure_ok_unordered(w, objs, edges):
    """w holds exactly the task objects objs (dict id -> Task, identity) and exactly the declared edges; tasks,
    input_tasks, output_tasks, get_predecessors, get_successors and len agree with the declaration (as sets)."""
    ts = w.tasks
    if len(ts) != len(objs) or len(w) != len(objs):
        return False
    ident = {}
    for t in ts:
        hit = [u for u, o in objs.items() if o is t]
        if len(hit) != 1:
            return False
        ident[id(t)] = hit[0]
    if len(set(ident.values())) != len(objs):
        return False
    got = set()
    got2 = set()
    for t in ts:
        for p in w.get_predecessors(t):
            got.add((ident[id(p)], ident[id(t)]))
        for q in w.get_successors(t):
            got2.add((ident[id(t)], ident[id(q)]))
    nodes = list(objs)
    return (got == set(edges) and got2 == set(edges)
            and sorted(ident[id(t)] for t in w.input_tasks) == sorted(_sources(nodes, edges))
            and sorted(ident[id(t)] for t in w.output_tasks) == sorted(_sinks(nodes, edges)))


def exec_add(e01: bool, e02: bool, e12: bool, e03: bool, e13: bool, e23: bool, e04: bool, e14: bool,
             e24: bool, e34: bool, rev: bool, single: bool, s0: int, s1: int, s2: int, s3: int, s4: int) -> bool:
    """
    Workflow of N tasks built by add_task (predecessor lists in entry or reversed order, a lone predecessor optionally
    passed as a Task): builder and workflow hold exactly the declared tasks and edges; as_dask_dict
    evaluates to the reference value of the single sink, every task exactly once, static inputs first, then
    predecessor results in entry order; a workflow without exactly one sink is refused (ValueError).
    post: _ == True
    """
    _fresh()
    E = (e01, e02, e12, e03, e13, e23, e04, e14, e24, e34)
    s = (s0, s1, s2, s3, s4)
    calls = []
    tasks, edges, wb = _build_add(E, s, calls, rev, single)
    wf = Workflow(wb)
    nodes = list(range(N))
    objs = dict(enumerate(tasks))
    if not _structure_ok_unordered(wb, objs, edges) or not _structure_ok_unordered(wf, objs, edges):
        return False
    expected = reference(nodes, edges, [_statics(i, s) for i in nodes], nodes)
    return _check_exec(wf, nodes, edges, expected, calls)


def exec_add__twin(e01: bool, e02: bool, e12: bool, e03: bool, e13: bool, e23: bool, e04: bool, e14: bool,
                   e24: bool, e34: bool, rev: bool, single: bool, s0: int, s1: int, s2: int, s3: int,
                   s4: int) -> bool:
    """
    pre: e02 and e12 and len(_sinks(list(range(N)), _edges((e01, e02, e12, e03, e13, e23, e04, e14, e24, e34)))) == 1
    post: _ == True
    """
    return not exec_add(e01, e02, e12, e03, e13, e23, e04, e14, e24, e34, rev, single, s0, s1, s2, s3, s4)


class _Dispatcher:
    def __init__(self):
        self.seen = None

    def run(self, workflow, context):
        self.seen = (workflow, context)
        return _get(workflow.as_dask_dict())


def exec_context(e01: bool, e02: bool, e12: bool, e03: bool, e13: bool, e23: bool, e04: bool, e14: bool,
                 e24: bool, e34: bool, c0: bool, c1: bool, c2: bool, c3: bool, c4: bool, ctx: int,
                 s0: int, s1: int, s2: int, s3: int, s4: int) -> bool:
    """
    The real execute_workflow (task rewriting + insert_context) with a recording dispatcher, on single-sink graphs:
    the dispatched workflow has exactly the declared tasks (those whose function takes `context` first get it
    prepended to their static inputs, the others keep their inputs) and the declared edges, and evaluates to the
    reference value (re-entered tasks last in entry order).
    post: _ == True
    """
    _fresh()
    E = (e01, e02, e12, e03, e13, e23, e04, e14, e24, e34)
    s = (s0, s1, s2, s3, s4)
    c = tuple((CPIN[i] == '1') if (i < len(CPIN) and CPIN[i] in '01') else x
              for i, x in enumerate((c0, c1, c2, c3, c4)))
    calls = []
    nodes = list(range(N))
    if len(_sinks(nodes, _edges(E))) != 1:
        return True         # not in the claim of this obligation (exec_add covers the refusal)
    tasks, edges, wb = _build_add(E, s, calls, ctx=c)
    wf = Workflow(wb)
    disp = _Dispatcher()
    got = X.execute_workflow(wf, dispatcher=disp, context=ctx)
    if disp.seen is None or disp.seen[1] is not ctx:
        return False
    run_wf = disp.seen[0]
    ts = run_wf.tasks
    if sorted(t.name for t in ts) != [f't{i}' for i in nodes]:
        return False
    byname = {t.name: t for t in ts}
    for i in nodes:
        t = byname[f't{i}']
        want = ((ctx,) if c[i] else ()) + tuple(_statics(i, s))
        if tuple(t.task_input) != want:
            return False
    got_edges = set()
    for t in ts:
        for p in run_wf.get_predecessors(t):
            got_edges.add((int(p.name[1:]), int(t.name[1:])))
    if got_edges != set(edges):
        return False
    entry = [i for i in nodes if not c[i]] + [i for i in nodes if c[i]]
    pre = {i: (ctx,) for i in nodes if c[i]}
    expected = reference(nodes, edges, [_statics(i, s) for i in nodes], entry, pre)
    sink = _sinks(nodes, edges)[0]
    return got == expected[sink] and sorted(calls) == nodes


def exec_context__twin(e01: bool, e02: bool, e12: bool, e03: bool, e13: bool, e23: bool, e04: bool,
                       e14: bool, e24: bool, e34: bool, c0: bool, c1: bool, c2: bool, c3: bool, c4: bool, ctx: int,
                       s0: int, s1: int, s2: int, s3: int, s4: int) -> bool:
    """
    pre: e02 and e12 and c0 and not c1
    pre: len(_sinks(list(range(N)), _edges((e01, e02, e12, e03, e13, e23, e04, e14, e24, e34)))) == 1
    post: _ == True
    """
    return not exec_context(e01, e02, e12, e03, e13, e23, e04, e14, e24, e34, c0, c1, c2, c3, c4, ctx,
                            s0, s1, s2, s3, s4)


def insert_context_structure(e01: bool, e02: bool, e12: bool, e03: bool, e13: bool, e23: bool, e04: bool,
                             e14: bool, e24: bool, e34: bool, c0: bool, c1: bool, c2: bool, c3: bool, c4: bool,
                             ctx: int) -> bool:
    """
    insert_context on a builder: tasks whose function has `context` as first parameter are replaced by a task with
    the same name and function and inputs (context, *old inputs); every other task keeps name, function and inputs;
    edges are kept.
    post: _ == True
    """
    _fresh()
    E = (e01, e02, e12, e03, e13, e23, e04, e14, e24, e34)
    c = (c0, c1, c2, c3, c4)
    s = (10, 11, 12, 13, 14)
    tasks, edges, wb = _build_add(E, s, [], ctx=c)
    W.insert_context(wb, ctx)
    objs = {}
    for i in range(N):
        cands = [t for t in wb.tasks if t.name == f't{i}']
        if len(cands) != 1:
            return False
        t = cands[0]
        if t.function is not tasks[i].function:
            return False
        if tuple(t.task_input) != ((ctx,) if c[i] else ()) + tuple(_statics(i, s)):
            return False
        objs[i] = t
    return _structure_ok_unordered(wb, objs, edges) and _structure_ok_unordered(Workflow(wb), objs, edges)


def insert_context_structure__twin(e01: bool, e02: bool, e12: bool, e03: bool, e13: bool, e23: bool,
                                   e04: bool, e14: bool, e24: bool, e34: bool, c0: bool, c1: bool, c2: bool,
                                   c3: bool, c4: bool, ctx: int) -> bool:
    """
    pre: e01 and c0
    post: _ == True
    """
    return not insert_context_structure(e01, e02, e12, e03, e13, e23, e04, e14, e24, e34, c0, c1, c2, c3, c4, ctx)


def replace_task(e01: bool, e02: bool, e12: bool, e03: bool, e13: bool, e23: bool, e04: bool, e14: bool,
                 e24: bool, e34: bool, k: int, s0: int, s1: int, s2: int, s3: int, s4: int, snew: int) -> bool:
    """
    replace_task(t_k, new): exactly t_k is exchanged for `new`, with the edges of t_k; all other tasks and edges are
    kept; the resulting workflow evaluates to the reference (the replacement enters the workflow last).
    pre: 0 <= k < N
    post: _ == True
    """
    _fresh()
    E = (e01, e02, e12, e03, e13, e23, e04, e14, e24, e34)
    s = (s0, s1, s2, s3, s4)
    calls = []
    tasks, edges, wb = _build_add(E, s, calls)
    k = [i for i in range(N) if i == k][0]      # one path per value; k concrete from here on
    new = Task('new', _mk(k, calls), snew, snew)
    wb.replace_task(tasks[k], new)
    objs = dict(enumerate(tasks))
    objs[k] = new
    if not _structure_ok_unordered(wb, objs, edges):
        return False
    wf = Workflow(wb)
    if not _structure_ok_unordered(wf, objs, edges):
        return False
    nodes = list(range(N))
    statics = [_statics(i, s) for i in nodes]
    statics[k] = (snew, snew)
    entry = [i for i in nodes if i != k] + [k]
    expected = reference(nodes, edges, statics, entry)
    return _check_exec(wf, nodes, edges, expected, calls)


def replace_task__twin(e01: bool, e02: bool, e12: bool, e03: bool, e13: bool, e23: bool, e04: bool,
                       e14: bool, e24: bool, e34: bool, k: int, s0: int, s1: int, s2: int, s3: int, s4: int,
                       snew: int) -> bool:
    """
    pre: 0 <= k < N
    pre: e02 and e12 and k == 0
    pre: len(_sinks(list(range(N)), _edges((e01, e02, e12, e03, e13, e23, e04, e14, e24, e34)))) == 1
    post: _ == True
    """
    return not replace_task(e01, e02, e12, e03, e13, e23, e04, e14, e24, e34, k, s0, s1, s2, s3, s4, snew)


def _peek(wb):
    """a read-only observation of every view of a builder (must not influence any later answer)"""
    return (len(wb), len(wb.tasks), len(wb.input_tasks), len(wb.output_tasks),
            sum(len(wb.get_predecessors(t)) + len(wb.get_successors(t)) for t in wb.tasks))


def replace_then_gather(e01: bool, e02: bool, e12: bool, e03: bool, e13: bool, e23: bool, e04: bool, e14: bool,
                        e24: bool, e34: bool, k: int, peek0: bool, peek1: bool, via_insert: bool,
                        s0: int, s1: int, s2: int, s3: int, s4: int, snew: int) -> bool:
    """
    A builder history the tools use all the time: tasks are added, one task is replaced, then a gathering task is
    attached to ALL current output tasks (add_task(g, predecessors=wb.output_tasks), or insert_workflow of a one-task
    workflow with the default predecessors).  Read-only observations of the builder (peek0: after every add_task,
    peek1: before the replacement) must not change anything: the result holds exactly the declared
    tasks (the replaced one gone, its replacement in its place) and edges, every current sink feeds the gatherer,
    and it evaluates to the reference.
    pre: 0 <= k < N
    post: _ == True
    """
    _fresh()
    E = (e01, e02, e12, e03, e13, e23, e04, e14, e24, e34)
    s = (s0, s1, s2, s3, s4)
    calls = []
    n = N
    tasks = [Task(f't{i}', _mk(i, calls), *_statics(i, s)) for i in range(n)]
    edges = _edges(E)
    wb = WorkflowBuilder(name='wfname')
    for j in range(n):
        p = [tasks[i] for (i, jj) in edges if jj == j]
        if p:
            wb.add_task(tasks[j], predecessors=p)
        else:
            wb.add_task(tasks[j])
        if peek0:
            _peek(wb)
    if peek1:
        _peek(wb)
    k = [i for i in range(N) if i == k][0]
    new = Task('new', _mk(N + 1, calls), snew, snew)
    wb.replace_task(tasks[k], new)
    objs = dict(enumerate(tasks))
    objs[k] = new
    nodes = list(range(N))
    sinks = _sinks(nodes, edges)
    g = N
    gather = Task('gather', _mk(g, calls))
    if via_insert:
        wb.insert_workflow(WorkflowBuilder(tasks=[gather]))
    else:
        wb.add_task(gather, predecessors=wb.output_tasks)
    objs[g] = gather
    edges2 = edges + [(u, g) for u in sinks]
    if not _structure_ok_unordered(wb, objs, edges2):
        return False
    wf = Workflow(wb)
    if not _structure_ok_unordered(wf, objs, edges2):
        return False
    # argument order of the gatherer: entry order of its predecessors (the replacement entered last); compared as a
    # multiset here, the order clause is exec_add's / replace_task's
    ran = []
    dsk = wf.as_dask_dict()
    val = _get(dsk)
    if sorted(calls) != sorted([i for i in range(N) if i != k] + [N, N + 1]):
        return False            # every task ran exactly once (the replaced one never, its replacement once)
    del ran, val
    return True


def replace_then_gather__twin(e01: bool, e02: bool, e12: bool, e03: bool, e13: bool, e23: bool, e04: bool,
                              e14: bool, e24: bool, e34: bool, k: int, peek0: bool, peek1: bool,
                              via_insert: bool, s0: int, s1: int, s2: int, s3: int, s4: int, snew: int) -> bool:
    """
    pre: 0 <= k < N
    post: _ == True
    """
    return not replace_then_gather(e01, e02, e12, e03, e13, e23, e04, e14, e24, e34, k, peek0, peek1, via_insert,
                                   s0, s1, s2, s3, s4, snew)


def _build_ab(a01, a02, a12, b01, b02, b12, s, calls):
    """Two declared graphs: A over ids 0..NA-1, B over ids 3..3+NB-1."""
    ae = [(APIN[x] == '1') if x < len(APIN) else e for x, e in enumerate((a01, a02, a12))]
    ea = [(i, j) for (i, j), e in zip(PAIRS[:3], ae) if j < NA and e]
    eb = [(3 + i, 3 + j) for (i, j), e in zip(PAIRS[:3], (b01, b02, b12)) if j < NB and e]
    objs = {}
    for i in range(NA):
        objs[i] = Task(f'a{i}', _mk(i, calls), s[i])
    for i in range(NB):
        objs[3 + i] = Task(f'b{i}', _mk(3 + i, calls), s[3 + i])
    wa = WorkflowBuilder(name='A')
    for i in range(NA):
        p = [objs[u] for (u, v) in ea if v == i]
        wa.add_task(objs[i], predecessors=p if p else None)
    wbb = WorkflowBuilder(name='B')
    for i in range(NB):
        p = [objs[u] for (u, v) in eb if v == 3 + i]
        wbb.add_task(objs[3 + i], predecessors=p if p else None)
    return objs, ea, eb, wa, wbb


def _iw_ok(k, p0, p1, p2):
    """Bound of the `predecessors` selector: PM = 1: task index k; PM = 2: a non-empty subset of A."""
    if PM == 1:
        return 0 <= k < NA
    if PM == 2:
        return p0 or (NA > 1 and p1) or (NA > 2 and p2)
    return True


def insert_workflow(a01: bool, a02: bool, a12: bool, b01: bool, b02: bool, b12: bool,
                    k: int, p0: bool, p1: bool, p2: bool, rev: bool,
                    s0: int, s1: int, s2: int, s3: int, s4: int, s5: int) -> bool:
    """
    A.insert_workflow(B, predecessors) for A of NA and B of NB tasks: PM = 0 None (all output tasks of A), 1 a single
    Task a_k, 2 a non-empty list (subset of A, ascending or reversed), 3 an explicitly empty list (no connection).  outputs:inputs N:N are connected pairwise in
    order, N:1 all outputs to the input, 1:N the output to all inputs, anything else is refused with ValueError.
    Afterwards the builder holds exactly the tasks of A and B and the edges of A, B and the connection, B is
    unchanged, and the result evaluates to the reference.
    pre: _iw_ok(k, p0, p1, p2)
    post: _ == True
    """
    _fresh()
    s = (s0, s1, s2, s3, s4, s5)
    calls = []
    objs, ea, eb, wa, wbb = _build_ab(a01, a02, a12, b01, b02, b12, s, calls)
    a_nodes = list(range(NA))
    b_nodes = [3 + i for i in range(NB)]
    other = Workflow(wbb)
    if PM == 0:
        outs = _sinks(a_nodes, ea)
        arg = None
    elif PM == 1:
        outs = [i for i in a_nodes if i == k]
        arg = objs[outs[0]]
    elif PM == 3:
        outs = []           # an explicitly empty list: no predecessor (B with one input task is inserted unconnected)
        arg = []
    else:
        outs = [i for i, p in zip(a_nodes, (p0, p1, p2)) if p]
        if len(outs) > 1 and rev:
            outs.reverse()
        arg = [objs[i] for i in outs]
    ins = _sources(b_nodes, eb)
    if len(ins) == len(outs):
        conn = [(o, i) for i, o in zip(ins, outs)]
    elif len(ins) == 1:
        conn = [(o, ins[0]) for o in outs]
    elif len(outs) == 1:
        conn = [(outs[0], i) for i in ins]
    else:
        conn = None
    try:
        if arg is None:
            wa.insert_workflow(other)
        else:
            wa.insert_workflow(other, predecessors=arg)
    except ValueError:
        return conn is None
    if conn is None:
        return False
    edges = ea + eb + conn
    if not _structure_ok_unordered(wa, objs, edges):
        return False
    if not _structure_ok_unordered(other, {u: objs[u] for u in b_nodes}, eb):
        return False
    wf = Workflow(wa)
    nodes = a_nodes + b_nodes
    expected = reference(nodes, edges, {u: (s[u],) for u in nodes}, nodes)
    return _check_exec(wf, nodes, edges, expected, calls)


def insert_workflow__twin(a01: bool, a02: bool, a12: bool, b01: bool, b02: bool, b12: bool,
                          k: int, p0: bool, p1: bool, p2: bool, rev: bool,
                          s0: int, s1: int, s2: int, s3: int, s4: int, s5: int) -> bool:
    """
    pre: _iw_ok(k, p0, p1, p2)
    post: _ == True
    """
    return not insert_workflow(a01, a02, a12, b01, b02, b12, k, p0, p1, p2, rev, s0, s1, s2, s3, s4, s5)


def add_operator(a01: bool, a02: bool, a12: bool, b01: bool, b02: bool, b12: bool,
                 share: bool, as_builder: bool) -> bool:
    """
    `WorkflowBuilder + Workflow` and `Workflow + Workflow`: the sum holds exactly the tasks and edges of both
    operands (a task object present in both appears once), the operands are unchanged; a sum with more than one
    output task cannot be turned into a dask graph (ValueError), a sum with one evaluates to the reference.
    post: _ == True
    """
    _fresh()
    s = (1, 2, 3, 4, 5, 6)
    calls = []
    objs, ea, eb, wa, wbb = _build_ab(a01, a02, a12, b01, b02, b12, s, calls)
    a_nodes = list(range(NA))
    b_nodes = [3 + i for i in range(NB)]
    if share:
        # B additionally contains A's first task, feeding B's first task
        wbb.add_task(objs[0])
        wbb.add_task(objs[3], predecessors=[objs[0]])
        eb = eb + [(0, 3)]
        b_objs = {u: objs[u] for u in b_nodes + [0]}
    else:
        b_objs = {u: objs[u] for u in b_nodes}
    other = Workflow(wbb)
    if as_builder:
        res = wa + other
        if not isinstance(res, WorkflowBuilder):
            return False
        fin = Workflow(res)
    else:
        res = Workflow(wa) + other
        if not isinstance(res, Workflow):
            return False
        fin = res
    edges = ea + eb
    if not _structure_ok_unordered(res, objs, edges) or not _structure_ok_unordered(fin, objs, edges):
        return False
    if not _structure_ok_unordered(wa, {u: objs[u] for u in a_nodes}, ea):
        return False
    if not _structure_ok_unordered(other, b_objs, eb):
        return False
    nodes = a_nodes + b_nodes
    expected = reference(nodes, edges, {u: (s[u],) for u in nodes}, nodes)
    return _check_exec(fin, nodes, edges, expected, calls)


def add_operator__twin(a01: bool, a02: bool, a12: bool, b01: bool, b02: bool, b12: bool,
                       share: bool, as_builder: bool) -> bool:
    """
    post: _ == True
    """
    return not add_operator(a01, a02, a12, b01, b02, b12, share, as_builder)


def _str_ok(a, b, c):
    for x in (a, b, c):
        if len(x) > MAXSTR:
            return False
        if EXCL_RESULTS and x == 'results':
            return False
    return True


def static_str_inputs(e01: bool, e02: bool, e12: bool, a: str, b: str, c: str, k: int) -> bool:
    """
    Static inputs that are strings (any characters, length <= VH_MAXSTR) are passed to the task literally; three
    tasks, same reference as exec_add.  With VH_EXCL_RESULTS=1 the input class of the known finding (a static input
    equal to the dask key 'results') is excluded.
    pre: _str_ok(a, b, c)
    post: _ == True
    """
    _fresh()
    calls = []
    tasks = [Task('t0', _mk(0, calls), a), Task('t1', _mk(1, calls), k, b), Task('t2', _mk(2, calls), c)]
    edges = [(i, j) for (i, j), e in zip(PAIRS[:3], (e01, e02, e12)) if e]
    wb = WorkflowBuilder()
    for j in range(3):
        p = [tasks[i] for (i, jj) in edges if jj == j]
        wb.add_task(tasks[j], predecessors=p if p else None)
    wf = Workflow(wb)
    nodes = [0, 1, 2]
    expected = reference(nodes, edges, [(a,), (k, b), (c,)], nodes)
    try:
        return _check_exec(wf, nodes, edges, expected, calls)
    except RuntimeError:
        return False          # dask: "Cycle detected"


def static_str_inputs__twin(e01: bool, e02: bool, e12: bool, a: str, b: str, c: str, k: int) -> bool:
    """
    pre: _str_ok(a, b, c)
    pre: e01 and e12 and len(a) == 2
    post: _ == True
    """
    return not static_str_inputs(e01, e02, e12, a, b, c, k)


def keys_unique(e01: bool, e02: bool, e12: bool, same_names: bool, n: int) -> bool:
    """
    Task keys of the dask graph are unique within one graph and across graphs (sub-workflows started with
    call_workflow share one scheduler, so two graphs of the same shape must not share task keys; only the sink alias
    'results' is common).  Two workflows of the same symbolic shape, n in 1..3 tasks, optionally with identical task names.
    pre: 1 <= n <= 3
    post: _ == True
    """
    _fresh()
    dicts = []
    for w in range(2):
        calls = []
        tasks = [Task(f't{i}' if same_names else f'w{w}t{i}', _mk(i, calls), i) for i in range(n)]
        edges = [(i, j) for (i, j), e in zip(PAIRS[:3], (e01, e02, e12)) if e and j < n]
        wb = WorkflowBuilder()
        for j in range(n):
            p = [tasks[i] for (i, jj) in edges if jj == j]
            wb.add_task(tasks[j], predecessors=p if p else None)
        wf = Workflow(wb)
        if len(wf.output_tasks) != 1:
            return True
        d = wf.as_dask_dict()
        if len(d) != n or 'results' not in d:       # the sink is keyed 'results', every other task has its own key
            return False
        dicts.append(d)
    return (set(dicts[0]) & set(dicts[1])) <= {'results'}


def keys_unique__twin(e01: bool, e02: bool, e12: bool, same_names: bool, n: int) -> bool:
    """
    pre: 1 <= n <= 3
    pre: n == 2 and e01
    post: _ == True
    """
    return not keys_unique(e01, e02, e12, same_names, n)


def exec_models(e01: bool, m0: bool, m1: bool, m2: bool, rev: bool, s0: int) -> bool:
    """
    execute_workflow on t0, t1 -> t2 (and optionally t0 -> t1) where a task may take a (real, empty) Model as its
    second static input: the dispatched workflow evaluates to the reference value, i.e. the join task receives the
    results of its predecessors in the declared order whichever of them take a model.  Flags are fixed per path; the
    workflow code then runs outside tracing.
    pre: -1 <= s0 <= 1
    post: _ == True
    """
    try:
        from crosshair.tracers import NoTracing
    except ImportError:
        import contextlib
        NoTracing = contextlib.nullcontext
    args = tuple(bool(_pick(1 if b else 0, 0, 2)) for b in (e01, m0, m1, m2, rev)) + (_pick(s0, -1, 2),)
    with NoTracing():
        return _exec_models(*args)


def _exec_models(e01, m0, m1, m2, rev, s0):
    from pharmpy.model import Model
    _fresh()
    mdl = Model()
    calls = []

    def mk(i):
        def f(*a):
            calls.append(i)
            return (i, tuple('M' if isinstance(x, Model) else x for x in a))
        return f
    flags = (m0, m1, m2)
    tasks = [Task(f't{i}', mk(i), *((s0 + i, mdl) if flags[i] else (s0 + i,))) for i in range(3)]
    wb = WorkflowBuilder(name='wfm')
    wb.add_task(tasks[0])
    wb.add_task(tasks[1], predecessors=[tasks[0]] if e01 else None)
    preds = [tasks[1], tasks[0]] if rev else [tasks[0], tasks[1]]
    wb.add_task(tasks[2], predecessors=preds)
    wf = Workflow(wb)
    disp = _Dispatcher()
    got = X.execute_workflow(wf, dispatcher=disp, context=7)

    def stat(i):
        return (s0 + i, 'M') if flags[i] else (s0 + i,)
    v0 = (0, stat(0))
    v1 = (1, stat(1) + ((v0,) if e01 else ()))
    # predecessor results in the order the predecessors entered the workflow (t0 before t1)
    want = (2, stat(2) + (v0, v1))
    return got == want and sorted(calls) == [0, 1, 2]


def exec_models__twin(e01: bool, m0: bool, m1: bool, m2: bool, rev: bool, s0: int) -> bool:
    """
    pre: -1 <= s0 <= 1
    post: _ == True
    """
    return not exec_models(e01, m0, m1, m2, rev, s0)


def _pick(x, lo, hi):
    while hi - lo > 1:
        mid = (lo + hi) // 2
        if x < mid:
            hi = mid
        else:
            lo = mid
    return lo


def replicates(n: int, same_input: bool, s: int, via_insert: bool) -> bool:
    """
    The four parameters are fixed per path (bisection); the workflow code then runs outside tracing.
    pre: 1 <= n <= 4 and -2 <= s <= 2
    post: _ == True
    """
    try:
        from crosshair.tracers import NoTracing
    except ImportError:
        import contextlib
        NoTracing = contextlib.nullcontext
    args = (_pick(n, 1, 5), bool(_pick(1 if same_input else 0, 0, 2)), _pick(s, -2, 3),
            bool(_pick(1 if via_insert else 0, 0, 2)))
    with NoTracing():
        return _replicates(*args)


def _replicates(n, same_input, s, via_insert):
    """
    A start task followed by n value-equal tasks (same name, same function object, equal static input unless
    same_input is False) feeding one gather task: a workflow holds the tasks that were declared, not their values.
    The builder and the workflow hold n + 2 tasks, the gather task gets n results, the shared function runs n times.
    via_insert: each replicate is a one-task sub-workflow inserted with insert_workflow(sub, predecessors=start).
    pre: 1 <= n <= 4 and -2 <= s <= 2
    post: _ == True
    """
    _fresh()
    calls = []

    def start():
        return 0

    def sim(x, st):
        calls.append(x)
        return x + 10 + st

    def gather(*a):
        return a
    wb = WorkflowBuilder(name='rep')
    t0 = Task('start', start)
    wb.add_task(t0)
    reps = []
    for i in range(n):
        t = Task('sim', sim, s if same_input else s + i)
        reps.append(t)
        if via_insert:
            sub = WorkflowBuilder(name='sub')
            sub.add_task(t)
            wb.insert_workflow(sub, predecessors=t0)
        else:
            wb.add_task(t, predecessors=t0)
    wb.add_task(Task('gather', gather), predecessors=reps)
    wf = Workflow(wb)
    if len(wb) != n + 2 or len(wf) != n + 2 or len(wf.tasks) != n + 2:
        return False
    if len(wf.input_tasks) != 1 or len(wf.output_tasks) != 1 or len(wf.get_successors(t0)) != n:
        return False
    got = _get(wf.as_dask_dict())
    want = tuple((s if same_input else s + i) + 10 for i in range(n))
    return got == want and len(calls) == n


def replicates__twin(n: int, same_input: bool, s: int, via_insert: bool) -> bool:
    """
    pre: 1 <= n <= 4 and -2 <= s <= 2
    post: _ == True
    """
    return not replicates(n, same_input, s, via_insert)


# ---------------------------------------------------------------------------------------------------------
# warm-up: networkx compiles its dispatch wrappers lazily with exec(), which fails under CrossHair's tracing; run
# every obligation once concretely at import so that all networkx entry points used above are already built.

def _warm():
    global N, EPIN, NA, NB, PM, VARIANTS, APIN
    saved = (N, EPIN, NA, NB, PM, VARIANTS, APIN)
    ok = []
    try:
        T, F = True, False
        EPIN, VARIANTS, APIN = '', True, ''
        N = 4
        ok.append(exec_add(T, T, T, F, F, T, F, F, F, F, T, F, 1, 2, 3, 4, 5))
        N = 3
        ok.append(exec_add(T, F, T, F, F, F, F, F, F, F, F, T, 1, 2, 3, 4, 5))
        ok.append(exec_context(T, T, T, F, F, F, F, F, F, F, T, F, T, F, F, 9, 1, 2, 3, 4, 5))
        ok.append(insert_context_structure(T, T, T, F, F, F, F, F, F, F, T, F, F, F, F, 9))
        ok.append(replace_task(T, T, T, F, F, F, F, F, F, F, 0, 1, 2, 3, 4, 5, 6))
        NA, NB, PM = 3, 3, 0
        ok.append(insert_workflow(T, F, F, F, F, T, 0, F, F, F, F, 1, 2, 3, 4, 5, 6))
        PM = 2
        ok.append(insert_workflow(F, F, F, F, F, F, 0, T, T, F, T, 1, 2, 3, 4, 5, 6))
        NA, NB, PM = 2, 2, 1
        ok.append(insert_workflow(T, F, F, T, F, F, 1, F, F, F, F, 1, 2, 3, 4, 5, 6))
        ok.append(add_operator(T, F, F, T, F, F, T, T))
        ok.append(add_operator(T, F, F, T, F, F, F, F))
        ok.append(static_str_inputs(T, F, T, 'ab', 'c', '', 1))
        ok.append(keys_unique(T, F, T, T, 3))
        w = WorkflowBuilder()
        t = Task('w', _mk(0, []), 1)
        w.add_task(t)
        Workflow(w).get_upstream_tasks(t)
    finally:
        N, EPIN, NA, NB, PM, VARIANTS, APIN = saved
    return ok


WARM = _warm()
