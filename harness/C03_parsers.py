"""C03 obligation 0 — the REAL lark record parsers on symbolic texts: the parser rejects T (LarkError) or str(root) == T,
and the same through NMTranParser on '$REC' + T.  Nothing is stubbed here (lark's lexer realises the text at each Token,
which is why the bound is tiny)."""
import os
import warnings

warnings.simplefilter('ignore')

import lark  # noqa: E402

from pharmpy.model import ModelSyntaxError  # noqa: E402
from pharmpy.model.external.nonmem.nmtran_parser import NMTranParser  # noqa: E402
from pharmpy.model.external.nonmem.records import parsers as P  # noqa: E402

NL = chr(10)
TAB = chr(9)
CR = chr(13)

# parser -> (class name, record name for the NMTranParser variant, alphabet <= 7 characters: always space ; newline
# plus the record's digit / letter / bracket / operator classes)
TABLE = {
    'theta': ('ThetaRecordParser', '$THETA', ' ;' + NL + '1(,F'),
    'omega': ('OmegaRecordParser', '$OMEGA', ' ;' + NL + '1(B)'),
    'option': ('OptionRecordParser', '$INPUT', ' ;' + NL + 'A=()'),
    'data': ('DataRecordParser', '$DATA', ' ;' + NL + 'a=(*'),
    'code': ('CodeRecordParser', '$PK', ' ;' + NL + 'A=1+'),
    'problem': ('ProblemRecordParser', '$PROBLEM', ' ;' + NL + 'A' + TAB + CR + '1'),
    'simulation': ('SimulationRecordParser', '$SIMULATION', ' ;' + NL + '(1)='),
}

WHICH = os.environ.get('VH_PARSER', 'theta')
CLSNAME, RECNAME, ALPHA = TABLE[WHICH]
PARSER = getattr(P, CLSNAME)
MAXLEN = int(os.environ.get('VH_MAXLEN', '2'))
LEN = int(os.environ.get('VH_LEN', '-1'))
FIRST = int(os.environ.get('VH_FIRST', '-1'))
SECOND = int(os.environ.get('VH_SECOND', '-1'))

# warm-up outside tracing (lark builds its lexer tables lazily)
for _w in (' ', '1', NL):
    try:
        PARSER(_w)
    except lark.exceptions.LarkError:
        pass
try:
    NMTranParser().parse(RECNAME + ' ')
except (lark.exceptions.LarkError, ModelSyntaxError):
    pass


def _split(s):
    if LEN >= 0 and len(s) != LEN:
        return False
    if FIRST >= 0 and (len(s) < 1 or s[0] != ALPHA[FIRST]):
        return False
    if SECOND >= 0 and (len(s) < 2 or s[1] != ALPHA[SECOND]):
        return False
    return True


def roundtrip(s: str) -> bool:
    """
    pre: len(s) <= MAXLEN and _split(s)
    pre: all(c in ALPHA for c in s)
    post: _ == True
    """
    try:
        root = PARSER(s).root
    except lark.exceptions.LarkError:
        return True
    return str(root) == s


def roundtrip_stream(s: str) -> bool:
    """
    The same text as the content of a record of a control stream: str(NMTranParser().parse('$REC' + T)) == '$REC' + T.
    pre: len(s) <= MAXLEN and _split(s)
    pre: all(c in ALPHA for c in s)
    post: _ == True
    """
    text = RECNAME + s
    try:
        stream = NMTranParser().parse(text)
    except (lark.exceptions.LarkError, ModelSyntaxError):
        return True
    return str(stream) == text and len(stream.records) == 1


def accepted(s):
    try:
        PARSER(s)
    except lark.exceptions.LarkError:
        return False
    return True


def roundtrip__twin(s: str) -> bool:
    """
    Reachability: some text in the bound is accepted (and round-trips).
    pre: len(s) <= MAXLEN and _split(s)
    pre: all(c in ALPHA for c in s)
    pre: accepted(s)
    post: _ == True
    """
    return not roundtrip(s)


def roundtrip_stream__twin(s: str) -> bool:
    """
    pre: len(s) <= MAXLEN and _split(s)
    pre: all(c in ALPHA for c in s)
    pre: accepted(s)
    post: _ == True
    """
    return not roundtrip_stream(s)
