"""C19 — information criteria and likelihood-ratio functions: z3 `Real` terms are passed THROUGH the real pharmpy
functions (`calculate_aic`, `calculate_bic`, `lrt.test`, `lrt.p_value`) on concrete corpus models and the returned
term is compared with the documented formula by z3 (`unsat` of the negation = holds for every real likelihood).

The counts that enter the formulas are obtained independently of pharmpy's model objects:
  * numbers of parameters: an own reader of the $THETA/$OMEGA/$SIGMA records of the NONMEM code (`model.code` for
    derived models), FIX and SAME honoured;
  * individuals / observations: an own reader of the data file named in $DATA (IGNORE=@, IGNORE(MDV.NEN.0)),
    observation = record with MDV == 0, else EVID == 0, else AMT == 0 (NONMEM's rule);
  * random / fixed split for the `mixed` BIC: table written by hand from the control streams (a population parameter
    is `random` if it is an OMEGA or enters an individual parameter that carries an ETA, else `fixed`);
  * chi-square tail and quantile: own regularised incomplete gamma function (series / continued fraction) + bisection.

Every obligation is a function returning True iff the property holds (`post: _ == True`); `<name>__twin` runs the same
query against a deliberately wrong reference and must be refuted (`sat`), which shows that the query is not vacuous.
Run as a script it prints one JSON line per obligation (used by checks/C19.py); on `sat` the z3 model is replayed
with Python floats on the real function before it is called a violation.
"""
import json
import math
import os
import re
import sys
import time

import z3

import pharmpy.modeling.lrt as LRT
from pharmpy.modeling import (
    add_peripheral_compartment,
    calculate_aic,
    calculate_bic,
    fix_parameters,
    load_example_model,
    remove_iiv,
    set_combined_error_model,
)

TOL = 1e-9
EXAMPLES = os.path.join(os.path.dirname(os.path.abspath(sys.modules['pharmpy'].__file__)), 'internals',
                        'example_models')


# ---------------------------------------------------------------------------------------------------------
# independent counting

def _records(code):
    """{'THETA': [text, ...], ...} with comments removed and continuation lines joined."""
    recs = {}
    cur = None
    for line in code.splitlines():
        line = line.split(';')[0]
        m = re.match(r'\s*\$([A-Za-z]+)(.*)', line)
        if m:
            cur = m.group(1).upper()
            for full in ('THETA', 'OMEGA', 'SIGMA', 'INPUT', 'DATA'):
                if full.startswith(cur[:3]) and cur[:3] == full[:3]:
                    cur = full
            recs.setdefault(cur, []).append(m.group(2))
        elif cur is not None:
            recs[cur][-1] += ' ' + line
    return recs


_NUM = r'[-+]?(?:\d+\.?\d*|\.\d+)(?:[EeDd][-+]?\d+)?'


def count_parameters(code):
    """(estimated, total) numbers of THETA, OMEGA, SIGMA parameters from the records."""
    recs = _records(code)
    out = {}
    n_est = n_tot = 0
    for text in recs.get('THETA', []):
        # every parenthesised group or bare number is one theta
        items = re.findall(r'\([^)]*\)(?:\s*FIX(?:ED)?)?|' + _NUM + r'(?:\s*FIX(?:ED)?)?', text, flags=re.I)
        for it in items:
            n_tot += 1
            if not re.search(r'FIX', it, flags=re.I):
                n_est += 1
    out['theta'] = (n_est, n_tot)
    for kind in ('OMEGA', 'SIGMA'):
        e = t = 0
        for text in recs.get(kind, []):
            up = text.upper()
            if 'SAME' in up:
                continue
            mb = re.search(r'BLOCK\s*\(\s*(\d+)\s*\)', up)
            body = re.sub(r'(BLOCK|DIAGONAL)\s*\(\s*\d+\s*\)', ' ', up)
            nums = re.findall(_NUM, re.sub(r'FIX(ED)?', ' ', body))
            if mb:
                k = int(mb.group(1))
                cnt = k * (k + 1) // 2
                if len(nums) != cnt:
                    raise ValueError(f'cannot read {kind} block: {text!r}')
                fixed = 'FIX' in body
                t += cnt
                e += 0 if fixed else cnt
            else:
                # diagonal entries, FIX applies to the entry it follows
                for m in re.finditer('(' + _NUM + r')(\s*FIX(?:ED)?)?', body):
                    t += 1
                    if not m.group(2):
                        e += 1
        out[kind.lower()] = (e, t)
    return out


def count_data(modfile):
    """(individuals, observations) of the data set of a corpus control stream, read from the file."""
    with open(modfile) as f:
        recs = _records(f.read())
    cols = []
    for tok in ' '.join(recs['INPUT']).split():
        cols.append(tok.split('=')[0].upper())
    data = ' '.join(recs['DATA'])
    fname = data.split()[0]
    path = os.path.join(os.path.dirname(modfile), fname)
    drop_mdv = bool(re.search(r'IGNORE\s*\(\s*MDV\.NEN?\.0\s*\)', data, flags=re.I))
    rows = []
    with open(path) as f:
        for line in f:
            s = line.strip()
            if not s or re.match(r'[A-Za-z@#]', s):        # IGNORE=@
                continue
            vals = [float(x) for x in re.split(r'[,\s]+', s) if x != '']
            rows.append(dict(zip(cols, vals)))
    if drop_mdv:
        rows = [r for r in rows if r['MDV'] == 0]
    ids = []
    for r in rows:
        if r['ID'] not in ids:
            ids.append(r['ID'])
    if 'MDV' in cols:
        obs = [r for r in rows if r['MDV'] == 0]
    elif 'EVID' in cols:
        obs = [r for r in rows if r['EVID'] == 0]
    elif 'AMT' in cols:
        obs = [r for r in rows if r['AMT'] == 0]
    else:
        obs = rows
    return len(ids), len(obs)


# own chi-square: regularised incomplete gamma (Numerical Recipes gser / gcf)
def _gammap(a, x):
    if x <= 0:
        return 0.0
    if x < a + 1:
        ap, s, d = a, 1.0 / a, 1.0 / a
        for _ in range(10000):
            ap += 1
            d *= x / ap
            s += d
            if abs(d) < abs(s) * 1e-16:
                break
        return s * math.exp(-x + a * math.log(x) - math.lgamma(a))
    return 1.0 - _gammaq_cf(a, x)


def _gammaq_cf(a, x):
    tiny = 1e-300
    b = x + 1 - a
    c = 1 / tiny
    d = 1 / b
    h = d
    for i in range(1, 10000):
        an = -i * (i - a)
        b += 2
        d = an * d + b
        d = tiny if abs(d) < tiny else d
        c = b + an / c
        c = tiny if abs(c) < tiny else c
        d = 1 / d
        de = d * c
        h *= de
        if abs(de - 1) < 1e-16:
            break
    return math.exp(-x + a * math.log(x) - math.lgamma(a)) * h


def chi2_sf(x, df):
    if x <= 0:
        return 1.0
    a = df / 2
    return 1.0 - _gammap(a, x / 2) if x / 2 < a + 1 else _gammaq_cf(a, x / 2)


def chi2_isf(q, df):
    lo, hi = 0.0, 1.0
    while chi2_sf(hi, df) > q:
        hi *= 2
    for _ in range(200):
        mid = (lo + hi) / 2
        if chi2_sf(mid, df) > q:
            lo = mid
        else:
            hi = mid
    return (lo + hi) / 2


# ---------------------------------------------------------------------------------------------------------
# corpus

_CACHE = {}


def _shared_theta(pheno):
    """a population parameter shared by an individual parameter with ETA (visited first) and one without."""
    m = remove_iiv(pheno, 'VC')
    st = m.statements.reassign('TVCL', 'POP_CL*WGT*(1 + COVAPGR)')
    return m.replace(statements=st).update_source()


def corpus():
    """name -> dict(model, est, tot, nomega_est, ids, obs, mixed) with independently derived counts."""
    if _CACHE:
        return _CACHE
    pheno = load_example_model('pheno')
    base = {
        'pheno': pheno,
        'pheno_linear': load_example_model('pheno_linear'),
        'moxo': load_example_model('moxo'),
        'pheno+peripheral': add_peripheral_compartment(pheno),
        'pheno,IIV_CL fixed': fix_parameters(pheno, ['IIV_CL']),
        'pheno,COVAPGR fixed': fix_parameters(pheno, ['COVAPGR']),
        'pheno-iiv(CL)': remove_iiv(pheno, 'CL'),
        'pheno,combined error': set_combined_error_model(pheno),
        'pheno,shared theta': _shared_theta(pheno),
    }
    # (random, fixed) for the mixed BIC, by hand from the control streams; a list = admissible readings
    mixed = {
        'pheno': [(5, 1)],                  # thetas 1-3 enter CL/VC (ETA), 2 omegas | sigma (Y has no ETA in $ERROR)
        'pheno+peripheral': [(5, 3)],       # QP1, VP1 carry no ETA
        'pheno,IIV_CL fixed': [(4, 1)],
        'pheno,COVAPGR fixed': [(4, 1)],
        'pheno-iiv(CL)': [(3, 2)],          # CL without ETA: POP_CL fixed
        'pheno,combined error': [(5, 2)],
        # COVAPGR enters CL (with ETA) and VC (whose ETA is removed): it is random; POP_VC and sigma are fixed
        'pheno,shared theta': [(3, 2)],
        'pheno_linear': [(3, 0), (2, 1)],   # $PRED: Y carries ETAs -> sigma random; (2,1) if sigma is read as fixed
    }
    data = {}
    for name in ('pheno', 'pheno_linear'):
        data[name] = count_data(os.path.join(EXAMPLES, name + '.mod'))
    for name, model in base.items():
        cnt = count_parameters(model.code)
        est = sum(v[0] for v in cnt.values())
        tot = sum(v[1] for v in cnt.values())
        d = data.get('pheno_linear' if name == 'pheno_linear' else ('pheno' if name.startswith('pheno') else None))
        _CACHE[name] = dict(model=model, est=est, tot=tot, nomega_est=cnt['omega'][0],
                            ids=d[0] if d else None, obs=d[1] if d else None, mixed=mixed.get(name))
    return _CACHE


def _prove(claim, timeout_ms=20000):
    """('unsat', None) if claim holds for all reals, ('sat', model) with a counterexample, else ('unknown', None)."""
    s = z3.Solver()
    s.set('timeout', timeout_ms)
    s.add(z3.Not(claim))
    r = s.check()
    if r == z3.unsat:
        return 'unsat', None
    if r == z3.sat:
        return 'sat', s.model()
    return 'unknown', None


def _fl(model, var):
    v = model.eval(var, model_completion=True)
    return float(v.numerator_as_long()) / float(v.denominator_as_long())


class Outcome(Exception):
    def __init__(self, verdict, detail):
        self.verdict, self.detail = verdict, detail


def _decide(claim, variables, replay):
    """Decide a universally quantified claim; on `sat` replay the model with floats through `replay(values)` which
    returns (ok, description)."""
    r, m = _prove(claim)
    if r == 'unsat':
        return True
    if r == 'unknown':
        raise Outcome('inconclusive', 'z3 unknown')
    vals = [_fl(m, v) for v in variables]
    ok, desc = replay(vals)
    if ok:
        raise Outcome('inconclusive', f'z3 model {vals} did not reproduce in floats: {desc}')
    raise Outcome('violated', desc)


# ---------------------------------------------------------------------------------------------------------
# obligations

def aic_formula(case: str, wrong: int = 0) -> bool:
    """
    calculate_aic(model, L) == L + 2 * (number of estimated parameters), for every real L.
    post: _ == True
    """
    c = corpus()[case]
    L = z3.Real('L')
    got = calculate_aic(c['model'], L)
    n = c['est'] + wrong

    def replay(vals):
        g = calculate_aic(c['model'], vals[0])
        return abs(g - (vals[0] + 2 * n)) <= TOL * max(1, abs(g)), \
            f'calculate_aic({case}, {vals[0]}) = {g}, documented -2LL + 2*{n} = {vals[0] + 2 * n}'
    return _decide(got == L + 2 * n, [L], replay)


def _bic_penalties(c, type_, wrong=0):
    lN, lobs = math.log(c['ids']), math.log(c['obs'])
    if type_ == 'fixed':
        return [(c['est'] + wrong) * lobs]
    if type_ == 'random':
        return [(c['est'] + wrong) * lN]
    if type_ == 'iiv':
        return [(c['nomega_est'] + wrong) * lN]
    return [(r + wrong) * lN + f * lobs for r, f in c['mixed']]


def bic_formula(case: str, type_: str, wrong: int = 0) -> bool:
    """
    calculate_bic(model, L, type) == L + documented penalty, for every real L (tolerance 1e-9 for the order of the
    floating point additions inside the penalty):
      mixed: n_random*log(n_individuals) + n_fixed*log(n_observations); fixed: n_estimated*log(n_observations);
      random: n_estimated*log(n_individuals); iiv: n_estimated_iiv_omegas*log(n_individuals).
    post: _ == True
    """
    c = corpus()[case]
    L = z3.Real('L')
    got = calculate_bic(c['model'], L, type=type_)
    pens = _bic_penalties(c, type_, wrong)
    claim = z3.Or([z3.And(got - (L + p) <= TOL, (L + p) - got <= TOL) for p in pens])

    def replay(vals):
        g = calculate_bic(c['model'], vals[0], type=type_)
        ok = any(abs(g - (vals[0] + p)) <= 1e-7 for p in pens)
        return ok, (f'calculate_bic({case}, {vals[0]}, type={type_!r}) = {g}; documented penalty/ies '
                    f'{[round(p, 6) for p in pens]} (estimated={c["est"]}, individuals={c["ids"]}, '
                    f'observations={c["obs"]}, random/fixed={c["mixed"]}) give {[vals[0] + p for p in pens]}')
    return _decide(claim, [L], replay)


def _ref_cutoff(df, alpha):
    if df == 0:
        return 0.0
    return chi2_isf(alpha, df) if df > 0 else -chi2_isf(alpha, -df)


def lrt_test_formula(parent: str, child: str, alpha: float, wrong: int = 0) -> bool:
    """
    lrt.test(parent, child, Lp, Lc, alpha) <=> Lp - Lc >= cutoff, cutoff = +-chi2.isf(alpha, |df|) (0 for df = 0),
    df = difference of the numbers of parameters, for all real Lp, Lc outside a 1e-6 band around the cut-off (own
    chi-square quantile vs scipy's); lrt.cutoff and lrt.degrees_of_freedom return these numbers.
    post: _ == True
    """
    p, c = corpus()[parent], corpus()[child]
    df = c['tot'] - p['tot'] + wrong
    cut = _ref_cutoff(df, alpha)
    if not wrong:
        if LRT.degrees_of_freedom(p['model'], c['model']) != df:
            raise Outcome('violated', f'degrees_of_freedom({parent}, {child}) = '
                                      f'{LRT.degrees_of_freedom(p["model"], c["model"])}, counted {df}')
        got_cut = LRT.cutoff(p['model'], c['model'], alpha)
        if abs(got_cut - cut) > 1e-6 * max(1, abs(cut)):
            raise Outcome('violated', f'lrt.cutoff({parent}, {child}, {alpha}) = {got_cut}, chi-square quantile '
                                      f'for df={df}: {cut}')
    Lp, Lc = z3.Reals('Lp Lc')
    got = LRT.test(p['model'], c['model'], Lp, Lc, alpha)
    d = Lp - Lc
    band = z3.And(d - cut <= 1e-6, cut - d <= 1e-6)
    claim = z3.Or(band, got == (d >= cut))

    def replay(vals):
        g = bool(LRT.test(p['model'], c['model'], vals[0], vals[1], alpha))
        want = vals[0] - vals[1] >= cut
        return g == want, (f'lrt.test({parent}, {child}, {vals[0]}, {vals[1]}, {alpha}) = {g}; dOFV = '
                           f'{vals[0] - vals[1]}, cut-off for df={df}: {cut}')
    return _decide(claim, [Lp, Lc], replay)


class _RecChi2:
    def __init__(self):
        self.calls = []

    def sf(self, x, df):
        self.calls.append((x, df))
        return 0.25


class _RecStats:
    def __init__(self):
        self.chi2 = _RecChi2()


def lrt_pvalue_formula(reduced: str, extended: str, wrong: int = 0) -> bool:
    """
    lrt.p_value(reduced, extended, Lr, Le) = chi2.sf(Lr - Le, df): with scipy's chi2 replaced by a recorder the real
    function passes exactly the term Lr - Le (z3: equal for all reals) and df = difference of parameter counts and
    returns the tail value; with the real scipy the value agrees with the own chi-square tail at 5 concrete points.
    post: _ == True
    """
    p, c = corpus()[reduced], corpus()[extended]
    df = c['tot'] - p['tot'] + wrong
    Lr, Le = z3.Reals('Lr Le')
    saved = LRT.stats
    rec = _RecStats()
    LRT.stats = rec
    try:
        ret = LRT.p_value(p['model'], c['model'], Lr, Le)
    finally:
        LRT.stats = saved
    if len(rec.chi2.calls) != 1 or ret != 0.25:
        raise Outcome('violated', f'p_value did not return chi2.sf(...) once: calls={rec.chi2.calls!r} ret={ret!r}')
    x, dfgot = rec.chi2.calls[0]
    if dfgot != df:
        if wrong:
            return False
        raise Outcome('violated', f'p_value({reduced}, {extended}) uses df={dfgot}, counted {df}')
    if not wrong and df > 0:
        for dofv in (0.5, 1.0, 3.84, 7.5, 20.0):
            g = LRT.p_value(p['model'], c['model'], 100.0 + dofv, 100.0)
            w = chi2_sf(dofv, df)
            if abs(g - w) > 1e-9 + 1e-7 * w:
                raise Outcome('violated', f'p_value({reduced}, {extended}, {100 + dofv}, 100) = {g}; chi-square '
                                          f'tail sf({dofv}, df={df}) = {w}')

    def replay(vals):
        return False, f'p_value passes {x} to chi2.sf instead of Lr - Le (Lr={vals[0]}, Le={vals[1]})'
    return _decide(x == Lr - Le, [Lr, Le], replay)


# ---------------------------------------------------------------------------------------------------------

BIC_TYPES = ('mixed', 'fixed', 'random', 'iiv')
LRT_PAIRS = [('pheno_linear', 'pheno'), ('pheno', 'pheno_linear'), ('pheno', 'pheno+peripheral'),
             ('pheno', 'pheno-iiv(CL)'), ('pheno', 'moxo'), ('pheno', 'pheno,combined error'),
             ('pheno', 'pheno')]
ALPHAS = (0.05, 0.01, 0.001)


def obligations(tier='quick'):
    obs = []
    names = list(corpus())
    for n in names:
        obs.append((f'aic[{n}]', aic_formula, (n,)))
    for n in names:
        if corpus()[n]['ids'] is None:
            continue
        for t in BIC_TYPES:
            obs.append((f'bic[{n},{t}]', bic_formula, (n, t)))
    pairs = LRT_PAIRS if tier == 'thorough' else LRT_PAIRS[:5] + LRT_PAIRS[6:]
    for (a, b) in pairs:
        for al in (ALPHAS if tier == 'thorough' else ALPHAS[:2]):
            obs.append((f'lrt_test[{a}->{b},{al}]', lrt_test_formula, (a, b, al)))
        obs.append((f'lrt_pvalue[{a}->{b}]', lrt_pvalue_formula, (a, b)))
    # twins: the same queries against a reference that is off by one parameter must be refuted
    obs.append(('aic__twin', aic_formula, ('pheno', 1)))
    obs.append(('bic__twin', bic_formula, ('pheno', 'mixed', 1)))
    obs.append(('lrt_test__twin', lrt_test_formula, ('pheno_linear', 'pheno', 0.05, 1)))
    obs.append(('lrt_pvalue__twin', lrt_pvalue_formula, ('pheno_linear', 'pheno', 1)))
    return obs


def main():
    tier = sys.argv[1] if len(sys.argv) > 1 else 'quick'
    only = sys.argv[2] if len(sys.argv) > 2 else None
    t0 = time.time()
    corpus()
    print(json.dumps(dict(setup_s=round(time.time() - t0, 2),
                          corpus={k: {x: v[x] for x in ('est', 'tot', 'nomega_est', 'ids', 'obs', 'mixed')}
                                  for k, v in corpus().items()})))
    for name, fn, args in obligations(tier):
        if only and only != name:
            continue
        t = time.time()
        twin = name.endswith('__twin')
        try:
            ok = fn(*args)
            verdict, detail = ('discharged' if ok else 'violated'), ''
            if twin:
                verdict = 'vacuous' if ok else 'witness-ok'
        except Outcome as o:
            verdict, detail = o.verdict, o.detail
            if twin:
                verdict = 'witness-ok' if o.verdict == 'violated' else 'inconclusive'
        except Exception as e:      # noqa
            verdict, detail = 'error', f'{type(e).__name__}: {e}'
        print(json.dumps(dict(name=name, verdict=verdict, time=round(time.time() - t, 3), detail=detail,
                              func=fn.__name__, args=list(args))))
        sys.stdout.flush()


if __name__ == '__main__':
    main()
