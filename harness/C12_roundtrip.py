"""C12 — serialisation round trips of the Expr-free components.

rt_*   : x built from symbolic field values with the plain constructor; d = x.to_dict() must consist of JSON types only
         (dict with str keys, list/tuple, str, int, float, bool, None), must not change x, and from_dict(d) == x.
json_* : the same through JSON: d2 = json.loads(json.dumps(d)); d2 == d up to tuple -> list, and from_dict(d2) == x.
         On symbolic paths JSON is the structural model `jsonify` (the documented behaviour of the json module on
         JSON-typed data: arrays come back as lists, everything else unchanged, a non-JSON value raises TypeError);
         a failing path is re-decided with the real json module on the realised objects.  The model is compared with
         the real module on concrete samples at import, and jsonreal_* run the real module on every path (tiny domains).

Failing objects count only if reachable (create() reproduces their fields), see C06_build.  Stubs: C06_build
(structural hash because Parameter(s).__eq__ compare hashes, np.isnan, Unit memo) plus the JSON model above.
"""
import datetime
import json
import os

from C06_build import (D, P, R, X, KEYS, decide_real, frozenmapping, install_structural_hash, mk_cats,
                       mk_col, mk_di, mk_est, mk_opts, mk_param, mk_params, mk_sim, mk_steps, mk_strs, mk_vh, mk_vl,
                       reachable, same_fields, small, snapshot, unchanged)
from pharmpy.workflows.log import LogEntry

install_structural_hash()

STRLEN = int(os.environ.get('VH_STRLEN', '3'))
MAXN = int(os.environ.get('VH_MAXN', '2'))
NU = int(os.environ.get('VH_NU', '2'))
NK = int(os.environ.get('VH_NK', '2'))
CATK = int(os.environ.get('VH_CATK', '0'))          # categories kind of the column (see C06_build.mk_cats)
SHAPE = tuple(int(x) for x in os.environ.get('VH_SHAPE', '1,1').split(','))   # EstimationStep: #res/pred, #tool options
OPTF = int(os.environ.get('VH_OPTF', '0'))          # which option field ranges over its whole table
SIMONLY = os.environ.get('VH_SIMONLY', '0') == '1'  # ExecutionSteps: simulation steps only


# ---------------------------------------------------------------------------------------------------------
# JSON

class NotJson(Exception):
    pass


def json_types_only(v, depth=0):
    """Structural check: JSON object/array/string/number/true/false/null only (tuple accepted as array)."""
    if v is None or isinstance(v, (bool, int, float, str)):
        return True
    if depth > 8:
        return False
    if isinstance(v, (list, tuple)):
        for e in v:
            if not json_types_only(e, depth + 1):
                return False
        return True
    if isinstance(v, dict):
        for k, e in v.items():
            if not isinstance(k, str) or not json_types_only(e, depth + 1):
                return False
        return True
    return False


def jsonify(v):
    """Model of json.loads(json.dumps(v)) on JSON-typed data."""
    if v is None or isinstance(v, (bool, int, float, str)):
        return v
    if isinstance(v, (list, tuple)):
        return [jsonify(e) for e in v]
    if isinstance(v, dict):
        out = {}
        for k, e in v.items():
            if not isinstance(k, str):
                raise NotJson('key')
            out[k] = jsonify(e)
        return out
    raise NotJson(type(v).__name__)


def real_json(v):
    try:
        return json.loads(json.dumps(v))
    except TypeError as e:
        raise NotJson(str(e))


def _selftest_json_model():
    inf = float('inf')
    samples = [
        {'a': ('x', 1, 2.5, True, None), 'b': {'c': [(), {}], 'd': -inf}, 'e': 'q"\\\né', 'f': 0.1, 'g': -0.0},
        {'parameters': ({'name': '', 'init': 1e-320, 'lower': -inf, 'upper': inf, 'fix': False},)},
        [], {}, 'x', 3, None,
    ]
    for s in samples:
        assert real_json(s) == jsonify(s), s
    for bad in ({'a': frozenmapping({})}, {'a': datetime.datetime(2020, 1, 1)}, {'a': {1, 2}}):
        for fn in (real_json, jsonify):
            try:
                fn(bad)
            except NotJson:
                continue
            raise AssertionError(bad)


_selftest_json_model()


# ---------------------------------------------------------------------------------------------------------
# the two checks

def _eq_back(cls, x, d):
    y = cls.from_dict(d)
    if type(y) is not type(x):
        return False
    if cls is LogEntry:            # LogEntry defines no __eq__: compare the fields
        return same_fields(x, y)
    return bool(y == x) and bool(x == y)


def _rt(cls, x):
    snap = snapshot(x)
    d = x.to_dict()
    if not isinstance(d, dict) or not json_types_only(d):
        return False
    if not unchanged(x, snap):
        return False
    return _eq_back(cls, x, d)


def rt_obligation(cls, x):
    if _rt(cls, x):
        return True
    if not reachable(x):
        return True
    return decide_real(lambda o: _rt(cls, o), x)


def _js(cls, x, trip):
    d = x.to_dict()
    try:
        d2 = trip(d)
    except NotJson:
        return False
    if trip is real_json and d2 != jsonify(d):
        return False
    return _eq_back(cls, x, d2)


def json_obligation(cls, x):
    if _js(cls, x, jsonify):
        return True
    if not reachable(x):
        return True
    return decide_real(lambda o: _js(cls, o, real_json), x)


def jsonreal_obligation(cls, x):
    if not reachable(x):
        return True
    return decide_real(lambda o: _js(cls, o, real_json), x)


# ---------------------------------------------------------------------------------------------------------
# builders from symbolic values (single object, so enumerated options can range over their full tables)

CI_TABLES = [('type', list(D.ColumnInfo._all_types)), ('scale', list(D.ColumnInfo._all_scales)),
             ('datatype', list(D.ColumnInfo._all_dtypes)), ('descriptor', list(D.ColumnInfo._all_descriptors))]
CI_DEFAULT = dict(type='covariate', scale='ratio', datatype='float64', descriptor='age')


def _ci_options(oi):
    """Option field number VH_OPTF takes the oi-th entry of its table, the others their default."""
    o = dict(CI_DEFAULT)
    f, table = CI_TABLES[OPTF]
    o[f] = table[oi]
    return o


def _col(name, ui, cont, kind, c1, c2, ky, drop, oi):
    o = _ci_options(oi)
    return mk_col(name, o['type'], ui, o['scale'], cont, mk_cats(kind, c1, c2, ky), drop, o['datatype'], o['descriptor'])


ES_TABLES = [('method', sorted(X.EstimationStep.supported_methods)),
             ('pum', [None] + sorted(X.EstimationStep.supported_parameter_uncertainty_methods)),
             ('solver', [None] + sorted(X.SUPPORTED_SOLVERS))]
ES_DEFAULT = dict(method='FOCE', pum='SANDWICH', solver='LSODA')


def _es_options(oi):
    o = dict(ES_DEFAULT)
    f, table = ES_TABLES[OPTF % len(ES_TABLES)]
    o[f] = table[oi]
    return o


def _flags(b1, b2):
    """The five boolean fields as functions of two symbolic booleans (every CrossHair boolean doubles the number of
    paths): interaction, evaluation, laplace, auto, individual_eta_samples; every two of them differ for some (b1, b2),
    so a from_dict/to_dict that mixes two fields up is visible."""
    return b1, b2, (b1 != b2), (not b1), (not b2)


def _est(oi, b1, b2, mx, isample, niter, keep, r1, p1, rtol, atol, k1, v1, v2, gi):
    """gi: the Optional int fields and `auto` are None"""
    inter, ev, lap, auto, ies = _flags(b1, b2)
    o = _es_options(oi)
    ns, no = SHAPE

    def opt(v):
        return None if gi else v
    return mk_est(o['method'], inter, o['pum'], ev, opt(mx), lap, opt(isample), opt(niter), opt(auto), opt(keep),
                  mk_strs(ns, r1, ''), mk_strs(ns, p1, ''), o['solver'], opt(rtol), opt(atol),
                  mk_opts(no, k1, v1, (k1 + 1) % len(KEYS), v2), ies)


TIMES = [datetime.datetime(2024, 2, 29, 23, 59, 59, 999999), datetime.datetime(1, 1, 1, 0, 0, 0, 0),
         datetime.datetime(2026, 10, 4, 7, 13, 2), datetime.datetime(9999, 12, 31, 12, 0, 0, 1),
         datetime.datetime(2020, 5, 17, 1, 2, 3, 450000, tzinfo=datetime.timezone.utc),
         datetime.datetime(2020, 5, 17, 1, 2, 3, tzinfo=datetime.timezone(datetime.timedelta(hours=-3, minutes=-30)))]


def reach_log(e):
    return True


from C06_build import REACH  # noqa: E402
REACH[LogEntry] = reach_log


# ---------------------------------------------------------------------------------------------------------
# obligations: in-memory round trip + JSON types

def rt_Parameter(name: str, init: float, lower: float, upper: float, fix: bool) -> bool:
    """
    All field values; NaN bounds excluded (C06 finding: such a parameter is not equal to itself).
    pre: small(name, STRLEN) and lower == lower and upper == upper
    post: _ == True
    """
    return rt_obligation(P.Parameter, mk_param(name, init, lower, upper, fix))


def rt_Parameter_int(name: str, init: int, lower: int, upper: int, fix: bool) -> bool:
    """
    Integer-valued numbers (what from_dict receives from JSON written by other tools).
    pre: small(name, STRLEN)
    post: _ == True
    """
    x = mk_param(name, init, lower, upper, fix)
    if _rt(P.Parameter, x):
        return True
    if not (lower <= init <= upper):
        return True
    return decide_real(lambda o: _rt(P.Parameter, o), x)


def rt_Parameters(n: int, n1: str, i1: float, l1: float, f1: bool, n2: str, i2: float, u2: float, f2: bool,
                  n3: str, i3: float, f3: bool) -> bool:
    """
    pre: 0 <= n <= MAXN and small(n1, STRLEN) and small(n2, STRLEN) and small(n3, STRLEN)
    pre: l1 == l1 and u2 == u2
    post: _ == True
    """
    inf = float('inf')
    ps = [mk_param(n1, i1, l1, inf, f1), mk_param(n2, i2, -inf, u2, f2), mk_param(n3, i3, -inf, inf, f3)]
    return rt_obligation(P.Parameters, mk_params(ps[:n]))


def rt_ColumnInfo(name: str, ui: int, cont: bool, c1: str, c2: str, ky: int, drop: bool, oi: int) -> bool:
    """
    Categories kind pinned by VH_CATK (0 None, 1/2 tuple of 1/2 labels, 3/4 mapping with 1/2 entries); the option
    field VH_OPTF ranges over its whole table (symbolic index oi), the others are fixed valid values.
    pre: small(name, STRLEN) and small(c1, STRLEN) and small(c2, STRLEN)
    pre: 0 <= ui < NU and 0 <= ky < NK and 0 <= oi < len(CI_TABLES[OPTF][1])
    post: _ == True
    """
    return rt_obligation(D.ColumnInfo, _col(name, ui, cont, CATK, c1, c2, ky, drop, oi))


def rt_DataInfo(n: int, n1: str, u1: int, b1: bool, b2: bool, k1: bool, l1: str, o1: bool, n2: str, sep: str,
                mdt: str) -> bool:
    """
    <= 2 columns; first column: symbolic name, unit, continuous (b1), drop (b2), categories None / 1-tuple, option
    field VH_OPTF default or first table entry; second column: symbolic name, drop (not b2).  Path: None or a fixed
    path (b1 != b2).  (The full option tables and the other categories kinds: rt_ColumnInfo.)
    pre: 0 <= n <= 2 and 0 <= u1 < NU
    pre: small(n1, STRLEN) and small(l1, STRLEN) and small(n2, STRLEN) and small(sep, STRLEN) and small(mdt, STRLEN)
    post: _ == True
    """
    o = dict(CI_DEFAULT)
    if o1:
        f, table = CI_TABLES[OPTF]
        o[f] = table[0]
    c = mk_col(n1, o['type'], u1, o['scale'], b1, (l1,) if k1 else None, b2, o['datatype'], o['descriptor'])
    cols = [c, mk_col(n2, 'id', 0, 'ratio', True, None, not b2, 'int32', None)]
    return rt_obligation(D.DataInfo, mk_di(cols[:n], b1 != b2, sep, mdt))


def rt_VariabilityLevel(name: str, ref: bool, gn: bool, g: str) -> bool:
    """
    pre: small(name, STRLEN) and small(g, STRLEN)
    post: _ == True
    """
    return rt_obligation(R.VariabilityLevel, mk_vl(name, ref, None if gn else g))


def rt_VariabilityHierarchy(n: int, n1: str, r1: bool, g1: str, n2: str, r2: bool, g2n: bool, g2: str, n3: str,
                            r3: bool) -> bool:
    """
    pre: 0 <= n <= MAXN + 1 and small(n1, STRLEN) and small(g1, STRLEN) and small(n2, STRLEN) and small(g2, STRLEN)
    pre: small(n3, STRLEN)
    post: _ == True
    """
    lv = [mk_vl(n1, r1, g1), mk_vl(n2, r2, None if g2n else g2), mk_vl(n3, r3, None)]
    return rt_obligation(R.VariabilityHierarchy, mk_vh(lv[:n]))


def rt_EstimationStep(oi: int, b1: bool, b2: bool, mx: int, isample: int, niter: int, keep: int, r1: str, p1: str,
                      rtol: int, atol: int, k1: int, v1: int, v2: int, gi: bool) -> bool:
    """
    derivatives = () (Expr-valued: outside).  VH_SHAPE = number of residuals and predictions, number of tool
    options; option field VH_OPTF over its whole table (incl. None for parameter_uncertainty_method / solver).
    pre: 0 <= oi < len(ES_TABLES[OPTF % 3][1]) and 0 <= k1 < NK and mx >= 1
    pre: small(r1, STRLEN) and small(p1, STRLEN)
    post: _ == True
    """
    return rt_obligation(X.EstimationStep, _est(oi, b1, b2, mx, isample, niter, keep, r1, p1, rtol, atol, k1, v1, v2, gi))


def rt_SimulationStep(n: int, seed: int, sn: bool, si: int, rtol: int, atol_none: bool, atol: int, no: int, k1: int,
                      v1: int, v2: int) -> bool:
    """
    pre: n >= 1 and 0 <= si < len(ES_TABLES[2][1]) and 0 <= no <= 2 and 0 <= k1 < NK
    post: _ == True
    """
    x = mk_sim(n, seed, ES_TABLES[2][1][si], rtol, None if atol_none else atol,
               mk_opts(no, k1, v1, (k1 + 1) % len(KEYS), v2))
    return rt_obligation(X.SimulationStep, x)


def _step(is_sim, oi, inter, mx, p1, k1, v1, n, seed):
    if is_sim or SIMONLY:
        return mk_sim(n, seed, None, None, None, mk_opts(0, 0, 0, 0, 0))
    return _est(oi, inter, False, mx, 0, 0, 0, p1, p1, 0, 0, k1, v1, 0, True)


def rt_ExecutionSteps(n: int, s1: bool, o1: int, i1: bool, x1: int, p1: str, k1: int, v1: int, n1: int, seed1: int,
                      s2: bool, o2: int, i2: bool, n2: int) -> bool:
    """
    <= 2 steps, each an estimation step (VH_SHAPE, VH_OPTF as in rt_EstimationStep; Optional ints None) or a
    simulation step.
    pre: 0 <= n <= 2 and 0 <= o1 < len(ES_TABLES[OPTF % 3][1]) and 0 <= o2 < 2 and 0 <= k1 < NK
    pre: x1 >= 1 and n1 >= 1 and n2 >= 1 and small(p1, STRLEN)
    post: _ == True
    """
    st = [_step(s1, o1, i1, x1, p1, k1, v1, n1, seed1), _step(s2, o2, i2, 1, '', 0, 0, n2, 1)]
    return rt_obligation(X.ExecutionSteps, mk_steps(st[:n]))


def rt_LogEntry(category: str, message: str, ti: int) -> bool:
    """
    Symbolic category and message, time from a table of datetimes (microseconds 0 / non-0, year 1 / 9999, naive /
    aware).  LogEntry has no __eq__: fields are compared.
    pre: small(category, STRLEN) and small(message, STRLEN) and 0 <= ti < len(TIMES)
    post: _ == True
    """
    return rt_obligation(LogEntry, LogEntry(category, message, TIMES[ti]))


# ---------------------------------------------------------------------------------------------------------
# obligations: through JSON (structural model; failing paths re-decided with the real json module)

def json_Parameter(name: str, init: float, lower: float, upper: float, fix: bool) -> bool:
    """
    pre: small(name, STRLEN) and lower == lower and upper == upper
    post: _ == True
    """
    return json_obligation(P.Parameter, mk_param(name, init, lower, upper, fix))


def json_Parameters(n: int, n1: str, i1: float, l1: float, f1: bool, n2: str, i2: float, u2: float, f2: bool) -> bool:
    """
    pre: 0 <= n <= 2 and small(n1, STRLEN) and small(n2, STRLEN) and l1 == l1 and u2 == u2
    post: _ == True
    """
    inf = float('inf')
    ps = [mk_param(n1, i1, l1, inf, f1), mk_param(n2, i2, -inf, u2, f2)]
    return json_obligation(P.Parameters, mk_params(ps[:n]))


def json_ColumnInfo(name: str, ui: int, cont: bool, c1: str, c2: str, ky: int, drop: bool, oi: int) -> bool:
    """
    As rt_ColumnInfo.  VH_CATK=0: no categories; 1,2: tuple (finding G2 isolated); 3,4: mapping (finding G1).
    pre: small(name, STRLEN) and small(c1, STRLEN) and small(c2, STRLEN)
    pre: 0 <= ui < NU and 0 <= ky < NK and 0 <= oi < len(CI_TABLES[OPTF][1])
    post: _ == True
    """
    return json_obligation(D.ColumnInfo, _col(name, ui, cont, CATK, c1, c2, ky, drop, oi))


def json_DataInfo(n: int, n1: str, u1: int, b1: bool, b2: bool, o1: bool, n2: str, sep: str, mdt: str) -> bool:
    """
    As rt_DataInfo with categories None (tuple / mapping categories: see json_ColumnInfo).
    pre: 0 <= n <= 2 and 0 <= u1 < NU
    pre: small(n1, STRLEN) and small(n2, STRLEN) and small(sep, STRLEN) and small(mdt, STRLEN)
    post: _ == True
    """
    o = dict(CI_DEFAULT)
    if o1:
        f, table = CI_TABLES[OPTF]
        o[f] = table[0]
    c = mk_col(n1, o['type'], u1, o['scale'], b1, None, b2, o['datatype'], o['descriptor'])
    cols = [c, mk_col(n2, 'id', 0, 'ratio', True, None, not b2, 'int32', None)]
    return json_obligation(D.DataInfo, mk_di(cols[:n], b1 != b2, sep, mdt))


def json_VariabilityLevel(name: str, ref: bool, gn: bool, g: str) -> bool:
    """
    pre: small(name, STRLEN) and small(g, STRLEN)
    post: _ == True
    """
    return json_obligation(R.VariabilityLevel, mk_vl(name, ref, None if gn else g))


def json_VariabilityHierarchy(n: int, n1: str, r1: bool, g1: str, n2: str, r2: bool) -> bool:
    """
    pre: 0 <= n <= 2 and small(n1, STRLEN) and small(g1, STRLEN) and small(n2, STRLEN)
    post: _ == True
    """
    lv = [mk_vl(n1, r1, g1), mk_vl(n2, r2, None)]
    return json_obligation(R.VariabilityHierarchy, mk_vh(lv[:n]))


def json_EstimationStep(oi: int, b1: bool, b2: bool, mx: int, isample: int, niter: int, keep: int, r1: str, p1: str,
                      rtol: int, atol: int, k1: int, v1: int, v2: int, gi: bool) -> bool:
    """
    As rt_EstimationStep.  Finding G2: fails for every step (tuples, even empty ones, come back as lists and
    from_dict does not convert them).
    pre: 0 <= oi < len(ES_TABLES[OPTF % 3][1]) and 0 <= k1 < NK and mx >= 1
    pre: small(r1, STRLEN) and small(p1, STRLEN)
    post: _ == True
    """
    return json_obligation(X.EstimationStep, _est(oi, b1, b2, mx, isample, niter, keep, r1, p1, rtol, atol, k1, v1, v2, gi))


def json_SimulationStep(n: int, seed: int, si: int, rtol: int, no: int, k1: int, v1: int, v2: int) -> bool:
    """
    pre: n >= 1 and 0 <= si < len(ES_TABLES[2][1]) and 0 <= no <= 2 and 0 <= k1 < NK
    post: _ == True
    """
    x = mk_sim(n, seed, ES_TABLES[2][1][si], rtol, None, mk_opts(no, k1, v1, (k1 + 1) % len(KEYS), v2))
    return json_obligation(X.SimulationStep, x)


def json_ExecutionSteps(n: int, s1: bool, o1: int, i1: bool, x1: int, p1: str, k1: int, v1: int, n1: int, seed1: int,
                        s2: bool, o2: int, i2: bool, n2: int) -> bool:
    """
    As rt_ExecutionSteps.  VH_SIMONLY=1: simulation steps only; otherwise estimation steps occur (finding G2: every
    EstimationStep fails the JSON round trip because its empty tuples come back as lists).
    pre: 0 <= n <= 2 and 0 <= o1 < len(ES_TABLES[OPTF % 3][1]) and 0 <= o2 < 2 and 0 <= k1 < NK
    pre: x1 >= 1 and n1 >= 1 and n2 >= 1 and small(p1, STRLEN)
    post: _ == True
    """
    st = [_step(s1, o1, i1, x1, p1, k1, v1, n1, seed1), _step(s2, o2, i2, 1, '', 0, 0, n2, 1)]
    return json_obligation(X.ExecutionSteps, mk_steps(st[:n]))


def json_LogEntry(category: str, message: str, ti: int) -> bool:
    """
    pre: small(category, STRLEN) and small(message, STRLEN) and 0 <= ti < len(TIMES)
    post: _ == True
    """
    return json_obligation(LogEntry, LogEntry(category, message, TIMES[ti]))


# real json module on every path: values are realised, so the domains are tiny
FLOATS = [0.0, -0.0, 1.5, 1e-320, 1e308, float('inf'), -float('inf'), 0.1]


def jsonreal_Parameter(name: str, ii: int, li: int, ui: int, fix: bool) -> bool:
    """
    pre: small(name, 1, 'a"') and 0 <= ii < 8 and 0 <= li < 8 and ui == 5
    post: _ == True
    """
    return jsonreal_obligation(P.Parameter, mk_param(name, FLOATS[ii], FLOATS[li], FLOATS[ui], fix))


def jsonreal_VariabilityHierarchy(n: int, n1: str, r1: bool, gn: bool, g1: str, r2: bool) -> bool:
    """
    pre: 0 <= n <= 2 and small(n1, 1, '"\\\\') and small(g1, 1, '\\u00e9\\n')
    post: _ == True
    """
    lv = [mk_vl(n1, r1, None if gn else g1), mk_vl('IOV', r2, 'OCC')]
    return jsonreal_obligation(R.VariabilityHierarchy, mk_vh(lv[:n]))


def jsonreal_SimulationStep(n: int, seed: int, no: int, v1: int) -> bool:
    """
    pre: 1 <= n <= 2 and 0 <= seed <= 1 and 0 <= no <= 2 and -1 <= v1 <= 0
    post: _ == True
    """
    return jsonreal_obligation(X.SimulationStep, mk_sim(n, seed, None, None, None, mk_opts(no, 0, v1, 1, 2 ** 70)))


def _log_trip(n, ci, ti):
    """Log of n entries -> to_dict -> real json text -> from_dict: the same entries in the same order (the dict keys of
    Log.to_dict are positions; JSON turns them into strings)."""
    import json as _json
    from pharmpy.workflows.log import CATEGORIES, Log
    n = [i for i in range(15) if i == n][0]        # one path per length; concrete from here on
    entries = tuple(LogEntry(CATEGORIES[(ci + i) % 3], 'message %d' % i, TIMES[(ti + i) % len(TIMES)]) for i in range(n))
    log = Log(entries)
    d = log.to_dict()
    back = Log.from_dict(_json.loads(_json.dumps(d)))
    direct = Log.from_dict(log.to_dict())
    for other in (back, direct):
        got = [(e.category, e.message, e.time) for e in other]
        if got != [(e.category, e.message, e.time) for e in entries]:
            return False
    return len(log) == n and len(back) == n


def jsonreal_Log(n: int, ci: int, ti: int) -> bool:
    """
    pre: 0 <= n <= 14 and 0 <= ci <= 2 and 0 <= ti < len(TIMES)
    post: _ == True
    """
    return _log_trip(n, ci, ti)


# ---------------------------------------------------------------------------------------------------------
# reachability twins: a reachable object on which the obligation holds (and the round trip really yields an equal,
# distinct object)

def _witness(ob, cls, x):
    return ob(cls, x) and reachable(x) and cls.from_dict(x.to_dict()) is not x


def rt_Parameter__twin(name: str, init: float, lower: float, upper: float, fix: bool) -> bool:
    """
    pre: small(name, STRLEN) and lower <= init <= upper
    post: _ == True
    """
    return not _witness(rt_obligation, P.Parameter, mk_param(name, init, lower, upper, fix))


def rt_Parameter_int__twin(name: str, init: int, lower: int, upper: int, fix: bool) -> bool:
    """
    pre: small(name, STRLEN) and lower <= init <= upper
    post: _ == True
    """
    return not rt_Parameter_int(name, init, lower, upper, fix)


def rt_Parameters__twin(n1: str, i1: float, l1: float, f1: bool, n2: str, i2: float) -> bool:
    """
    pre: small(n1, STRLEN) and small(n2, STRLEN) and l1 <= i1 and i2 == i2 and n1 != n2
    post: _ == True
    """
    inf = float('inf')
    return not _witness(rt_obligation, P.Parameters,
                        mk_params([mk_param(n1, i1, l1, inf, f1), mk_param(n2, i2, -inf, inf, False)]))


def rt_ColumnInfo__twin(name: str, ui: int, c1: str, c2: str, ky: int, drop: bool, oi: int) -> bool:
    """
    pre: small(name, STRLEN) and small(c1, STRLEN) and small(c2, STRLEN)
    pre: 0 <= ui < NU and 0 <= ky < NK and 0 <= oi < len(CI_TABLES[OPTF][1])
    post: _ == True
    """
    return not _witness(rt_obligation, D.ColumnInfo, _col(name, ui, False, CATK, c1, c2, ky, drop, oi))


def rt_DataInfo__twin(n1: str, u1: int, d1: bool, n2: str, sep: str, mdt: str) -> bool:
    """
    pre: 0 <= u1 < NU and small(n1, STRLEN) and small(n2, STRLEN) and small(sep, STRLEN) and small(mdt, STRLEN)
    post: _ == True
    """
    cols = [_col(n1, u1, True, 1, 'x', 'x', 0, d1, 0), mk_col(n2, 'id', 0, 'ratio', True, None, False, 'int32', None)]
    return not _witness(rt_obligation, D.DataInfo, mk_di(cols, True, sep, mdt))


def rt_VariabilityLevel__twin(name: str, ref: bool, gn: bool, g: str) -> bool:
    """
    pre: small(name, STRLEN) and small(g, STRLEN)
    post: _ == True
    """
    return not _witness(rt_obligation, R.VariabilityLevel, mk_vl(name, ref, None if gn else g))


def rt_VariabilityHierarchy__twin(n1: str, g1: str, n2: str) -> bool:
    """
    pre: small(n1, STRLEN) and small(g1, STRLEN) and small(n2, STRLEN)
    post: _ == True
    """
    return not _witness(rt_obligation, R.VariabilityHierarchy, mk_vh([mk_vl(n1, True, g1), mk_vl(n2, False, None)]))


def rt_EstimationStep__twin(oi: int, inter: bool, mx: int, r1: str, p1: str, k1: int, v1: int, gi: bool) -> bool:
    """
    pre: 0 <= oi < len(ES_TABLES[OPTF % 3][1]) and 0 <= k1 < NK and mx >= 1 and small(r1, STRLEN) and small(p1, STRLEN)
    post: _ == True
    """
    return not _witness(rt_obligation, X.EstimationStep,
                        _est(oi, inter, False, mx, 1, 2, 3, r1, p1, 4, 5, k1, v1, 6, gi))


def rt_SimulationStep__twin(n: int, seed: int, v1: int) -> bool:
    """
    pre: n >= 1
    post: _ == True
    """
    return not _witness(rt_obligation, X.SimulationStep, mk_sim(n, seed, None, None, None, mk_opts(1, 0, v1, 0, 0)))


def rt_ExecutionSteps__twin(o1: int, i1: bool, x1: int, p1: str, n2: int) -> bool:
    """
    pre: 0 <= o1 < len(ES_TABLES[OPTF % 3][1]) and x1 >= 1 and n2 >= 1 and small(p1, STRLEN)
    post: _ == True
    """
    st = [_step(False, o1, i1, x1, p1, 0, 0, 1, 1), _step(True, 0, False, 1, '', 0, 0, n2, 1)]
    return not _witness(rt_obligation, X.ExecutionSteps, mk_steps(st))


def rt_LogEntry__twin(category: str, message: str, ti: int) -> bool:
    """
    pre: small(category, STRLEN) and small(message, STRLEN) and 0 <= ti < len(TIMES)
    post: _ == True
    """
    return not _witness(rt_obligation, LogEntry, LogEntry(category, message, TIMES[ti]))


def json_Parameter__twin(name: str, init: float, lower: float, upper: float, fix: bool) -> bool:
    """
    pre: small(name, STRLEN) and lower <= init <= upper
    post: _ == True
    """
    return not _witness(json_obligation, P.Parameter, mk_param(name, init, lower, upper, fix))


def json_Parameters__twin(n1: str, i1: float, l1: float, f1: bool, n2: str, i2: float) -> bool:
    """
    pre: small(n1, STRLEN) and small(n2, STRLEN) and l1 <= i1 and i2 == i2 and n1 != n2
    post: _ == True
    """
    inf = float('inf')
    return not _witness(json_obligation, P.Parameters,
                        mk_params([mk_param(n1, i1, l1, inf, f1), mk_param(n2, i2, -inf, inf, False)]))


def json_ColumnInfo__twin(name: str, ui: int, drop: bool, oi: int) -> bool:
    """
    pre: small(name, STRLEN) and 0 <= ui < NU and 0 <= oi < len(CI_TABLES[OPTF][1])
    post: _ == True
    """
    return not _witness(json_obligation, D.ColumnInfo, _col(name, ui, False, 0, '', '', 0, drop, oi))


def json_DataInfo__twin(n1: str, u1: int, d1: bool, n2: str, sep: str, mdt: str) -> bool:
    """
    pre: 0 <= u1 < NU and small(n1, STRLEN) and small(n2, STRLEN) and small(sep, STRLEN) and small(mdt, STRLEN)
    post: _ == True
    """
    cols = [_col(n1, u1, True, 0, '', '', 0, d1, 0), mk_col(n2, 'id', 0, 'ratio', True, None, False, 'int32', None)]
    return not _witness(json_obligation, D.DataInfo, mk_di(cols, True, sep, mdt))


def json_VariabilityLevel__twin(name: str, ref: bool, gn: bool, g: str) -> bool:
    """
    pre: small(name, STRLEN) and small(g, STRLEN)
    post: _ == True
    """
    return not _witness(json_obligation, R.VariabilityLevel, mk_vl(name, ref, None if gn else g))


def json_VariabilityHierarchy__twin(n1: str, g1: str, n2: str) -> bool:
    """
    pre: small(n1, STRLEN) and small(g1, STRLEN) and small(n2, STRLEN)
    post: _ == True
    """
    return not _witness(json_obligation, R.VariabilityHierarchy, mk_vh([mk_vl(n1, True, g1), mk_vl(n2, False, None)]))


def json_EstimationStep__twin(oi: int, inter: bool, mx: int, k1: int, v1: int, gi: bool) -> bool:
    """
    The obligation fails for every step on the unchanged tree (finding G2), so the witness is weaker: a reachable step
    whose dictionary passes the JSON model and from_dict and comes back as a step with the same scalar fields.
    pre: 0 <= oi < len(ES_TABLES[OPTF % 3][1]) and 0 <= k1 < NK and mx >= 1
    post: _ == True
    """
    o = _es_options(oi)
    x = mk_est(o['method'], inter, o['pum'], False, None if gi else mx, False, None, None, None, None, (), (),
               o['solver'], None, None, mk_opts(1, k1, v1, 0, 0), False)
    y = X.EstimationStep.from_dict(jsonify(x.to_dict()))
    return not (reachable(x) and type(y) is type(x) and y.method == x.method and y.tool_options == x.tool_options
                and y.maximum_evaluations == x.maximum_evaluations and y is not x)


def json_SimulationStep__twin(n: int, seed: int, v1: int) -> bool:
    """
    pre: n >= 1
    post: _ == True
    """
    return not _witness(json_obligation, X.SimulationStep, mk_sim(n, seed, None, None, None, mk_opts(1, 0, v1, 0, 0)))


def json_ExecutionSteps__twin(n1: int, seed: int, n2: int) -> bool:
    """
    witness without estimation steps (they all fail through JSON, finding G2)
    pre: n1 >= 1 and n2 >= 1
    post: _ == True
    """
    x = mk_steps([mk_sim(n1, seed, None, None, None, mk_opts(0, 0, 0, 0, 0)),
                  mk_sim(n2, 1, None, None, None, mk_opts(0, 0, 0, 0, 0))])
    return not _witness(json_obligation, X.ExecutionSteps, x)


def json_LogEntry__twin(category: str, message: str, ti: int) -> bool:
    """
    pre: small(category, STRLEN) and small(message, STRLEN) and 0 <= ti < len(TIMES)
    post: _ == True
    """
    return not _witness(json_obligation, LogEntry, LogEntry(category, message, TIMES[ti]))


def jsonreal_Parameter__twin(name: str, ii: int, li: int, ui: int, fix: bool) -> bool:
    """
    pre: small(name, 1, 'a"') and 0 <= ii < 8 and 0 <= li < 8 and ui == 5
    pre: ii == 2 and li == 1
    post: _ == True
    """
    return not _witness(jsonreal_obligation, P.Parameter, mk_param(name, FLOATS[ii], FLOATS[li], FLOATS[ui], fix))


def jsonreal_VariabilityHierarchy__twin(n: int, n1: str, r1: bool, gn: bool, g1: str, r2: bool) -> bool:
    """
    pre: 0 <= n <= 2 and small(n1, 1, '"\\\\') and small(g1, 1, '\\u00e9\\n')
    pre: n == 2 and r1 and not r2
    post: _ == True
    """
    lv = [mk_vl(n1, r1, None if gn else g1), mk_vl('IOV', r2, 'OCC')]
    return not _witness(jsonreal_obligation, R.VariabilityHierarchy, mk_vh(lv[:n]))


def jsonreal_SimulationStep__twin(n: int, seed: int, no: int, v1: int) -> bool:
    """
    pre: 1 <= n <= 2 and 0 <= seed <= 1 and 0 <= no <= 2 and -1 <= v1 <= 0
    post: _ == True
    """
    return not _witness(jsonreal_obligation, X.SimulationStep,
                        mk_sim(n, seed, None, None, None, mk_opts(no, 0, v1, 1, 2 ** 70)))


def jsonreal_Log__twin(n: int, ci: int, ti: int) -> bool:
    """
    pre: 11 <= n <= 14 and 0 <= ci <= 2 and 0 <= ti < len(TIMES)
    post: _ == True
    """
    return not _log_trip(n, ci, ti)
