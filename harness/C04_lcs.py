"""C04 (1)+(2) — the edit script that drives the $THETA/$OMEGA/$SIGMA record updaters.

diff_ok     : real `pharmpy.internals.sequence.lcs.diff` on symbolic sequences over a 3-symbol alphabet: the script
              reproduces `old` (ops <= 0) and `new` (ops >= 0), uses only -1/0/+1, and keeps a LONGEST common
              subsequence (number of 0-ops == LCS length computed by an independent recursion).
reorder_ok  : real `update.reorder_diff` on symbolic scripts (names unique among the old side and among the new side,
              as parameter names are): same multiset of operations; the old side (ops <= 0) keeps its order, because the
              records are walked in that order; a kept name's removal is directly preceded by its re-addition whenever
              that addition follows it with no 0-op in between; everything else keeps its relative order.
"""
import os
from typing import List, Tuple

try:
    import crosshair.core as _cc
    _cc.consider_shortcircuit = lambda *a, **k: None     # see C18_mfl.py: always execute callees
except ImportError:
    pass

import warnings  # noqa: E402

warnings.simplefilter('ignore')

from pharmpy.internals.sequence.lcs import diff  # noqa: E402
from pharmpy.model.external.nonmem.update import reorder_diff  # noqa: E402

N = int(os.environ.get('VH_N', '3'))
LEN_OLD = int(os.environ.get('VH_LENOLD', '-1'))      # optional case split on len(old)
LEN_NEW = int(os.environ.get('VH_LENNEW', '-1'))      # ... on len(new)
HEAD = [int(t) for t in os.environ.get('VH_HEAD', '').split(',') if t != '']   # ... on old[0], new[0], old[1]
LEN = int(os.environ.get('VH_LEN', '-1'))            # optional case split on len(script)
OPS = [int(t) for t in os.environ.get('VH_OPS', '').split(',') if t != '']   # ... and on its first operations


def _lcs_len(a, b, i, j):
    if i == len(a) or j == len(b):
        return 0
    if a[i] == b[j]:
        return 1 + _lcs_len(a, b, i + 1, j + 1)
    return max(_lcs_len(a, b, i + 1, j), _lcs_len(a, b, i, j + 1))


def _head_ok(old, new):
    vals = [old[0] if len(old) > 0 else None, new[0] if len(new) > 0 else None, old[1] if len(old) > 1 else None]
    return all(vals[i] == h for i, h in enumerate(HEAD))


def diff_ok(old: List[int], new: List[int]) -> bool:
    """
    pre: len(old) <= N and len(new) <= N and (LEN_OLD < 0 or len(old) == LEN_OLD) and (LEN_NEW < 0 or len(new) == LEN_NEW)
    pre: _head_ok(old, new)
    pre: all(0 <= x <= 2 for x in old) and all(0 <= x <= 2 for x in new)
    post: _ == True
    """
    script = list(diff(old, new))
    if any(op not in (-1, 0, 1) for op, _ in script):
        return False
    if [v for op, v in script if op <= 0] != old:
        return False
    if [v for op, v in script if op >= 0] != new:
        return False
    return sum(1 for op, _ in script if op == 0) == _lcs_len(old, new, 0, 0)


def diff_ok__twin(old: List[int], new: List[int]) -> bool:
    """
    pre: len(old) <= N and len(new) <= N and (LEN_OLD < 0 or len(old) == LEN_OLD) and (LEN_NEW < 0 or len(new) == LEN_NEW)
    pre: _head_ok(old, new)
    pre: all(0 <= x <= 2 for x in old) and all(0 <= x <= 2 for x in new)
    post: _ == True
    """
    return not diff_ok(old, new)


class P:
    """Stand-in for a Parameter: reorder_diff only reads `.name`; `tag` tells occurrences apart."""

    def __init__(self, name, tag):
        self.name = name
        self.tag = tag


def _script_ok(script):
    if any(i < len(script) and script[i][0] != o for i, o in enumerate(OPS)):
        return False
    olds = [n for op, n in script if op <= 0]
    news = [n for op, n in script if op >= 0]
    return all(op in (-1, 0, 1) and 0 <= n <= 2 for op, n in script) and \
        all(olds[i] != olds[j] for i in range(len(olds)) for j in range(i)) and \
        all(news[i] != news[j] for i in range(len(news)) for j in range(i))


def reorder_ok(script: List[Tuple[int, int]], k0: bool, k1: bool, k2: bool) -> bool:
    """
    pre: len(script) <= N + 1 and (LEN < 0 or len(script) == LEN) and _script_ok(script)
    post: _ == True
    """
    kept = {str(n) for n, k in ((0, k0), (1, k1), (2, k2)) if k}
    inp = [(op, P(str(n), i)) for i, (op, n) in enumerate(script)]
    out = reorder_diff(list(inp), kept)
    # same multiset of operations (same objects, same op)
    if sorted((p.tag, op) for op, p in out) != sorted((p.tag, op) for op, p in inp):
        return False
    # the old side keeps its order
    if [p.tag for op, p in out if op <= 0] != [p.tag for op, p in inp if op <= 0]:
        return False
    moved = set()
    for i, (op, p) in enumerate(inp):
        if op == -1 and p.name in kept:
            for j in range(i + 1, len(inp)):
                if inp[j][0] == 0:
                    break
                if inp[j][0] == 1 and inp[j][1].name == p.name:
                    moved.add(inp[j][1].tag)
                    pos = [t for t, (o2, p2) in enumerate(out) if p2.tag == p.tag][0]
                    if pos == 0 or out[pos - 1][1].tag != inp[j][1].tag or out[pos - 1][0] != 1:
                        return False       # the re-addition must come directly before the removal
                    break
    # everything else keeps its relative order
    return [p.tag for op, p in out if p.tag not in moved] == [p.tag for op, p in inp if p.tag not in moved]


def reorder_ok__twin(script: List[Tuple[int, int]], k0: bool, k1: bool, k2: bool) -> bool:
    """
    pre: len(script) <= N + 1 and (LEN < 0 or len(script) == LEN) and _script_ok(script)
    post: _ == True
    """
    return not reorder_ok(script, k0, k1, k2)
