"""C18 (e) — the printed form of an algebra RESULT parses back to the same space.

`ModelFeatures.__add__/__sub__` rebuild count tuples (in whatever order the implementation produces); the result is
printed with the real `repr`/stringify and read back with the real parser: parse(repr(A op B)) must expand to the same
option sets as A op B.  Count lists include non-contiguous ones (e.g. 0,1,3,10), for which a range rendering would be
wrong.  Operands are chosen by symbolic table indexes (one solver path per entry), then everything runs concretely.
"""
import warnings

warnings.simplefilter('ignore')

from C18_mfl import _NoTracing, _names, _pick, expand  # noqa: E402
import C18_roundtrip  # noqa: E402,F401  (installs the disk-cache-free lark parser)
from pharmpy.tools.mfl.parse import ModelFeatures, parse  # noqa: E402
from pharmpy.tools.mfl.statement.feature.peripherals import Peripherals  # noqa: E402
from pharmpy.tools.mfl.statement.feature.transits import Transits  # noqa: E402

COUNTS = [(0,), (1,), (10,), (0, 1), (1, 3), (3, 10), (0, 1, 2), (0, 1, 3, 10), (2, 3), (1, 2, 3), (0, 2, 4)]
N = len(COUNTS)


def _mf(kind, counts):
    if kind == 0:
        return ModelFeatures.create(transits=(Transits(counts, _names(('DEPOT',))),))
    return ModelFeatures.create(peripherals=(Peripherals(counts, _names(('DRUG',))),))


def _body(kind, i, j, op):
    a, b = _mf(kind, COUNTS[i]), _mf(kind, COUNTS[j])
    r = a + b if op == 0 else a - b
    text = repr(r)
    if text == '':
        return None
    back = parse(text, mfl_class=True)
    if expand(back) != expand(r):
        raise AssertionError(f'{COUNTS[i]} {"+-"[op]} {COUNTS[j]}: result {expand(r)["transits" if kind == 0 else "peripherals:DRUG"]} '
                             f'printed as {text!r} which parses to {expand(back)["transits" if kind == 0 else "peripherals:DRUG"]}')
    return True


def rt_algebra(kind: int, i: int, j: int, op: int) -> bool:
    """
    pre: 0 <= kind <= 1 and 0 <= i < N and 0 <= j < N and 0 <= op <= 1
    post: _ in (True, None)
    """
    codes = [_pick(kind, 0, 2), _pick(i, 0, N), _pick(j, 0, N), _pick(op, 0, 2)]
    with _NoTracing():
        return _body(*codes)


def rt_algebra__twin(kind: int, i: int, j: int, op: int) -> bool:
    """
    pre: 0 <= kind <= 1 and 0 <= i < N and 0 <= j < N and 0 <= op <= 1
    post: _ == True
    """
    codes = [_pick(kind, 0, 2), _pick(i, 0, N), _pick(j, 0, N), _pick(op, 0, 2)]
    with _NoTracing():
        return _body(*codes) is not True
