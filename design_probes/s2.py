import warnings; warnings.simplefilter('ignore')
from pharmpy.workflows import Task, Workflow, WorkflowBuilder
from dask.threaded import get
def f(x): return ('f', x)
def g(a, b): return ('g', a, b)
t0 = Task('t0', f, 'results')      # static input equal to the sink key
t1 = Task('t1', g, 'hello')
wb = WorkflowBuilder(); wb.add_task(t0); wb.add_task(t1, predecessors=[t0])
d = Workflow(wb).as_dask_dict()
print(d)
try:
    print(get(d, 'results'))
except Exception as e:
    print("EXC", type(e).__name__, e)
# insert_context order
from pharmpy.workflows.workflow import insert_context
def a(context): return 'A'
def b(): return 'B'
def c(x, y): return (x, y)
ta = Task('a', a); tb = Task('b', b); tc = Task('c', c)
wb = WorkflowBuilder(); wb.add_task(ta); wb.add_task(tb); wb.add_task(tc, predecessors=[ta, tb])
print("before:", get(Workflow(wb).as_dask_dict().copy() if False else {k:v for k,v in Workflow(wb).as_dask_dict().items()}, 'results') if False else Workflow(wb).get_predecessors(tc))
insert_context(wb, 'CTX')
wf = Workflow(wb)
print("after:", wf.get_predecessors(wf.output_tasks[0]), get(wf.as_dask_dict(), 'results'))
