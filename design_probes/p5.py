import math
from typing import List, Optional
import pharmpy.tools.run as R

class M:
    def __init__(self, name): self.name = name

class Cap:
    def __init__(self, rows, index=None, columns=None):
        self.rows = list(rows); self.index = index; self.columns = columns
    def sort_values(self, by=None, ascending=True): return self
class FakePd:
    @staticmethod
    def Index(keys, name=None): return list(keys)
    DataFrame = Cap
class FakeNp:
    nan = float('nan')
    @staticmethod
    def isnan(x): return x != x

def rank3i(v0: int, v1: int, v2: int, n1: bool, n2: bool, cutoff: int, use_cutoff: bool) -> bool:
    """
    pre: -100 <= v0 <= 100 and -100 <= v1 <= 100 and -100 <= v2 <= 100 and 0 <= cutoff <= 10
    post: _ == True
    """
    vals = {'base': v0, 'm1': float('nan') if n1 else v1, 'm2': float('nan') if n2 else v2}
    R.np = FakeNp; R.pd = FakePd
    R.get_rankval = lambda model, res, strictness, rank_type, **kw: vals[model.name]
    base = M('base'); ms = [M('m1'), M('m2')]
    df = R.rank_models(base, None, ms, [None, None], rank_type='ofv', cutoff=cutoff if use_cutoff else None)
    rows = dict(zip(df.index, df.rows))
    # reference
    elig = {}
    for n, v in vals.items():
        if v != v: continue
        if n != 'base' and use_cutoff and not (v0 - v > cutoff): continue
        elig[n] = v0 - v
    for n in vals:
        d, rv, rk = rows[n]
        if n in elig:
            exp_rank = 1 + sum(1 for o in elig.values() if o > elig[n])
            if rk != exp_rank: return False
        else:
            if rk == rk: return False
    return True
