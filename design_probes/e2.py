import time, z3, sympy
from pharmpy.modeling import *
from pharmpy.model import Assignment, CompartmentalSystem

EXP = z3.Function('exp', z3.RealSort(), z3.RealSort())
LOG = z3.Function('log', z3.RealSort(), z3.RealSort())
def tr(e, env):
    if e.is_Symbol:
        return env.setdefault(str(e), z3.Real(str(e)))
    if e.is_Integer: return z3.RealVal(int(e))
    if e.is_Rational: return z3.RealVal(f"{e.p}/{e.q}")
    if e.is_Float: return z3.RealVal(str(sympy.Rational(str(e))))
    if e.is_Add:
        r = tr(e.args[0], env)
        for a in e.args[1:]: r = r + tr(a, env)
        return r
    if e.is_Mul:
        r = tr(e.args[0], env)
        for a in e.args[1:]: r = r * tr(a, env)
        return r
    if e.is_Pow:
        b, x = e.args
        if x.is_Integer:
            n = int(x); bb = tr(b, env)
            r = z3.RealVal(1)
            for _ in range(abs(n)): r = r * bb
            return r if n >= 0 else 1 / r
        raise NotImplementedError(e)
    if isinstance(e, sympy.exp): return EXP(tr(e.args[0], env))
    if isinstance(e, sympy.log): return LOG(tr(e.args[0], env))
    if isinstance(e, sympy.Piecewise):
        r = None
        for val, cond in reversed(e.args):
            v = tr(val, env)
            if cond is sympy.true: r = v
            else:
                c = trb(cond, env)
                r = z3.If(c, v, r if r is not None else z3.RealVal(0))
        return r
    if isinstance(e, sympy.core.function.AppliedUndef):
        return env.setdefault(str(e), z3.Real(str(e)))
    raise NotImplementedError(type(e), e)
def trb(c, env):
    ops = {sympy.Lt: lambda a,b: a<b, sympy.Le: lambda a,b:a<=b, sympy.Gt: lambda a,b:a>b, sympy.Ge: lambda a,b:a>=b, sympy.Eq: lambda a,b:a==b, sympy.Ne: lambda a,b:a!=b}
    for k, f in ops.items():
        if isinstance(c, k): return f(tr(c.args[0], env), tr(c.args[1], env))
    if isinstance(c, sympy.And): return z3.And(*[trb(a, env) for a in c.args])
    if isinstance(c, sympy.Or): return z3.Or(*[trb(a, env) for a in c.args])
    if isinstance(c, sympy.Not): return z3.Not(trb(c.args[0], env))
    raise NotImplementedError(c)

def yexpr(model):
    sset = model.statements
    y = sset.after_odes.full_expression('Y')
    # substitute before-ode definitions too
    y = sset.before_odes.full_expression(y)
    return sympy.sympify(y)

m = load_example_model('pheno')
env = {}
t0=time.time()
y1 = tr(yexpr(m), env)
for name, f in [('mu_reference_model', mu_reference_model), ('cleanup_model', cleanup_model), ('add_iiv?', None)]:
    if f is None: continue
    m2 = f(m)
    y2 = tr(yexpr(m2), env)
    s = z3.Solver(); s.set('timeout', 20000)
    s.add(y1 != y2)
    print(name, s.check(), round(time.time()-t0,2))
m3 = set_proportional_error_model(m)
m4 = set_additive_error_model(m)
for mm in (m3, m4):
    y2 = tr(yexpr(mm), env)
    s = z3.Solver(); s.set('timeout', 20000); s.add(y1 != y2); r = s.check(); print(r, (s.model() if str(r)=='sat' else ''))
print(m.statements.ode_system.compartmental_matrix, m.statements.ode_system.eqs)
