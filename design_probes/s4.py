import warnings; warnings.simplefilter('ignore')
from pharmpy.modeling import read_model_from_string
from pharmpy.model import Parameter, Parameters
code = """$PROBLEM x
$INPUT ID TIME AMT DV
$DATA file.csv IGNORE=@
$PRED
Y = THETA(1) + ETA(1) + EPS(1)
$THETA 1 ; TVA
$OMEGA 0.1
$SIGMA 1
$ESTIMATION METHOD=1
"""
m = read_model_from_string(code)
print(m.parameters.names)
ps = list(m.parameters)
new = Parameters.create([Parameter.create('TVB', 5.0)] + [ps[0].replace(init=2.0)] + ps[1:])
m2 = m.replace(parameters=new)
m2 = m2.update_source()
print(m2.code)
m3 = read_model_from_string(m2.code)
print(m2.parameters.inits, m3.parameters.inits)
print(m2.statements, '|', m3.statements)
