from pharmpy.workflows import Task, Workflow, WorkflowBuilder

def ev(dsk, key, memo):
    if key in memo: return memo[key]
    fn, *args = dsk[key]
    vals = [ev(dsk, a, memo) if isinstance(a, str) and a in dsk else a for a in args]
    memo[key] = fn(*vals)
    return memo[key]

def mkf(i):
    return lambda *a: (i, a)

def wf3(e01: bool, e02: bool, e12: bool, s0: int, s1: int) -> bool:
    """
    post: _ == True
    """
    t0 = Task('t0', mkf(0), s0)
    t1 = Task('t1', mkf(1), s1)
    t2 = Task('t2', mkf(2))
    wb = WorkflowBuilder()
    wb.add_task(t0)
    wb.add_task(t1, predecessors=[t0] if e01 else None)
    preds = ([t0] if e02 else []) + ([t1] if e12 else [])
    wb.add_task(t2, predecessors=preds or None)
    wf = Workflow(wb)
    if len(wf.output_tasks) != 1:
        return True
    d = wf.as_dask_dict()
    got = ev(d, 'results', {})
    r0 = (0, (s0,))
    r1 = (1, (s1,) + ((r0,) if e01 else ()))
    r2 = (2, ((r0,) if e02 else ()) + ((r1,) if e12 else ()))
    return got == r2

# warm-up so that networkx's lazily exec-compiled dispatch wrappers are built outside tracing
def _warm():
    t0 = Task('t0', mkf(0), 1); t1 = Task('t1', mkf(1), 2)
    wb = WorkflowBuilder(); wb.add_task(t0); wb.add_task(t1, predecessors=[t0])
    wf = Workflow(wb); wf.as_dask_dict(); wf.output_tasks
_warm()
