import re, math
from typing import List, Tuple, Dict
import pharmpy.internals.parse.ignored as ign
from pharmpy.internals.set.partitions import partitions
from pharmpy.internals.math import triangular_root

class FakeToken:
    def __init__(self, type, value, start_pos=None, end_pos=None):
        self.type = type; self.value = value; self.start_pos = start_pos; self.end_pos = end_pos
ign.Token = FakeToken

IGN = ' \x00\t;\r\n&'
def check_tok(s: str, i: int, j: int) -> bool:
    """
    pre: len(s) <= 3 and 0 <= i <= j <= len(s)
    post: _ == True
    raises: AssertionError
    """
    toks = list(ign._tokenize_ignored_characters(s, i, j))
    return ''.join(t.value for t in toks) == s[i:j]

def check_split(line: str) -> bool:
    """
    pre: len(line) <= 4
    post: _ == True
    """
    parts = re.split(r' *, *| *[\t] *| +', line)
    return sum(len(p) for p in parts) <= len(line)

def check_tri(n: int) -> bool:
    """
    pre: 0 <= n <= 1000
    post: _ == True
    """
    return triangular_root(n * (n + 1) // 2) == n

def check_part(a: int, b: int, c: int) -> bool:
    """
    pre: a < b < c
    post: _ == True
    """
    ps = list(partitions([a, b, c]))
    return len(ps) == 5 and len(set(ps)) == 5 and all(sorted(x for part in p for x in part) == [a, b, c] for p in ps)
