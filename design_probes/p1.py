import re
from typing import List, Tuple
from pharmpy.internals.sequence.lcs import diff

def apply_new(script):
    return [v for op, v in script if op >= 0]
def apply_old(script):
    return [v for op, v in script if op <= 0]

def check_diff(old: List[int], new: List[int]) -> bool:
    """
    pre: len(old) <= 3 and len(new) <= 3
    post: _ == True
    """
    s = list(diff(old, new))
    return apply_new(s) == new and apply_old(s) == old

def check_split(line: str) -> bool:
    """
    pre: len(line) <= 4
    post: _ == True
    """
    parts = re.split(r' *, *| *[\t] *| +', line)
    # trivial: joined parts length <= len(line)
    return sum(len(p) for p in parts) <= len(line)

def check_split2(text: str) -> bool:
    """
    pre: len(text) <= 5
    post: _ == True
    """
    parts = re.split(r'^([ \t]*\$)', text, flags=re.MULTILINE)
    return ''.join(parts) == text
