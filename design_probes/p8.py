import warnings; warnings.simplefilter('ignore')
from types import SimpleNamespace as NS
from typing import List, Tuple
import pharmpy.model.external.nonmem.update as U

class FP:
    def __init__(self, name, val): self.name = name; self.val = val; self.symbol = ('sym', name)
    def __eq__(self, o): return isinstance(o, FP) and self.name == o.name and self.val == o.val
    def __hash__(self): return hash((self.name, self.val))
    def __repr__(self): return f'FP({self.name},{self.val})'
class FR:
    def __init__(self, items, origin=None): self.items = list(items); self.origin = origin
    def __len__(self): return len(self.items)
    def remove(self, inds):
        if not inds: return self
        return FR([p for i, p in enumerate(self.items) if i not in inds])
    def update(self, params):
        assert len(params) == len(self.items), (params, self.items)
        return FR(list(params))
class FCS:
    def __init__(self, recs): self.recs = recs; self.out = None
    def get_records(self, name): return self.recs
    def replace_all(self, name, new): self.out = new; return self
U.create_theta_record = lambda param: FR([param])

def upd(o: List[Tuple[int, int]], n: List[Tuple[int, int]], cut1: int, cut2: int) -> bool:
    """
    pre: len(o) <= 3 and len(n) <= 3
    pre: all(0 <= a <= 3 and 0 <= b <= 1 for a, b in o) and all(0 <= a <= 3 and 0 <= b <= 1 for a, b in n)
    pre: len(set(a for a, b in o)) == len(o) and len(set(a for a, b in n)) == len(n)
    pre: 0 <= cut1 <= cut2 <= len(o)
    post: _ == True
    """
    old = [FP(a, b) for a, b in o]; new = [FP(a, b) for a, b in n]
    parts = [old[:cut1], old[cut1:cut2], old[cut2:]]
    recs = [FR(p) for p in parts if p]
    model = NS(random_variables=NS(free_symbols=set()), internals=NS(old_random_variables=NS(free_symbols=set())))
    cs = U.update_thetas(model, FCS(recs), old, new)
    flat = [p for r in cs.out for p in r.items]
    return sorted((p.name, p.val) for p in flat) == sorted((p.name, p.val) for p in new)
