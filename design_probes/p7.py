import warnings; warnings.simplefilter('ignore')
import pathlib, contextlib
import pharmpy.workflows.model_database.local_directory as ld

class Crash(BaseException): pass

class MemFS:
    def __init__(self, crash_at):
        self.dirs = {'/db'}; self.files = {}; self.n = 0; self.crash_at = crash_at
    def op(self):
        self.n += 1
        if self.n == self.crash_at: raise Crash()
FS = None
P = pathlib.PosixPath
def _s(p): return str(p)
def mkdir(self, mode=0o777, parents=False, exist_ok=False):
    s = _s(self)
    if s in FS.dirs:
        if exist_ok: return
        raise FileExistsError(s)
    FS.op()
    if parents:
        parts = s.split('/')
        for i in range(2, len(parts)+1): FS.dirs.add('/'.join(parts[:i]))
    else: FS.dirs.add(s)
def touch(self, mode=0o666, exist_ok=True):
    s = _s(self)
    if s in FS.files:
        if exist_ok: return
        raise FileExistsError(s)
    FS.op(); FS.files[s] = ''
def exists(self): return _s(self) in FS.files or _s(self) in FS.dirs
def is_file(self): return _s(self) in FS.files
def is_dir(self): return _s(self) in FS.dirs
def unlink(self, missing_ok=False):
    FS.op(); del FS.files[_s(self)]
def iterdir(self):
    s = _s(self) + '/'
    names = sorted({k[len(s):].split('/')[0] for k in list(FS.files)+list(FS.dirs) if k.startswith(s)})
    return iter([self / n for n in names])
for name, fn in dict(mkdir=mkdir, touch=touch, exists=exists, is_file=is_file, is_dir=is_dir, unlink=unlink, iterdir=iterdir).items():
    setattr(P, name, fn)

import pharmpy.workflows.model_database.baseclass as bc
from pharmpy.workflows.model_entry import ModelEntry as bc_ME
class DI:
    def __init__(self, tok, path=None): self.tok = tok; self.path = path
    def replace(self, path=None): return DI(self.tok, path)
    def __eq__(self, o): return isinstance(o, DI) and self.tok == o.tok
    def to_json(self, path): FS.op(); FS.files[str(path)] = ('di', self.tok, self.path)
class Mod:
    filename_extension = '.mod'
    def __init__(self, tok, dtok, di=None): self.tok = tok; self.dtok = dtok; self.datainfo = di or DI(dtok)
    def replace(self, datainfo=None): return Mod(self.tok, self.dtok, datainfo)
class ME(bc_ME):
    def __init__(self, m): self._m = m
    @property
    def model(self): return self._m
class Key:
    def __new__(cls, obj):
        if isinstance(obj, Key): return obj
        m = obj.model if isinstance(obj, ME) else obj
        self = object.__new__(cls); self.s = 'K%d' % m.tok; self.dataset_hash = 'H%d' % m.dtok
        return self
    def __str__(self): return self.s
def read_json(path):
    v = FS.files.get(str(path))
    if v is None: raise FileNotFoundError(str(path))
    return DI(v[1], v[2])
ld.DataInfo = type('DIshim', (), {'read_json': staticmethod(read_json)})
def write_csv(model, path=None, force=False):
    FS.op(); FS.files[str(path)] = ''
    FS.op(); FS.files[str(path)] = ('csv', model.dtok)
    return model
def write_model(model, path, force=False):
    FS.op(); FS.files[str(path)] = ''
    FS.op(); FS.files[str(path)] = ('model', model.tok)
ld.write_csv = write_csv; ld.write_model = write_model
ld.path_lock = lambda *a, **k: contextlib.nullcontext()
ld.path_absolute = lambda p: p
ld.ModelHash = Key
bc.ModelHash = Key

def store(db, m):
    with db.transaction(ME(m)) as txn:
        txn.store_model()

def crash_then_store_other(k: int, share: bool) -> bool:
    """
    pre: 1 <= k <= 30 and not share
    post: _ == True
    """
    global FS
    FS = MemFS(k)
    db = ld.LocalModelDirectoryDatabase.__new__(ld.LocalModelDirectoryDatabase)
    db.path = pathlib.PosixPath('/db'); db.file_extension = '.mod'
    m1 = Mod(1, 1); m2 = Mod(2, 1 if share else 2)
    try:
        store(db, m1)
    except Crash:
        pass
    FS.crash_at = -1
    try:
        store(db, m2)
    except FileNotFoundError:
        return False
    except StopIteration:
        return False
    return FS.files.get('/db/K2/model.mod') == ('model', 2)
