import warnings; warnings.simplefilter('ignore')
from pharmpy.model.external.nonmem.records.parsers import ThetaRecordParser
import lark
ThetaRecordParser(" 1 FIX ; c\n")
def rt(s: str) -> bool:
    """
    pre: len(s) <= 2
    pre: all(c in ' 1(),.F' for c in s)
    post: _ == True
    """
    try:
        root = ThetaRecordParser(s).root
    except lark.exceptions.LarkError:
        return True
    return str(root) == s
