import warnings; warnings.simplefilter('ignore')
from pharmpy.model import Assignment, Statements
from pharmpy.modeling import read_model_from_string
# C10 suspect
ss = Statements([Assignment.create('A','S'), Assignment.create('S','T'), Assignment.create('D','S'), Assignment.create('B','D'), Assignment.create('Y','A+B')])
print("deps(Y) =", ss.dependencies('Y'), " full:", ss.full_expression('Y'))
# C01 suspects
code = """$PROBLEM x
$INPUT ID TIME AMT DV
$DATA file.csv IGNORE=@
$SUBROUTINE ADVAN3 TRANS5
$PK
AOB = THETA(1)
ALPHA = THETA(2)
BETA = THETA(3)
IF (AMT.GT.0) THEN
  X = 1
  IF (TIME.GT.2) THEN
    X = 2
  END IF
END IF
V = 1
S1 = V
$ERROR
Y = F + EPS(1)
$THETA 1
$THETA 2
$THETA 3
$OMEGA 0.1
$SIGMA 1
$ESTIMATION METHOD=1
"""
try:
    m = read_model_from_string(code)
    print(m.statements.before_odes)
    print(m.statements.ode_system.eqs)
    print(m.statements.ode_system.free_symbols)
except Exception as e:
    import traceback; traceback.print_exc()
