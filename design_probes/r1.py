import threading, time, tempfile, os
from pharmpy.internals.fs.lock import thread_level_lock, path_lock
res = {}
key = "k"
t1_in = threading.Event(); t2_waiting = threading.Event(); t1_release = threading.Event()
def t1():
    with thread_level_lock(key, shared=True, reentrant=True):
        t1_in.set()
        t1_release.wait()
def t2():
    t1_in.wait()
    with thread_level_lock(key, shared=True, reentrant=True):
        t2_waiting.set()
        with thread_level_lock(key, shared=False, blocking=True, reentrant=True):
            res['t2'] = 'got exclusive'
a = threading.Thread(target=t1, daemon=True); b = threading.Thread(target=t2, daemon=True)
a.start(); b.start()
t2_waiting.wait(); time.sleep(0.5)
t1_release.set()
b.join(3)
print("t2 result:", res.get('t2', 'HUNG (lost wake-up)'), "t1 alive:", a.is_alive())
