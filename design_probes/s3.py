import warnings; warnings.simplefilter('ignore')
import tempfile, pathlib
from pharmpy.modeling import load_example_model, set_name, fix_parameters
import pharmpy.workflows.model_database.local_directory as ld
from pharmpy.workflows import ModelEntry
m1 = load_example_model('pheno'); m1 = set_name(m1, 'm1')
m2 = fix_parameters(m1, ['POP_CL']); m2 = set_name(m2, 'm2')   # same dataset, different model
d = tempfile.mkdtemp()
db = ld.LocalModelDirectoryDatabase(d)
orig = ld.write_csv
def boom(*a, **k): raise KeyboardInterrupt("crash")
ld.write_csv = boom
try:
    with db.transaction(ModelEntry.create(m1)) as txn:
        txn.store_model()
except BaseException as e:
    print("crashed:", type(e).__name__)
ld.write_csv = orig
db2 = ld.LocalModelDirectoryDatabase(d)
try:
    with db2.transaction(ModelEntry.create(m2)) as txn:
        txn.store_model()
    print("store m2 ok")
except BaseException as e:
    print("store m2 after crash FAILED:", type(e).__name__, e)
