import pharmpy.internals.parse.ignored as ign
class FakeToken:
    def __init__(self, type, value, start_pos=None, end_pos=None):
        self.type = type; self.value = value; self.start_pos = start_pos; self.end_pos = end_pos
ign.Token = FakeToken
IGN = ' \t;\n&'
def inter(s: str, a0: int, a1: int, b0: int, b1: int) -> bool:
    """
    pre: len(s) <= 4 and 0 <= a0 < a1 <= b0 < b1 <= len(s)
    pre: all(c in ' ;\\nxy' for c in s)
    pre: all(c in ' ;\\n' for c in s[a1:b0])
    pre: not (';' in s[a1:b0] and not s[a1:b0].endswith('\\n') and '\\n' in s[a1:b0][s[a1:b0].index(';'):-1])
    post: _ == True
    raises: AssertionError
    """
    t1 = FakeToken('A', s[a0:a1], a0, a1); t2 = FakeToken('B', s[b0:b1], b0, b1)
    out = ign.interleave_ignored(s, [t1, t2])
    return ''.join(t.value for t in out) == s[a0:b1]
