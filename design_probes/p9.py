import warnings; warnings.simplefilter('ignore')
import re
import pharmpy.model.external.nonmem.dataset as D

PYFLOAT = re.compile(r'[+-]?(\d+\.?\d*|\.\d+)([eE][+-]?\d+)?')
class Rec:
    def __init__(self, s): self.s = s
class FakeNp:
    nan = float('nan')
    @staticmethod
    def float64(s):
        if not isinstance(s, str) or not PYFLOAT.fullmatch(s):
            raise ValueError(s)
        return Rec(s)
D.np = FakeNp

def ref(x: str):
    # documented normal form: returns string for float() or 'ZERO' or raises ValueError
    if PYFLOAT.fullmatch(x): return x
    if x in ('+', '-'): return 'ZERO'
    m = re.fullmatch(r'([+-]?)(\d+\.?\d*|\.\d+)([+-])(\d+)', x)
    if m:
        return ('-' if m.group(1) == '-' else '') + m.group(2) + 'E' + m.group(3) + m.group(4)
    m = re.fullmatch(r'([+-]?(\d+\.?\d*|\.\d+))[dD]([+-]?\d+)', x)
    if m:
        return m.group(1) + 'e' + m.group(3)
    raise ValueError(x)

def conv(x: str) -> bool:
    """
    pre: 1 <= len(x) <= 3
    pre: all(c in '12.+-Dd' for c in x)
    post: _ == True
    """
    try:
        exp = ref(x)
    except ValueError:
        exp = None
    try:
        got = D.convert_fortran_number(x)
        got = 'ZERO' if got == 0.0 and not isinstance(got, Rec) else got.s
    except ValueError:
        got = None
    if exp is None:
        return True   # implementation may accept more than documented; only documented forms are checked
    return got is not None and got.replace('e', 'E') == exp.replace('e', 'E')
