from collections import Counter
from typing import Dict, List
import pharmpy.internals.fs.lock as L

class Blocked(BaseException):
    pass

class FakeCondition:
    """Model of threading.Condition(RLock()) for single-step execution."""
    def __init__(self):
        self.owner = None
        self.depth = 0
        self.notified = False
        self.cur = None
        self.waits = 0
    def acquire(self, blocking=True):
        if self.owner is None or self.owner == self.cur:
            self.owner = self.cur
            self.depth += 1
            return True
        if blocking:
            raise Blocked()
        return False
    def release(self):
        assert self.owner == self.cur
        self.depth -= 1
        if self.depth == 0:
            self.owner = None
    def wait(self):
        self.waits += 1
        raise Blocked()
    def notify_all(self):
        self.notified = True

def mk(c1: int, c2: int, c3: int):
    tl = L.ShareableThreadLock()
    tl._condition = FakeCondition()
    cnt = Counter()
    for t, c in ((1, c1), (2, c2), (3, c3)):
        if c > 0:
            cnt[t] = c
    tl._acquired_by = cnt
    return tl

def sh_exit_notifies(c1: int, c2: int, c3: int, waiter_has: bool) -> bool:
    """
    Thread 1 releases one shared hold. Thread 2 is an un-notified waiter in _lock_ex (blocking),
    so its wait-condition (someone other than 2 holds) was true before.
    pre: 1 <= c1 <= 3 and 0 <= c2 <= 3 and 0 <= c3 <= 3
    pre: c1 + c3 > 0
    post: _ == True
    """
    tl = mk(c1, c2, c3)
    cond = tl._condition
    cond.cur = 1
    L.get_ident = lambda: 1
    cm = tl._lock_sh(blocking=True, reentrant=True)
    # simulate being inside: we construct state as if entered; run only exit
    gen = cm.gen
    # advance to yield without changing state: instead emulate by entering then fixing count
    cm.__enter__()
    tl._acquired_by[1] -= 1
    cm.__exit__(None, None, None)
    others_after = any(v > 0 for k, v in tl._acquired_by.items() if k != 2)
    # waiter 2 may remain un-notified only if its wait condition still holds
    return cond.notified or others_after
