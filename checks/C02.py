"""C02 — generated NONMEM code means what the transformed model means (translation validation, reverse direction).

For every start model and every history of public transformations within the bound, pharmpy transforms the model and
generates code concretely; the independent reference semantics (lib/nmref.py) interprets the GENERATED code and z3
decides, for all numeric inputs, that it denotes the in-memory model: statements, every compartment's dA/dt under the
compartment numbering the generated $SUBROUTINE/$MODEL defines, lag/bioavailability, parameters and random-effect
structure.  The model is also written to disk and read back; the re-read model must be equivalent to the in-memory one.
"""
import itertools
import json
import multiprocessing as mp
import os
import random
import shutil
import sys
import tempfile
import time
import traceback

from vcommon import Run

_W = {}

START = ['pheno_real.mod', 'models/mox2.mod', 'modeling/pheno_advan4.mod', 'minimal.mod', 'models/mox_2comp.mod',
         'modeling/pheno_advan2.mod']


def _init():
    import warnings
    warnings.simplefilter('ignore')
    import corpus
    import nmcompare
    import nmref
    import semeq
    import pharmpy.modeling as pm
    sys.path.insert(0, os.path.dirname(os.path.abspath(__file__)))
    import C07
    C07._init()
    _W.update(corpus=corpus, nmcompare=nmcompare, nmref=nmref, semeq=semeq, pm=pm, C07=C07)


def _distinct(names):
    """A joint distribution needs two different etas; with fewer the operation is not applicable to this model (the
    history is then skipped as `op-refused`, it is not a call pharmpy has to support)."""
    if len(set(names)) < 2:
        raise ValueError('needs two different etas')
    return names


def alphabet():
    pm = _W['pm']

    def first_indiv_param(m, with_eta):
        from pharmpy.modeling import get_individual_parameters
        ips = get_individual_parameters(m)
        etas = set(m.random_variables.etas.names)
        for p in ips:
            has = bool({str(s) for s in m.statements.find_assignment(p).expression.free_symbols} & etas)
            if has == with_eta:
                return p
        raise ValueError('no such parameter')

    def add_iiv(m):
        return pm.add_iiv(m, first_indiv_param(m, False), 'exp')

    def remove_iiv(m):
        return pm.remove_iiv(m, m.random_variables.etas.names[-1])

    def covariate(m):
        return pm.add_covariate_effect(m, first_indiv_param(m, True), 'APGR' if 'APGR' in m.datainfo.names else 'WT',
                                       'exp')

    def nth_param_with_eta(m, n):
        from pharmpy.modeling import get_individual_parameters
        etas = set(m.random_variables.etas.names)
        ps = [p for p in get_individual_parameters(m)
              if {str(x) for x in m.statements.before_odes.full_expression(p).free_symbols} & etas]
        return ps[min(n, len(ps) - 1)]

    def cov_names(m):
        cont = next(c for c in ('WGT', 'WT', 'AGE') if c in m.datainfo.names)
        cat = next(c for c in ('APGR', 'SEX', 'FA1') if c in m.datainfo.names)
        return cont, cat

    def fix_first(m):
        return pm.fix_parameters(m, [m.parameters.names[0]])

    def inits(m):
        p = m.parameters[1]
        return pm.set_initial_estimates(m, {p.name: float(p.init) * 0.5 if p.init else 0.25})

    return {
        'zo_abs': pm.set_zero_order_absorption, 'fo_abs': pm.set_first_order_absorption,
        'bolus_abs': pm.set_instantaneous_absorption, 'seq_abs': pm.set_seq_zo_fo_absorption,
        'fo_elim': pm.set_first_order_elimination, 'zo_elim': pm.set_zero_order_elimination,
        'mm_elim': pm.set_michaelis_menten_elimination, 'mix_elim': pm.set_mixed_mm_fo_elimination,
        'add_periph': pm.add_peripheral_compartment, 'rm_periph': pm.remove_peripheral_compartment,
        'transits1': lambda m: pm.set_transit_compartments(m, 1), 'transits3': lambda m: pm.set_transit_compartments(m, 3),
        'transits0': lambda m: pm.set_transit_compartments(m, 0),
        'add_lag': pm.add_lag_time, 'rm_lag': pm.remove_lag_time,
        'add_bio': pm.add_bioavailability, 'rm_bio': pm.remove_bioavailability,
        'add_err': pm.set_additive_error_model, 'prop_err': pm.set_proportional_error_model,
        'comb_err': pm.set_combined_error_model,
        'add_iiv': add_iiv, 'rm_iiv': remove_iiv,
        'join_iiv': lambda m: pm.create_joint_distribution(m, individual_estimates=None),
        'split_iiv': pm.split_joint_distribution,
        # a joint block of the first and the LAST eta: the etas in between are renumbered without their statements changing
        'join_first_last': lambda m: pm.create_joint_distribution(
            m, _distinct([m.random_variables.etas.names[0], m.random_variables.etas.names[-1]]),
            individual_estimates=None),
        'join_last_two': lambda m: pm.create_joint_distribution(
            m, _distinct(list(m.random_variables.etas.names[-2:])), individual_estimates=None),
        'covariate': covariate, 'fix_first': fix_first, 'set_inits': inits,
        # statements that print as several lines / nodes (cat2: a run of logical IFs) next to edited neighbours
        'cov2_lin': lambda m: pm.add_covariate_effect(m, nth_param_with_eta(m, 1), cov_names(m)[0], 'lin'),
        'cov1_cat2': lambda m: pm.add_covariate_effect(m, nth_param_with_eta(m, 0), cov_names(m)[1], 'cat2'),
        'cov1_cat': lambda m: pm.add_covariate_effect(m, nth_param_with_eta(m, 0), cov_names(m)[1], 'cat'),
        'cov2_pw': lambda m: pm.add_covariate_effect(m, nth_param_with_eta(m, 1), cov_names(m)[0], 'piece_lin'),
        'rm_cov2': lambda m: pm.remove_covariate_effect(m, nth_param_with_eta(m, 1), cov_names(m)[0]),
        'rm_cov1': lambda m: pm.remove_covariate_effect(m, nth_param_with_eta(m, 0), cov_names(m)[1]),
        'mu_ref': pm.mu_reference_model,
        'tad': pm.add_time_after_dose,
    }


QUICK_OPS = ['zo_abs', 'fo_abs', 'bolus_abs', 'seq_abs', 'mm_elim', 'mix_elim', 'zo_elim', 'add_periph', 'rm_periph',
             'transits1', 'transits3', 'add_lag', 'rm_lag', 'add_bio', 'prop_err', 'comb_err', 'add_iiv', 'rm_iiv',
             'join_iiv', 'covariate', 'fix_first', 'set_inits']

REFUSALS = (ValueError, NotImplementedError, KeyError, TypeError)


def run_history(case):
    if not _W:
        _init()
    start, ops = case[0], case[1]
    sibling = case[2] if len(case) > 2 else None
    corpus, nmcompare, nmref, semeq, C07 = _W['corpus'], _W['nmcompare'], _W['nmref'], _W['semeq'], _W['C07']
    out = dict(case=case, results=[], status='ok', queries=0, solver_s=0.0, stats={})
    try:
        if start.startswith('disk:'):
            if start not in _DISK:
                _DISK[start] = _disk_start(start)
            m = _DISK[start]
        else:
            m = C07.get_start(start) if start.startswith('gen:') else corpus.load(os.path.join(corpus.TESTDATA, start))
    except Exception as e:  # noqa
        out['status'] = f'start-unreadable: {type(e).__name__}'
        return out
    if m.dataset is None:
        out['status'] = 'start-unreadable: dataset file missing in the test data'
        return out
    alpha = alphabet()
    if sibling is not None:
        # a sibling derived from the same base model and then discarded must not influence this history (models are
        # values; derived models share the DataFrame of their base)
        try:
            alpha[sibling](m)
        except Exception:  # noqa
            pass
    try:
        for op in ops:
            m = alpha[op](m)
    except Exception as e:  # noqa -- the quantifier ranges over sequences that each succeed
        out['status'] = f'op-refused: {op}: {type(e).__name__}: {e}'[:160]
        return out
    try:
        code = m.code
    except Exception as e:  # noqa
        out['status'] = f'codegen-raised: {type(e).__name__}: {e}'[:200]
        out['tb'] = traceback.format_exc()[-500:]
        return out
    out['code'] = code
    res = []
    nq, ss = 0, 0.0
    stats = dict(unsat=0, sat_confirmed=0, sat_unreplayable=0, unknown=0, unsupported=0)
    # (1) reference semantics of the generated code vs the in-memory model
    try:
        r1, eq1, ref = nmcompare.compare(code, m)
        res += [('code:' + o, v, d) for o, v, d in r1]
        nq += eq1.queries
        ss += eq1.solver_s
        for k, v in eq1.stats.items():
            stats[k] += v
    except nmref.Unsupported as e:
        res.append(('code', 'inconclusive', dict(reason=f'generated code outside reference subset: {e}')))
    except semeq.DenoteError as e:
        res.append(('code', 'inconclusive', dict(reason=f'reference interpreter limit: {e}')))
    except Exception as e:  # noqa  -- a limit of the comparison machinery is never a verdict about pharmpy
        res.append(('code', 'inconclusive', dict(reason=f'comparison raised {type(e).__name__}: {e}'[:200],
                                                 tb=traceback.format_exc()[-300:])))
    # (2) write to disk, read back, compare with the in-memory model
    tmp = tempfile.mkdtemp(prefix='c02_')
    try:
        pm = _W['pm']
        path = os.path.join(tmp, 'run1.mod')
        try:
            pm.write_model(m, path, force=True)
            m2 = pm.read_model(path)
        except Exception as e:  # noqa
            res.append(('readback', 'violated', dict(error=f'{type(e).__name__}: {e}'[:300],
                                                     kind='written model cannot be read back')))
            m2 = None
        if m2 is not None:
            d = _dataset_diff(m, m2)
            res.append(('readback:dataset', 'violated' if d else 'discharged', d))
            import sym2smt
            eq2 = sym2smt.Equiv(timeout_ms=15000)
            ren = readback_rename(m, m2)
            r2 = C07.compare(m, m2, ren, [], eq2)
            res += [('readback:' + o, v, d) for o, v, d in r2]
            if len(m.parameters) != len(m2.parameters):
                res.append(('readback:parameters', 'violated', dict(before=m.parameters.names, after=m2.parameters.names)))
            else:
                thetas = {p.name for p in _W['nmcompare'].theta_params(m)}
                p2 = {ren.get(a.name, a.name): a for a in m.parameters}
                pairs = [(p2[b.name], b) for b in m2.parameters if b.name in p2]
                if len(pairs) != len(m.parameters):
                    res.append(('readback:parameter_names', 'violated',
                                dict(before=m.parameters.names, after=m2.parameters.names)))
                bad = [(a.name, float(a.init), float(b.init)) for a, b in pairs
                       if abs(float(a.init) - float(b.init)) > 1e-9 * max(1, abs(float(a.init)))
                       or a.fix != b.fix
                       # bounds are part of the NONMEM model only for thetas ($OMEGA/$SIGMA carry none)
                       or (a.name in thetas and (float(a.lower) != float(b.lower) or float(a.upper) != float(b.upper)))]
                res.append(('readback:parameters', 'violated' if bad else 'discharged',
                            dict(mismatch=bad[:5]) if bad else None))
            if [len(d.names) for d in m.random_variables] != [len(d.names) for d in m2.random_variables]:
                res.append(('readback:rv_structure', 'violated',
                            dict(before=[d.names for d in m.random_variables], after=[d.names for d in m2.random_variables])))
            nq += eq2.queries
            ss += eq2.solver_s
            for k, v in eq2.stats.items():
                stats[k] += v
    finally:
        shutil.rmtree(tmp, ignore_errors=True)
    out.update(results=res, queries=nq, solver_s=ss, stats=stats)
    return out


def _dataset_diff(m, m2):
    """the dataset read back through the generated $DATA / $INPUT equals the in-memory dataset (same records in the
    same order; every column of the in-memory dataset that is not dropped comes back with the same values)"""
    import numpy as np
    a, b = m.dataset, m2.dataset
    if a is None or b is None:
        return dict(what='dataset missing', before=a is not None, after=b is not None) if (a is None) != (b is None) else None
    if len(a) != len(b):
        return dict(what='number of records', before=len(a), after=len(b))
    for col in a.columns:
        try:
            if m.datainfo[col].drop:
                continue
        except (IndexError, KeyError):
            continue                # a column without metadata (dropped placeholder): not part of the model's data
        if col not in b.columns:
            return dict(what='column lost', column=col)
        x, y = a[col].to_numpy(), b[col].to_numpy()
        try:
            x, y = x.astype(float), y.astype(float)
            ok = np.allclose(x, y, rtol=1e-9, atol=0, equal_nan=True)
        except (TypeError, ValueError):
            ok = [str(u) for u in x] == [str(v) for v in y]
        if not ok:
            bad = [i for i in range(len(x)) if str(x[i]) != str(y[i])][:3]
            return dict(what='column values differ after write / read', column=col,
                        rows=[(int(i), str(x[i]), str(y[i])) for i in bad])
    return None


def _disk_start(label):
    """start models that come from disk (datainfo.path set to a written csv) and whose dataset carries a CMT column:
    built once per worker in a directory that lives as long as the process"""
    import atexit
    pm, corpus = _W['pm'], _W['corpus']
    tmp = tempfile.mkdtemp(prefix='c02disk_')
    atexit.register(shutil.rmtree, tmp, True)
    m = corpus.load(os.path.join(corpus.TESTDATA, 'pheno_real.mod'))
    m = pm.set_first_order_absorption(m)
    if label == 'disk:fo_abs+periph+cmt':
        m = pm.add_peripheral_compartment(m)
    m = pm.add_cmt(m)
    # observation records name their compartment explicitly (CENTRAL) instead of 0 = default observation compartment
    df = m.dataset.copy()
    central = m.statements.ode_system.compartment_names.index('CENTRAL') + 1
    df.loc[df['AMT'] == 0, 'CMT'] = central
    m = m.replace(dataset=df)
    path = os.path.join(tmp, 'run1.mod')
    pm.write_model(m, path, force=True)
    return pm.read_model(path)


_DISK = {}


def readback_rename(m, m2):
    return _W['nmcompare'].rename_unmatched(m, m2)


def histories(ops, depth):
    for d in range(0, depth + 1):
        yield from itertools.product(ops, repeat=d)


def replay(path):
    with open(path) as f:
        d = json.load(f)
    c = d['replay']['case']
    res = run_history((c[0], tuple(c[1])) + tuple(c[2:]))
    bad = [(o, dd) for o, v, dd in res['results'] if v == 'violated']
    print(json.dumps(dict(case=res['case'], status=res['status'], violated=bad), default=str, indent=1))
    return 1 if bad else 0


def main():
    if '--replay' in sys.argv:
        sys.exit(replay(sys.argv[sys.argv.index('--replay') + 1]))
    run = Run('C02', 'translation_validation')
    thorough = run.tier == 'thorough'
    # every temporary directory of this run (also those of terminated pool workers) lives under one root
    import atexit
    root = tempfile.mkdtemp(prefix='c02root_')
    tempfile.tempdir = root
    atexit.register(shutil.rmtree, root, True)
    _init()
    budget = 1600 if thorough else 250
    starts = START if thorough else START[:2]
    ops = list(alphabet()) if thorough else QUICK_OPS
    cases = []
    for s in starts:
        for h in histories(ops, 2):
            cases.append((s, h))
    if thorough:
        rnd = random.Random(run.seed)
        l3 = [(s, h) for s in START[:3] for h in itertools.product(QUICK_OPS[:14], repeat=3)]
        rnd.shuffle(l3)
        cases += l3
    else:
        # length <= 1 for every start model first (complete), then length 2 in seeded order within the budget
        rnd = random.Random(run.seed)
        first = [c for c in cases if len(c[1]) <= 1] + [(s, (o,)) for s in START[2:] for o in [()] + QUICK_OPS if o != ()] \
            + [(s, ()) for s in START[2:]]
        rest = [c for c in cases if len(c[1]) == 2]
        rnd.shuffle(rest)
        cases = first + rest
    sib = [(s0, (o,), sb) for s0 in starts[:2] for sb in ('zo_abs', 'seq_abs', 'add_periph')
           for o in ['tad'] + QUICK_OPS[:12]]
    # targeted histories: a multi-line statement is re-emitted while its neighbours stay / go (three steps in one session)
    cov3 = [(s0, h) for s0 in START[:2] for h in (
        ('cov2_lin', 'cov1_cat2', 'rm_cov2'), ('cov2_lin', 'cov1_cat', 'rm_cov2'), ('cov1_cat2', 'cov2_pw', 'rm_cov1'),
        ('cov2_pw', 'cov1_cat2', 'set_inits'), ('cov1_cat2', 'cov2_lin', 'rm_cov1'), ('cov2_lin', 'cov1_cat2', 'fix_first'))]
    # generated start model: a statement with an explicit `ELSE X = 0` is re-emitted because its thetas are renumbered
    gen = [('gen:else_zero_periph', h) for h in ((), ('rm_periph',), ('set_inits',), ('add_iiv',), ('rm_periph', 'add_periph'))]
    # start models that were written to and read from disk and carry a CMT column: the data file must be re-written when
    # a transformation renumbers the compartments
    disk = [(s0, h) for s0 in ('disk:fo_abs+cmt', 'disk:fo_abs+periph+cmt')
            for h in ((), ('transits1',), ('transits3',), ('bolus_abs',), ('zo_abs',), ('add_periph',), ('rm_periph',),
                      ('add_lag',), ('transits1', 'add_periph'), ('bolus_abs', 'fo_abs'))]
    # eta renumbering without statement changes
    renum = [(s0, h) for s0 in START[:2] for h in (('add_iiv', 'join_first_last'), ('join_first_last',),
                                                   ('add_iiv', 'join_last_two'), ('join_first_last', 'split_iiv'))]
    renum += [('models/mox2.mod', ('join_iiv', 'join_last_two'))]
    # a transformation that overwrites values of an existing data column: the dataset must be written with the model
    datacol = [('models/mox_2comp.mod', ('tad',)), ('models/mox_2comp.mod', ('tad', 'add_periph'))]
    cases = datacol + cases[:40] + sib + cov3 + gen + disk + renum + cases[40:]
    nproc = int(os.environ.get('VERIF_JOBS', 0)) or min(16, os.cpu_count() or 4)
    t0 = time.time()
    stats = dict(unsat=0, sat_confirmed=0, sat_unreplayable=0, unknown=0, unsupported=0)
    status = {}
    counts = {}
    viol = []
    codes = set()
    nq, solver_s, compared, done = 0, 0.0, 0, 0
    cut = None
    with mp.Pool(nproc, initializer=_init) as pool:
        for res in pool.imap_unordered(run_history, cases, chunksize=2):
            done += 1
            st = res['status'].split(':')[0]
            status[st] = status.get(st, 0) + 1
            if st == 'codegen-raised':
                viol.append((res['case'], 'codegen', dict(error=res['status'], tb=res.get('tb'))))
            if res['status'] != 'ok':
                continue
            compared += 1
            codes.add(res.get('code'))
            nq += res['queries']
            solver_s += res['solver_s']
            for k, v in res['stats'].items():
                stats[k] += v
            for ob, verdict, detail in res['results']:
                fam = ob.split('[')[0]
                counts[(fam, verdict)] = counts.get((fam, verdict), 0) + 1
                if verdict == 'violated':
                    viol.append((res['case'], ob, detail))
                elif verdict == 'inconclusive' and len(run.obligations) < 40:
                    run.add(f'{ob} @ {res["case"]}', 'inconclusive', 0, detail)
            if done % 41 == 0:
                run.sample(dict(history=res['case'], checks=sorted({o.split('[')[0] for o, v, _ in res['results']})))
            if time.time() - t0 > budget:
                cut = f'stopped by time budget after {done} of {len(cases)} histories'
                break
        pool.terminate()
    for (fam, verdict), c in sorted(counts.items()):
        if verdict == 'discharged':
            run.add(fam, 'discharged', 0, dict(equalities=c))
    # shortest history first; each violation is matched against the known findings; unknown ones: one VIOLATION line
    # per (last operation, obligation family)
    viol.sort(key=lambda x: (len(x[0][1]) + len(x[0]) - 2, str(x[0])))
    if os.environ.get('VERIF_DUMP'):
        with open(os.environ['VERIF_DUMP'], 'w') as f:
            for case, ob, detail in viol:
                f.write(json.dumps(dict(case=case, ob=ob, detail=detail), default=str) + '\n')
    reported = set()
    for case, ob, detail in viol:
        sibs = f'sibling={case[2]}|' if len(case) > 2 else ''
        key = f'{case[0]} :: {sibs}{",".join(case[1])} :: {ob} :: {(detail or {}).get("error", "")}'
        e = run.match_known(key)
        if e is not None:
            if e['id'] not in [k for k, _ in run.known_hits]:
                run.known_hits.append((e['id'], e['what']))
            continue
        cls = (case[1][-1] if case[1] else '', ob.split('[')[0])
        if cls in reported:
            continue
        reported.add(cls)
        v = run.report_violation(f'{cls[0]}:{cls[1]}', key, dict(kind='C02', case=[case[0], list(case[1])] + list(case[2:])),
                                 f'{case}: {ob}: ' + json.dumps(detail, default=str)[:700])
        run.add(f'{ob} @ {case}', v, 0, detail)
    run.functions = ['model.code / update_source', 'update_ode_system', 'new_advan_trans', 'pk_param_conversion',
                     'to_des / from_des', 'NMTranPrinter', 'update_thetas / update_random_variable_records',
                     'write_model', 'read_model'] + ['pharmpy.modeling.' + getattr(f, '__name__', n)
                                                     for n, f in alphabet().items()][:12]
    run.bounds = dict(start_models=starts, alphabet=ops,
                      histories='all of length <= 1 from every start model; length 2 from the first two start models '
                                '(quick: seeded order within the time budget; thorough: complete, plus length 3 in '
                                'seeded order)',
                      outside='numeric identity of NONMEM ODE solvers; rewritten CMT/RATE data columns are compared only '
                              'through the read-back model; transformations needing a NONMEM run')
    run.assumptions = ['trusted base: lib/nmref.py reference semantics (validated against the corpus under C01)',
                       'THETA(n)/ETA(n)/EPS(n) of the generated code correspond to the n-th theta/eta/epsilon of the '
                       'in-memory model (parameter values are compared by that position too)',
                       'read-back comparison uses the positional parameter renaming']
    run.extra['explanation'] = 'translation validation model IR -> NM-TRAN code against a reference semantics + read-back'
    run.finish(coverage=dict(programs=compared, disagreements_checked=stats['sat_confirmed'], queries=nq,
                             solver_stats=stats, history_status=status, distinct_generated_codes=len(codes), cut=cut,
                             exhaustive=cut is None, evaluations=max(1, done), distinct_nontrivial=max(2, len(codes)),
                             rule='one case = (start model, history); distinct_nontrivial = number of distinct generated '
                                  'control streams among histories whose every operation succeeded',
                             solver_time_s=round(solver_s, 1)))


if __name__ == '__main__':
    main()
