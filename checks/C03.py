"""C03 — control streams round-trip losslessly; edits touch only what changed (mechanism level).

CrossHair/z3 symbolic execution of (0) the real lark record parsers on tiny symbolic texts, (1) the ignored-character
tokenizer, (2) interleave_ignored / with_ignored_tokens on stand-in trees with symbolic token ranges, (3) NMTranParser
record splitting, (4) CodeRecord.update_statements + _index_statements_diff bookkeeping, (5) AttrTree edit helpers.
"""
import sys

from vcommon import Run
from xhair import Ob, replay_call, replay_file, run_obligations

HP, HI, HE = 'C03_parsers.py', 'C03_ignored.py', 'C03_edit.py'
NALPHA = 7      # every parser alphabet in C03_parsers.TABLE has 7 characters
QUICK_PARSERS = ['theta', 'omega', 'option']
ALL_PARSERS = ['theta', 'omega', 'option', 'data', 'code', 'problem', 'simulation']
LEN3_PARSERS = ['theta', 'omega', 'option', 'code']


def confirm(ob, call, rep):
    """Second stage for harnesses that rebind something inside pharmpy: same obligation, concrete, nothing rebound."""
    if ob.file == HI or ob.func.startswith('stream_split'):
        real = Ob(ob.name, ob.file, ob.func, env=dict(ob.env, VH_REAL=1))
        r = replay_call(real, call)
        r['note'] = 'unstubbed re-evaluation (real lark.Token / real record parsers)'
        return r
    if ob.file == HP:
        return dict(ok=False, note='nothing is stubbed in this harness: the concrete replay ran the real parsers')
    return dict(ok=False, note='concrete replay of the real update_statements / AttrTree helper code over stand-in '
                               'statement nodes (no pharmpy code replaced except _statement_to_nodes)')


def build(thorough):
    T = 900 if thorough else 300
    obs = []
    # ---- (0) real parsers
    for p in (ALL_PARSERS if thorough else QUICK_PARSERS):
        e = dict(VH_PARSER=p)
        obs.append(Ob(f'roundtrip[{p},len<=1]', HP, 'roundtrip', T, env=dict(e, VH_MAXLEN=1)))
        for i in range(NALPHA):
            obs.append(Ob(f'roundtrip[{p},len=2,first={i}]', HP, 'roundtrip', T,
                          env=dict(e, VH_MAXLEN=2, VH_LEN=2, VH_FIRST=i)))
            if thorough and p in LEN3_PARSERS:
                for j in range(NALPHA):
                    obs.append(Ob(f'roundtrip[{p},len=3,first={i},second={j}]', HP, 'roundtrip', T,
                                  env=dict(e, VH_MAXLEN=3, VH_LEN=3, VH_FIRST=i, VH_SECOND=j)))
    for p in (ALL_PARSERS if thorough else ['theta']):
        e = dict(VH_PARSER=p)
        obs.append(Ob(f'roundtrip_stream[{p},len<=1]', HP, 'roundtrip_stream', T, env=dict(e, VH_MAXLEN=1)))
        for i in (range(NALPHA) if thorough else (0, 1, 3)):
            obs.append(Ob(f'roundtrip_stream[{p},len=2,first={i}]', HP, 'roundtrip_stream', T,
                          env=dict(e, VH_MAXLEN=2, VH_LEN=2, VH_FIRST=i)))
    # ---- (1) tokenizer of ignored characters
    obs.append(Ob('tokenize[len<=2]', HI, 'tokenize', T, env=dict(VH_TOKMAX=2)))
    for i in range(8):
        obs.append(Ob(f'tokenize[len=3,first={i}]', HI, 'tokenize', T, env=dict(VH_TOKMAX=3, VH_TOKLEN=3, VH_TOKFIRST=i)))
        if thorough:
            obs.append(Ob(f'tokenize[len=4,first={i}]', HI, 'tokenize', T,
                          env=dict(VH_TOKMAX=4, VH_TOKLEN=4, VH_TOKFIRST=i)))
    # ---- (2) interleaving
    obs.append(Ob('interleave2[src<=4]', HI, 'interleave2', T, env=dict(VH_SRCMAX=4)))
    obs.append(Ob(f'interleave3[src<={5 if thorough else 4}]', HI, 'interleave3', T,
                  env=dict(VH_SRCMAX=5 if thorough else 4)))
    for k in range(8):
        few = k <= 3       # shapes with <= 2 tokens have more ignorable characters -> smaller source bound
        m = (4 if few else 5) if thorough else (3 if few else 4)
        obs.append(Ob(f'whole_tree[shape={k},src<={m}]', HI, 'whole_tree', T, env=dict(VH_SRCMAX=m, VH_SHAPE=k)))
    # ---- (3) record splitting
    obs.append(Ob('stream_split[len<=3]', HE, 'stream_split', T, env=dict(VH_STRMAX=3)))
    for i in range(7):
        obs.append(Ob(f'stream_split[len=4,first={i}]', HE, 'stream_split', T,
                      env=dict(VH_STRMAX=4, VH_STRLEN=4, VH_STRFIRST=i)))
        if thorough:
            obs.append(Ob(f'stream_split[len=5,first={i}]', HE, 'stream_split', T,
                          env=dict(VH_STRMAX=5, VH_STRLEN=5, VH_STRFIRST=i)))
    # ---- (4) update_statements bookkeeping
    e2 = dict(VH_SEQMAX=2, VH_NPOOL=3)
    for on in (0, 1):
        obs.append(Ob(f'update_statements[pool=3,old={on}]', HE, 'update_statements', T, env=dict(e2, VH_OLDN=on)))
    for nn in (0, 1):
        obs.append(Ob(f'update_statements[pool=3,old=2,new={nn}]', HE, 'update_statements', T,
                      env=dict(e2, VH_OLDN=2, VH_NEWN=nn)))
    for k in range(3):
        obs.append(Ob(f'update_statements[pool=3,old=2,new=2,old0={k}]', HE, 'update_statements', T,
                      env=dict(e2, VH_OLDN=2, VH_NEWN=2, VH_OLD0=k)))
    if thorough:
        e3 = dict(VH_SEQMAX=3, VH_NPOOL=2)
        for on in range(4):
            for nn in range(4):
                if max(on, nn) != 3:
                    continue
                if on == 3 and nn >= 2:
                    for k in range(2):
                        obs.append(Ob(f'update_statements[pool=2,old={on},new={nn},old0={k}]', HE, 'update_statements',
                                      T, env=dict(e3, VH_OLDN=on, VH_NEWN=nn, VH_OLD0=k)))
                else:
                    obs.append(Ob(f'update_statements[pool=2,old={on},new={nn}]', HE, 'update_statements', T,
                                  env=dict(e3, VH_OLDN=on, VH_NEWN=nn)))
        for fn in (1, 2):
            for k in range(3):
                obs.append(Ob(f'update_twice[old=1,new=2,final={fn},new0={k}]', HE, 'update_twice', T,
                              env=dict(e2, VH_OLDN=1, VH_NEWN=2, VH_FINN=fn, VH_NEW0=k)))
    # two updates in a row where one statement prints as several nodes (records produced by an earlier update)
    for k in range(3):
        obs.append(Ob(f'update_twice[multi-node statement,old=1,new=2,final=2,new0={k}]', HE, 'update_twice', T,
                      env=dict(e2, VH_OLDN=1, VH_NEWN=2, VH_FINN=2, VH_NEW0=k, VH_MULTI=1)))
    # ---- (5) AttrTree edit helpers
    km = 4 if thorough else 3
    for f in ('helper_remove_token_and_space', 'helper_insert', 'helper_replace', 'helper_partition'):
        obs.append(Ob(f'{f}[children<={km}]', HE, f, T, env=dict(VH_KIDSMAX=km)))
    # ---- record-level edits of a parsed control stream (duplicate identical records included)
    for i in range(6):
        obs.append(Ob(f'stream_edit[first={i}]', 'C03_stream.py', 'stream_edit', T, env=dict(VH_I1=i)))
    obs.append(Ob('stream_edit__twin', 'C03_stream.py', 'stream_edit__twin', 150, kind='twin', env={}))
    # ---- model level: regeneration of an unmodified model / single-component edits keep the unrelated records
    EDITS = {0: 'none', 1: 'theta-init', 2: 'description', 3: 'sigma-init', 4: 'pk-statement', 5: 'model-name',
             6: 'estimation-method'}
    for ed, en in EDITS.items():
        if thorough:
            for s0 in range(4):
                obs.append(Ob(f'model_regen[edit={en},sizes={s0},all slots]', 'C03_model.py', 'model_regen', 900,
                              env=dict(VH_EDIT=ed, VH_S0=s0, VH_GROUP='all')))
        else:
            for g in ('head', 'params'):
                obs.append(Ob(f'model_regen[edit={en},vary={g}]', 'C03_model.py', 'model_regen', max(T, 240),
                              env=dict(VH_EDIT=ed, VH_GROUP=g)))
    obs.append(Ob('finding_abbrev_record_rewritten', 'C03_model.py', 'abbrev_regen', max(T, 240), env={}))
    obs.append(Ob('append_statement_at_end', 'C03_model.py', 'append_statement_at_end', max(T, 240), env={}))
    obs.append(Ob('append_statement_at_end__twin', 'C03_model.py', 'append_statement_at_end__twin', 150, kind='twin', env={}))
    obs.append(Ob('model_regen__twin', 'C03_model.py', 'model_regen__twin', 150, kind='twin',
                  env=dict(VH_EDIT=1, VH_GROUP='head')))
    # ---- twins
    for p in (ALL_PARSERS if thorough else QUICK_PARSERS):
        obs.append(Ob(f'roundtrip__twin[{p}]', HP, 'roundtrip__twin', 150, kind='twin',
                      env=dict(VH_PARSER=p, VH_MAXLEN=1)))
    obs.append(Ob('roundtrip_stream__twin[theta]', HP, 'roundtrip_stream__twin', 150, kind='twin',
                  env=dict(VH_PARSER='theta', VH_MAXLEN=1)))
    for f, h, e in (('tokenize', HI, dict(VH_TOKMAX=3)), ('interleave2', HI, dict(VH_SRCMAX=4)),
                    ('interleave3', HI, dict(VH_SRCMAX=4)), ('whole_tree', HI, dict(VH_SRCMAX=4)),
                    ('stream_split', HE, dict(VH_STRMAX=3)), ('update_statements', HE, e2),
                    ('helper_remove_token_and_space', HE, {}), ('helper_insert', HE, {}),
                    ('helper_replace', HE, {}), ('helper_partition', HE, {})):
        obs.append(Ob(f'{f}__twin', h, f + '__twin', 150, kind='twin', env=e))
    if thorough:
        obs.append(Ob('update_twice__twin', HE, 'update_twice__twin', 150, kind='twin', env=e2))

    def cost(o):
        if o.kind == 'twin':
            return 9
        if 'update_statements' in o.name or 'whole_tree' in o.name or 'len=4' in o.name or 'len=5' in o.name \
                or 'model_regen' in o.name:
            return 0
        return 1
    obs.sort(key=cost)
    return obs


def main():
    if '--replay' in sys.argv:
        sys.exit(replay_file(sys.argv[sys.argv.index('--replay') + 1]))
    run = Run('C03', 'other')
    thorough = run.tier == 'thorough'
    obs = build(thorough)
    run.functions = ['ThetaRecordParser / OmegaRecordParser / OptionRecordParser'
                     + (' / DataRecordParser / CodeRecordParser / ProblemRecordParser / SimulationRecordParser'
                        if thorough else '') + ' (real lark parse + post_process + AttrTree.__str__)',
                     'NMTranParser.parse', 'create_record', 'split_raw_record_name', 'get_canonical_record_name',
                     '_tokenize_ignored_characters', '_interleave_ignored', 'interleave_ignored', 'with_ignored_tokens',
                     'InterleaveIgnored', '_item_range', 'CodeRecord.update_statements', '_index_statements_diff',
                     'lcs.diff', 'remove_token_and_space', 'insert_before_or_at_end', 'insert_after',
                     'AttrTree.replace_first', 'AttrTree.set', 'AttrTree.partition', 'AttrTree.remove',
                     'AttrTree.__str__']
    run.bounds = dict(
        record_texts=('7 record parsers, all texts |T| <= 2 over a 7-character alphabet each (space ; newline + the '
                      "record's digit/letter/bracket/operator); |T| <= 3 for theta, omega, option, code; the same "
                      "through NMTranParser on '$REC'+T for |T| <= 2" if thorough else
                      'theta, omega, option record parsers: all texts |T| <= 2 over a 7-character alphabet each; '
                      "through NMTranParser ('$THETA'+T) for |T| <= 1 and |T| = 2 starting with space, ; or a digit"),
        ignored_tokenizer=f'all s with |s| <= {4 if thorough else 3} over {{space NUL TAB ; CR LF & x}}, all 0<=i<=j<=|s|',
        interleave='2 / 3 sibling tokens or subtrees with symbolic ordered ranges over a symbolic source of <= '
                   f'{5 if thorough else 4} characters over {{space ; LF & x y}}; 8 tree shapes (0-3 tokens, nesting '
                   f'depth <= 2) through with_ignored_tokens, source <= {4 if thorough else 3} characters for shapes '
                   f'with <= 2 tokens and <= {5 if thorough else 4} with 3 tokens',
        record_splitting=f'all texts of <= {5 if thorough else 4} characters over {{$ P K space TAB LF 1}}',
        update_statements='old and new statement sequences of <= 2 statements from 3 distinct ones (repeats allowed)'
                          + (', and <= 3 from 2 distinct ones; two updates in a row (1 -> 2 -> 1..2 statements)'
                             if thorough else '') +
                          '; 0-1 non-statement nodes in every gap; consecutive statements may share a node',
        edit_helpers=f'child tuples of <= {4 if thorough else 3} tokens with rules from {{WS A B NEWLINE}}',
        outside='record texts longer than the stated 2-3 characters (a grammar defect that needs more characters to '
                'show is not detected); AbbreviatedRecordParser (accepts nothing this short); the semantic layer: '
                'regenerating the code of an unmodified model (update_source with unchanged components), the '
                'per-record updaters (update_thetas, update_random_variables, ...) and real _statement_to_nodes '
                'printing/parsing; subtrees with empty meta; lark 1.1.6 end_pos workaround branch; CR-only line ends; '
                'SIZES-after-PROBLEM check')
    run.assumptions = [
        'lark.Token (a str subclass that forces realisation) is replaced inside pharmpy.internals.parse.ignored by a '
        'plain class with type/value/start_pos/end_pos; trees are real lark.Tree objects with symbolic Meta positions '
        'as propagate_positions produces them (first/last token of the subtree)',
        'importlib.metadata.version("lark") inside ignored.py is replaced by the constant installed version',
        'in the record-splitting obligation factory.known_records maps every known record name to (Record, identity '
        'parser): the content of a known record is kept as an opaque string',
        'CodeRecord._statement_to_nodes is replaced by a function returning one fresh opaque "statement" node; old '
        'statement nodes are opaque AttrTree("statement") stand-ins; statements are real Assignment objects of a '
        'subclass whose == compares an identity number (Assignment.__eq__ calls hash(), which CrossHair leaves '
        'unconstrained)',
        'obligation 0 runs the real lark parsers with nothing replaced',
        'counterexamples of the stubbed harnesses are re-evaluated with real lark.Token / real record parsers '
        '(VH_REAL=1) before they are reported',
    ]
    run_obligations(run, obs, confirm=confirm)
    seen = set()
    for o in obs:
        if o.func not in seen and o.kind == 'prop':
            seen.add(o.func)
            run.sample(dict(obligation=o.name, harness=o.file, func=o.func, env=o.env))
    run.finish(coverage=dict(
        explanation='bounded symbolic execution (CrossHair, z3 decides every path): the real record parsers on every '
                    'text up to 2-3 characters over per-record alphabets (parser rejects or str(root) == text), and '
                    'the mechanisms that make the round trip and frame conditions hold at larger scope '
                    '(ignored-token re-insertion, record splitting, statement/node bookkeeping, tree edit helpers) on '
                    'all inputs up to the stated bounds; an obligation counts only when CrossHair reports "Confirmed '
                    'over all paths"; case splits by length / first characters / shape are exhaustive within the bound',
        checker_cmd='crosshair check --report_all --per_condition_timeout T harness/C03_*.py:LINE'))


if __name__ == '__main__':
    main()
