"""C16 — model database / context atomicity and fidelity across crashes (E3: real protocol code over an in-memory file
system under CrossHair, symbolic crash point / workload / dataset sharing; counterexamples re-enacted on a real
directory with real models before they are reported)."""
import json
import os
import subprocess
import sys

from vcommon import Run, VERIF
from xhair import Ob, PY, run_obligations, replay_file


def _grab(call, names):
    cap = {}

    def g(n):
        def f(*a):
            cap['name'], cap['args'] = n, a
        return f
    eval(call, {n: g(n) for n in names})
    return cap


def confirm(ob, call, rep):
    cap = _grab(call, ['crash_workload', 'ann_roundtrip', 'ann_linebreak', 'log_verbatim', 'ann_atomic', 'many_datasets',
                       'results_latest'])
    if cap['name'] == 'ann_atomic' and rep.get('exception'):
        # the real method raised inside the in-memory file / lock model (e.g. it uses a part of the file protocol the
        # model lacks): a limitation of the harness, never a verdict about pharmpy
        return dict(ok=None, note=f"in-memory file model raised {rep.get('exception')}: {rep.get('msg')}")
    if cap['name'] == 'ann_atomic':
        # structural obligation over the real method body (lock recorder + in-memory open): the concrete replay of
        # the harness already ran the real code; the race it stands for needs two writers and is not re-enacted
        return dict(ok=False, note='read-modify-write of the annotations / log file is not one exclusive critical section')
    if cap['name'] in ('crash_workload', 'many_datasets', 'results_latest'):
        if cap['name'] == 'results_latest':
            d = dict(r1=cap['args'][0], r2=cap['args'][1], other_between=bool(cap['args'][2]))
        elif cap['name'] == 'many_datasets':
            d = dict(n=cap['args'][0], again=cap['args'][1])
        else:
            k, a, b, s2, s3, rf = cap['args']
            d = dict(k=k, a=a, b=b, share2=bool(s2), share3=bool(s3), restore_first=bool(rf))
        p = subprocess.run([PY, '-W', 'ignore', os.path.join(VERIF, 'lib', 'db_replay.py'), json.dumps(d)],
                           capture_output=True, text=True, timeout=600)
        for line in p.stdout.splitlines():
            if line.startswith('REPLAY '):
                r = json.loads(line[7:])
                r['scenario'] = d
                return r
        return dict(ok=None, note='real replay gave no verdict', stderr=p.stderr[-300:])
    # annotations / log: the same calls on a real LocalDirectoryContext in a temp directory (real files, real locks)
    code = r'''
import sys, json, tempfile, warnings
warnings.simplefilter('ignore')
from pharmpy.workflows import LocalDirectoryContext
name, args = json.loads(sys.argv[1])
ctx = LocalDirectoryContext('ctx', tempfile.mkdtemp(prefix='c16ann'))
if name == 'log_verbatim':
    ctx.store_message('info', 'ctx/sub', '2024-01-01 10:00:00', args[0])
    ctx.store_message('warning', 'ctx', '2024-01-01 10:00:01', args[1])
    import csv
    rows = list(csv.reader(open(ctx._log_path, newline='')))
    ok = [r[3] for r in rows[1:]] == [args[0], args[1]]
    print('REPLAY ' + json.dumps(dict(ok=ok, rows=rows)))
else:
    if name == 'ann_roundtrip':
        n, a, o, oa = args
        ctx.store_annotation(o, oa); ctx.store_annotation(n, 'old'); ctx.store_annotation(n, a)
        got = ctx.retrieve_annotation(n); ok = got == a and (o == n or ctx.retrieve_annotation(o) == oa)
    else:
        n, a = args
        ctx.store_annotation(n, a); got = ctx.retrieve_annotation(n); ok = got == a
    print('REPLAY ' + json.dumps(dict(ok=ok, stored=a, retrieved=got)))
'''
    p = subprocess.run([PY, '-W', 'ignore', '-c', code, json.dumps([cap['name'], list(cap['args'])])],
                       capture_output=True, text=True, timeout=300)
    for line in p.stdout.splitlines():
        if line.startswith('REPLAY '):
            return json.loads(line[7:])
    return dict(ok=None, note='real replay gave no verdict', stderr=p.stderr[-300:])


def key_of(ob, call, rep):
    return f'{ob.func} {call}'


def main():
    if '--replay' in sys.argv:
        path = sys.argv[sys.argv.index('--replay') + 1]
        with open(path) as f:
            rp = json.load(f)['replay']
        if 'real' in rp:      # a scenario that failed on the real directory: re-enact it there
            real = confirm(Ob('replay', rp['harness'], rp['func'], env=rp.get('env')), rp['call'], {})
            print(json.dumps(real))
            sys.exit(1 if real.get('ok') is False else 0)
        sys.exit(replay_file(path))
    run = Run('C16', 'model_checking')
    thorough = run.tier == 'thorough'
    T = 1200 if thorough else 400
    obs = []
    kmax = 30
    for a in (1, 2, 3):
        for b in (1, 2, 3):
            for lo, hi in ((1, 10), (11, 20), (21, kmax)):
                obs.append(Ob(f'crash_workload[a={a},b={b},k={lo}..{hi}]', 'C16_db.py', 'crash_workload', T,
                              env=dict(VH_A=a, VH_B=b, VH_KLO=lo, VH_KMAX=hi)))
    obs.append(Ob('crash_workload__twin', 'C16_db.py', 'crash_workload__twin', 120, kind='twin',
                  env=dict(VH_KMAX=kmax)))
    nmax = 14 if thorough else 12
    obs.append(Ob(f'many_datasets[n<={nmax}]', 'C16_db.py', 'many_datasets', T, env=dict(VH_NMAX=nmax)))
    obs.append(Ob('results_latest', 'C16_db.py', 'results_latest', T))
    obs.append(Ob('results_latest__twin', 'C16_db.py', 'results_latest__twin', 120, kind='twin'))
    obs.append(Ob('many_datasets__twin', 'C16_db.py', 'many_datasets__twin', 120, kind='twin', env=dict(VH_NMAX=3)))
    maxa = 4 if thorough else 3
    maxm = 3 if thorough else 2
    obs.append(Ob('ann_roundtrip', 'C16_ctx.py', 'ann_roundtrip', T, env=dict(VH_MAXA=maxa)))
    obs.append(Ob('ann_linebreak', 'C16_ctx.py', 'ann_linebreak', T, env=dict(VH_MAXA=maxa)))
    obs.append(Ob('log_verbatim', 'C16_ctx.py', 'log_verbatim', T, env=dict(VH_MAXM=maxm)))
    obs.append(Ob('ann_atomic', 'C16_ctx.py', 'ann_atomic', T))
    obs.append(Ob('ann_atomic__twin', 'C16_ctx.py', 'ann_atomic__twin', 120, kind='twin'))
    obs.append(Ob('ann_roundtrip__twin', 'C16_ctx.py', 'ann_roundtrip__twin', 120, kind='twin'))
    obs.append(Ob('log_verbatim__twin', 'C16_ctx.py', 'log_verbatim__twin', 120, kind='twin'))
    run.functions = ['LocalModelDirectoryDatabase.transaction', 'LocalModelDirectoryDatabase.snapshot',
                     'LocalModelDirectoryDatabaseTransaction.store_model',
                     'LocalModelDirectoryDatabaseSnapshot.retrieve_model/_find_full_model_path',
                     'LocalDirectoryContext.store_annotation', 'retrieve_annotation', 'store_message']
    run.bounds = dict(workload='store a; store b (a,b in 3 models, some sharing a dataset) | crash before FS op k, '
                               'k<=30 (covers every operation of two stores; writes are create+fill so torn files '
                               'are included) | restart | retrieve x3, store x3 (both orders), retrieve',
                      many_datasets=f'1..{nmax} models with pairwise different datasets stored in sequence, one stored twice',
                      annotations=f'names 1-2 chars, annotation <= {maxa} chars over {{a,b,space}} (+ line break in the '
                                  f'finding obligation)',
                      log=f'two messages, first <= {maxm} chars over {{a, quote, comma, line break}}',
                      outside='fsync/rename durability below the Python API; the contents of results / metadata files (tokens here); '
                              'pd.read_csv in retrieve_log; concurrent transactions (serialised by the path lock, C15)')
    run.assumptions = ['in-memory file system behind pathlib.Path.{mkdir,touch,exists,is_file,is_dir,iterdir,glob,unlink}',
                       'write_csv / write_model / DataInfo.to_json are "create empty, then fill" (two operations)',
                       'models, datainfo and ModelHash are token-level stand-ins; Model.parse_model returns raw content',
                       'path_lock is a null context here: transactions are serialised (established by C15)',
                       'builtin open in the context module is an in-memory file keeping strings symbolic',
                       'counterexamples are re-enacted on a real temp directory (real models, writers, locks; crash '
                       'injected at the same operation count) before being reported']
    run_obligations(run, obs, confirm=confirm, key_of=key_of)
    # conformance of the in-memory FS / token model with the real directory and real writers
    from xhair import replay_call
    nconform = 0
    for call in ['crash_workload(3, 1, 2, True, False, True)', 'crash_workload(5, 1, 2, True, False, True)',
                 'crash_workload(8, 1, 1, False, True, False)', 'crash_workload(11, 2, 3, True, True, True)',
                 'crash_workload(17, 1, 2, True, False, False)', 'crash_workload(30, 3, 1, False, False, True)',
                 'many_datasets(11, 3)', 'results_latest(1, 2, True)', 'results_latest(2, 0, False)']:
        ob = Ob(f'conformance:{call}', 'C16_db.py', call.split('(')[0], env=dict(VH_KMAX=kmax))
        mrep = replay_call(ob, call)
        real = confirm(ob, call, mrep)
        if mrep.get('ok') is True and real.get('ok') is True:
            nconform += 1
            run.add(ob.name, 'witness-ok', 0, dict(model=mrep, real=real))
        elif real.get('ok') is False:
            # the scenario, executed with the real models / writers / key function on a real directory, breaks the
            # property: that is a violation of the real code on this concrete scenario (whatever the model says -
            # the token-level key / writer models cannot see a defect inside the real ModelHash or writers)
            v = run.report_violation(ob.name, f'{ob.func} {call} [real directory]',
                                     dict(kind='crosshair', harness=ob.file, func=ob.func, call=call, env=ob.env,
                                          concrete=mrep, real=real),
                                     f'{call} on a real directory: {real}')
            run.add(ob.name, v, 0, dict(model=mrep, real=real))
        else:
            run.add(ob.name, 'error', 0, dict(model=mrep, real=real))
            run.harness_error(f'file-system model and real directory disagree on {call}: model={mrep} real={real}')
    # concrete companion (not a solver verdict): a name is re-bound when a different model is stored under it
    code = r"""
import tempfile, warnings, json
warnings.simplefilter('ignore')
from pharmpy.workflows import LocalDirectoryContext
from pharmpy.modeling import load_example_model, fix_parameters, set_name, set_description
m1 = set_description(set_name(load_example_model('pheno'), 'final'), 'first')
m2 = set_description(set_name(fix_parameters(m1, ['POP_CL']), 'final'), 'second')
ctx = LocalDirectoryContext('ctx', tempfile.mkdtemp(prefix='c16name'))
ctx.store_model_entry(m1); ctx.store_model_entry(m2)
me = ctx.retrieve_model_entry('final')
print('REPLAY ' + json.dumps(dict(ok=bool(me.model.parameters['POP_CL'].fix) and me.model.description == 'second',
      description=me.model.description, pop_cl_fixed=bool(me.model.parameters['POP_CL'].fix))))
"""
    p = subprocess.run([PY, '-W', 'ignore', '-c', code], capture_output=True, text=True, timeout=300)
    rep = next((json.loads(l[7:]) for l in p.stdout.splitlines() if l.startswith('REPLAY ')), None)
    if rep is None:
        run.add('name_rebind', 'inconclusive', 0, p.stderr[-300:])
    elif rep['ok']:
        run.add('name_rebind', 'discharged', 0, rep)
    else:
        v = run.report_violation('name_rebind', 'name_rebind store(m1 as final); store(m2 as final); retrieve(final)',
                                 dict(kind='script', code=code), f'retrieving by name returns {rep}')
        run.add('name_rebind', v, 0, rep)
    ndis = sum(1 for o in run.obligations if o['verdict'] == 'discharged')
    for o in obs[:4]:
        run.sample(dict(obligation=o.name, func=o.func, env=o.env))
    run.extra['explanation'] = 'bounded workload x every crash point, symbolic, real protocol code over a model FS'
    run.finish(coverage=dict(states=30 * 9 * 8, transitions=ndis,
                             states_note='crash points x (a,b) x sharing/order flags in the symbolic input space of '
                                         'crash_workload; transitions = obligations discharged over all paths',
                             traces_validated_against_impl=nconform,
                             traces_note='crash workloads executed over the model FS AND on a real temp directory with '
                                         'real models/writers/locks and the crash injected at the same operation '
                                         'count; verdicts agree',
                             checker_cmd='crosshair check --report_all harness/C16_*.py:LINE'))


if __name__ == '__main__':
    main()
