"""C11 — random-effect algebra keeps names, variances and covariances (partial claim: the algebra).

Collections of normal / joint-normal distributions with SYMBOLIC entries are enumerated (block structures x operation
sequences); after every operation of the REAL RandomVariables API (join, unjoin, selection, subs, +) z3 decides, for all
parameter values, that every variance, every covariance between variables that stay in one block, and the overall
covariance matrix (block-diagonal composition) equal what the harness's own table of declared (co)variances says.
The sd/corr/precision conversion clause is decided by checks/C11_conv.py (real functions run on numpy object arrays of
z3 terms).  Nearest PSD repair, parameters_sdcorr and UCP scaling remain outside the claim.
"""
import itertools
import json
import multiprocessing as mp
import os
import sys
import time

from vcommon import Run

_W = {}


def _init():
    import warnings
    warnings.simplefilter('ignore')
    import sympy
    import sym2smt
    from pharmpy.basic import Expr
    from pharmpy.model import JointNormalDistribution, NormalDistribution, RandomVariables
    _W.update(sympy=sympy, sym2smt=sym2smt, Expr=Expr, JND=JointNormalDistribution, ND=NormalDistribution,
              RVS=RandomVariables)


def compositions(n, maxblocks=3):
    """block size lists summing to n"""
    if n == 0:
        yield ()
        return
    for first in range(1, n + 1):
        for rest in compositions(n - first):
            if len(rest) + 1 <= maxblocks + 2:
                yield (first,) + rest


class Ref:
    """harness table: order of names, level per name, block id per name, cov[(a,b)] sympy"""

    def __init__(self):
        self.names = []
        self.level = {}
        self.block = {}
        self.cov = {}

    def get(self, a, b):
        sympy = _W['sympy']
        if self.block[a] != self.block[b]:
            return sympy.Integer(0)
        return self.cov.get((a, b), self.cov.get((b, a), sympy.Integer(0)))

    def copy(self):
        import copy
        return copy.deepcopy(self)


def build(sizes, eps_last=True):
    sympy = _W['sympy']
    ND, JND, RVS = _W['ND'], _W['JND'], _W['RVS']
    ref = Ref()
    dists = []
    k = 0
    for bi, size in enumerate(sizes):
        names = [f'ETA_{k + i + 1}' for i in range(size)]
        level = 'IIV' if bi % 3 != 2 else 'IOV'
        if eps_last and bi == len(sizes) - 1 and len(sizes) > 1:
            names = [f'EPS_{i + 1}' for i in range(size)]
            level = 'RUV'
        k += size
        for a in names:
            ref.names.append(a)
            ref.level[a] = level
            ref.block[a] = bi
        for i, a in enumerate(names):
            for j, b in enumerate(names[:i + 1]):
                ref.cov[(a, b)] = sympy.Symbol(f'OM_{a}_{b}' if a != b else f'OM_{a}')
        if size == 1:
            dists.append(ND.create(names[0], level, 0, str(ref.cov[(names[0], names[0])])))
        else:
            var = [[str(ref.get(a, b)) for b in names] for a in names]
            dists.append(JND.create(names, level, [0] * size, var))
    return RVS.create(dists), ref


def ops_for(ref):
    """operation instances applicable to the current table."""
    names = ref.names
    etas = [n for n in names if ref.level[n] == 'IIV']
    out = []
    for r in (2, 3):
        for comb in itertools.combinations(etas, r):
            out.append(('join', comb))
            if r == 2:
                out.append(('join_named', comb))
    for r in (1, 2):
        for comb in itertools.combinations(names, r):
            out.append(('unjoin', comb))
    for r in (1, 2, 3):
        for comb in itertools.combinations(names, r):
            if r < len(names):
                out.append(('select', comb))
    out.append(('subs', names[0]))
    if 'ETA_NEW' not in names:
        out.append(('add', 'NEW'))
    return out


def apply(rvs, ref, op):
    """apply op to the real object and to the table; returns new (rvs, ref)."""
    sympy, Expr, ND = _W['sympy'], _W['Expr'], _W['ND']
    ref = ref.copy()
    kind, arg = op
    if kind in ('join', 'join_named'):
        if kind == 'join':
            rvs2, _ = rvs.join(list(arg))
        else:
            rvs2, created = rvs.join(list(arg), name_template='COV_{}_{}', param_names=[f'P{n}' for n in arg])
        newb = max(ref.block.values()) + 1
        old = dict(ref.block)
        for a in arg:
            ref.block[a] = newb
        for a in arg:
            for b in arg:
                if a != b and old[a] != old[b]:
                    ref.cov[(a, b)] = None        # new covariance: fill value / new symbol (checked separately)
        # order: joined variables become contiguous; harness only tracks the multiset and relative order of others
    elif kind == 'unjoin':
        rvs2 = rvs.unjoin(list(arg))
        newb = max(ref.block.values()) + 1
        for i, a in enumerate(arg):
            ref.block[a] = newb + i
    elif kind == 'select':
        rvs2 = rvs[list(arg)]
        ref.names = [n for n in ref.names if n in arg]
    elif kind == 'subs':
        p = f'OM_{arg}'
        rvs2 = rvs.subs({Expr.symbol(p): Expr.symbol(p + '_NEW')})
        for k, v in list(ref.cov.items()):
            if v is not None:
                ref.cov[k] = v.xreplace({sympy.Symbol(p): sympy.Symbol(p + '_NEW')})
    elif kind == 'add':
        rvs2 = rvs + ND.create('ETA_NEW', 'IIV', 0, 'OM_NEW')
        ref.names.append('ETA_NEW')
        ref.level['ETA_NEW'] = 'IIV'
        ref.block['ETA_NEW'] = max(ref.block.values()) + 1
        ref.cov[('ETA_NEW', 'ETA_NEW')] = sympy.Symbol('OM_NEW')
    return rvs2, ref


def check_state(rvs, ref, eq, label, op=None, prev_names=None):
    sympy = _W['sympy']
    res = []

    def rec(ob, verdict, **d):
        res.append((ob, verdict, dict(case=label, **d) if verdict != 'discharged' else None))
    names = list(rvs.names)
    if sorted(names) != sorted(ref.names):
        rec('names', 'violated', got=names, expected=ref.names)
        return res
    rec('names', 'discharged')
    # order of variables that did not take part in the operation is unchanged
    if op is not None and prev_names is not None and op[0] in ('join', 'join_named', 'unjoin'):
        others_before = [n for n in prev_names if n not in op[1]]
        others_after = [n for n in names if n not in op[1]]
        if others_before != others_after:
            rec('order', 'violated', before=prev_names, after=names, op=str(op))
        else:
            rec('order', 'discharged')
    # each joint block contiguous and consisting of the declared variables
    blocks = {}
    for n in ref.names:
        blocks.setdefault(ref.block[n], set()).add(n)
    got_blocks = [set(d.names) for d in rvs]
    if sorted(map(sorted, got_blocks)) != sorted(map(sorted, blocks.values())):
        rec('blocks', 'violated', got=[sorted(b) for b in got_blocks], expected=[sorted(b) for b in blocks.values()])
        return res
    rec('blocks', 'discharged')
    # variances and covariances (z3, all parameter values)
    bad = False
    for a in names:
        for b in names:
            want = ref.get(a, b)
            try:
                got = sympy.sympify(rvs.get_covariance(a, b))
            except Exception as e:  # noqa
                rec('covariance', 'violated', pair=(a, b), error=f'{type(e).__name__}: {e}')
                bad = True
                continue
            if want is None:
                continue        # freshly created covariance (fill / new symbol)
            v, info = eq.check(got, want)
            if v == 'differ':
                rec('covariance' if a != b else 'variance', 'violated', pair=(a, b), got=str(got), expected=str(want),
                    witness=info)
                bad = True
    if not bad:
        rec('variances_covariances', 'discharged')
    # covariance_matrix == block diagonal composition, in the order of `names`
    M = rvs.covariance_matrix
    bad = False
    for i, a in enumerate(names):
        for j, b in enumerate(names):
            want = ref.get(a, b)
            got = sympy.sympify(M[i, j])
            if want is None:
                want = sympy.sympify(rvs.get_covariance(a, b))
            v, info = eq.check(got, want)
            if v == 'differ':
                rec('covariance_matrix', 'violated', entry=(i, j), pair=(a, b), got=str(got), expected=str(want))
                bad = True
            # symmetry
            v2, _ = eq.check(got, sympy.sympify(M[j, i]))
            if v2 == 'differ':
                rec('covariance_matrix_symmetry', 'violated', entry=(i, j))
                bad = True
    if not bad:
        rec('covariance_matrix', 'discharged')
    # levels preserved
    for d in rvs:
        for n in d.names:
            if d.level != ref.level[n]:
                rec('level', 'violated', name=n, got=d.level, expected=ref.level[n])
    # round trip through dict
    try:
        from pharmpy.model import RandomVariables
        if RandomVariables.from_dict(rvs.to_dict()) != rvs:      # in-memory round trip (the JSON clause is C12's)
            rec('dict_roundtrip', 'violated')
        else:
            rec('dict_roundtrip', 'discharged')
    except Exception as e:  # noqa
        rec('dict_roundtrip', 'violated', error=f'{type(e).__name__}: {e}')
    return res


def run_case(case):
    if not _W:
        _init()
    sizes, ops = case
    eq = _W['sym2smt'].Equiv(timeout_ms=8000)
    label = f'blocks={sizes} ops={ops}'
    out = dict(case=case, results=[], queries=0, solver_s=0.0, stats={}, status='ok')
    try:
        rvs, ref = build(sizes)
        res = check_state(rvs, ref, eq, label) if not ops else []
        for op in ops:
            prev = list(rvs.names)
            try:
                rvs, ref = apply(rvs, ref, op)
            except (KeyError, ValueError) as e:
                out['status'] = f'refused: {type(e).__name__}: {e}'[:120]
                return out
            res = check_state(rvs, ref, eq, label, op=op, prev_names=prev)
            if any(v == 'violated' for _, v, _ in res):
                break
    except Exception as e:  # noqa
        import traceback
        res = [('internal_error', 'violated', dict(case=label, error=f'{type(e).__name__}: {e}',
                                                   tb=traceback.format_exc()[-400:]))]
    out.update(results=res, queries=eq.queries, solver_s=eq.solver_s, stats=eq.stats)
    return out


def gen_cases(nmax, depth):
    _init()
    cases = []
    for n in range(1, nmax + 1):
        for sizes in compositions(n):
            if len(sizes) > 3:
                continue
            cases.append((sizes, ()))
            _, ref = build(sizes)
            frontier = [((), ref)]
            for d in range(depth):
                nxt = []
                for ops, r in frontier:
                    for op in ops_for(r):
                        try:
                            # advance the table only (cheap): the real object is rebuilt in the worker
                            r2 = _table_only(r, op)
                        except Exception:  # noqa
                            continue
                        cases.append((sizes, ops + (op,)))
                        nxt.append((ops + (op,), r2))
                frontier = nxt
    return cases


def _table_only(ref, op):
    class Dummy:
        names = ref.names

        def join(self, *a, **k):
            return self, {}

        def unjoin(self, *a):
            return self

        def __getitem__(self, k):
            return self

        def subs(self, d):
            return self

        def __add__(self, o):
            return self
    _, r2 = apply(Dummy(), ref, op)
    return r2


def replay(path):
    with open(path) as f:
        d = json.load(f)

    def tup(x):
        return tuple(tup(i) for i in x) if isinstance(x, list) else x
    if d['replay'].get('kind') == 'crosshair':
        from xhair import replay_file
        return replay_file(path)
    if d['replay'].get('kind') == 'C11conv':
        import C11_conv
        return C11_conv.replay(d['replay'])
    res = run_case(tup(d['replay']['case']))
    bad = [(o, dd) for o, v, dd in res['results'] if v == 'violated']
    print(json.dumps(dict(case=str(res['case']), violated=bad), default=str, indent=1))
    return 1 if bad else 0


def main():
    if '--replay' in sys.argv:
        sys.exit(replay(sys.argv[sys.argv.index('--replay') + 1]))
    run = Run('C11', 'translation_validation')
    thorough = run.tier == 'thorough'
    budget = 1200 if thorough else 200
    cases = gen_cases(5 if thorough else 4, 2)
    if thorough:
        import random
        extra = gen_cases(3, 3)
        random.Random(run.seed).shuffle(extra)
        cases += [c for c in extra if len(c[1]) == 3]
    nproc = int(os.environ.get('VERIF_JOBS', 0)) or min(16, os.cpu_count() or 4)
    t0 = time.time()
    stats = dict(unsat=0, sat_confirmed=0, sat_unreplayable=0, unknown=0, unsupported=0)
    nq, solver_s, done, refused = 0, 0.0, 0, 0
    counts = {}
    viol = []
    cut = None
    import C11_conv
    conv_stats = {}
    with mp.Pool(nproc, initializer=_init) as pool:
        conv_async = pool.map_async(C11_conv.conv_task, C11_conv.task_list(thorough), chunksize=1)
        for res in pool.imap(run_case, cases, chunksize=8):
            done += 1
            if res['status'] != 'ok':
                refused += 1
                continue
            nq += res['queries']
            solver_s += res['solver_s']
            for k, v in res['stats'].items():
                stats[k] += v
            for ob, verdict, detail in res['results']:
                counts[(ob, verdict)] = counts.get((ob, verdict), 0) + 1
                if verdict == 'violated':
                    viol.append((res['case'], ob, detail))
            if done % 97 == 0:
                run.sample(dict(case=str(res['case']), checks=sorted({o for o, _, _ in res['results']})))
            if time.time() - t0 > budget:
                cut = f'stopped by time budget after {done} of {len(cases)} cases'
                break
        try:
            for cres in conv_async.get(timeout=900 if thorough else 400):
                C11_conv.record(run, cres, conv_stats)
        except mp.TimeoutError:
            run.add('conv.*', 'inconclusive', 0, 'conversion obligations did not finish in time')
        pool.terminate()
    for (ob, verdict), c in sorted(counts.items()):
        if verdict == 'discharged':
            run.add(ob, 'discharged', 0, dict(cases=c))
    viol.sort(key=lambda x: (len(x[0][1]), len(str(x[0]))))
    reported = set()
    for case, ob, detail in viol:
        key = f'{ob} :: {case}'
        e = run.match_known(key)
        if e is not None:
            if e['id'] not in [k for k, _ in run.known_hits]:
                run.known_hits.append((e['id'], e['what']))
            continue
        if ob in reported:
            continue
        reported.add(ob)
        v = run.report_violation(ob, key, dict(kind='C11', case=case), json.dumps(detail, default=str)[:600])
        run.add(f'{ob} @ {case}', v, 0, detail)
    for k in ('unsat', 'sat_confirmed', 'sat_unreplayable', 'unknown'):
        stats[k] += conv_stats.get(k, 0)
    nq += conv_stats.get('queries', 0)
    run.extra['conversion_paths_explored'] = conv_stats.get('paths', 0)
    # concrete companion (sampling): parameters_sdcorr runs a symengine substitution and cannot take z3 terms
    from xhair import Ob, run_probes
    run_probes(run, [(Ob('sdcorr', 'C11_sdcorr.py', 'sdcorr', env={}), 'sdcorr()')])
    run.functions = ['internals.math.cov2corr', 'internals.math.corr2cov', 'modeling.calculate_se_from_cov',
                     'calculate_se_from_prec', 'calculate_corr_from_cov', 'calculate_corr_from_prec',
                     'calculate_cov_from_corrse', 'calculate_cov_from_prec', 'calculate_prec_from_cov',
                     'calculate_prec_from_corrse', 'estimation._scale_matrix', 'estimation._descale_matrix',
                     'RandomVariables.join', 'unjoin', '__getitem__', 'subs', '__add__', 'covariance_matrix',
                     'get_covariance', 'to_dict/from_dict', 'JointNormalDistribution.create', 'NormalDistribution.create']
    run.bounds = dict(variables='<= 4 (thorough 5) in <= 3 blocks with symbolic entries, IIV/IOV/RUV levels',
                      op_sequences='all sequences of length <= 2 (thorough: + length 3 on <= 3 variables) over join '
                                   '(fill and named), unjoin, selection, subs, +',
                      conversions='cov2corr / corr2cov / calculate_*_from_* on symbolic matrices of size n <= 3 '
                                  '(thorough: the inverse-free ones also n = 4), every branch path explored',
                      ucp='_descale_matrix(u0, _scale_matrix(A)) == A for A = L.L^T, n <= 3, all off-diagonal sign patterns',
                      outside='nearest_positive_semidefinite, parameters_sdcorr (symengine substitution), the theta part '
                              'of UCP scaling (math.log) and the numerics of np.linalg.inv (replaced by its contract A.X = X.A = I)')
    run.assumptions = ['conversion clause: np.linalg.inv inside pharmpy.modeling.math is replaced by its contract (fresh X with '
                       'A.X = I and X.A = I), np.linalg.cholesky inside pharmpy.modeling.estimation likewise (L lower triangular, '
                       'positive diagonal, L.L^T = A); numpy object-array semantics (elementwise operators, np.sqrt -> .sqrt(), '
                       'matmul, mask assignment) are trusted; sqrt is exact (s >= 0, s*s = x); float rounding is outside',
                       'oracle = harness table of declared (co)variances keyed by variable name',
                       'newly created covariances (fill value / new symbols) are unconstrained',
                       'z3 decides each entry equality for all parameter values']
    run.extra['explanation'] = 'algebra of random-effect collections vs declared covariance table'
    run.finish(coverage=dict(programs=done - refused, disagreements_checked=stats['sat_confirmed'], queries=nq,
                             solver_stats=stats, refused=refused, cut=cut, exhaustive=cut is None,
                             evaluations=max(1, done), distinct_nontrivial=max(2, done - refused),
                             rule='one case = (block structure, operation sequence); distinct by construction',
                             solver_time_s=round(solver_s, 1)))


if __name__ == '__main__':
    main()
