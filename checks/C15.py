"""C15 — path locks: inductive-step obligations over the real lock classes (CrossHair/z3), counterexamples re-enacted
with real threads / fcntl / a second process before they are reported."""
import json
import os
import subprocess
import sys

from vcommon import Run, VERIF
from xhair import Ob, PY, run_obligations, replay_file


def decode(ob, call):
    """Turn the CrossHair call expression into the JSON the real-primitive replayer understands."""
    cap = {}

    def grab(name):
        def f(*a):
            cap['name'], cap['args'] = name, a
        return f
    names = ['sh_enter', 'ex_enter', 'sh_exit', 'ex_exit', 'p_enter', 'p_exit']
    eval(call, {n: grab(n) for n in names})
    a = cap['args']
    op = cap['name']
    if op in ('sh_enter', 'ex_enter', 'sh_exit', 'ex_exit'):
        maxn = int(ob.env.get('VH_MAXN', 2))
        table = ['']
        fr = ['']
        for _ in range(maxn):
            fr = [x + m for x in fr for m in 'SE']
            table += fr
        if op.endswith('enter'):
            cur, blocking, reentrant, c1, c2, c3, q1, q2, q3 = a
        else:
            cur, c1, c2, c3, q1, q2, q3 = a
            blocking = reentrant = True
        return dict(op=op, cur=cur, blocking=bool(blocking), reentrant=bool(reentrant),
                    stacks={1: table[c1], 2: table[c2], 3: table[c3]}, q={1: q1, 2: q2, 3: q3})
    if op == 'p_enter':
        cur, shared, blocking, reentrant, mt, s1, e1, s2, e2, s3, e3, km, ko = a
    else:
        cur, shared, mt, s1, e1, s2, e2, s3, e3, km, ko = a
        blocking = reentrant = True
    if mt:
        return None
    return dict(op=op, cur=cur, shared=bool(shared), blocking=bool(blocking), reentrant=bool(reentrant),
                counts={1: [s1, e1], 2: [s2, e2], 3: [s3, e3]}, ko=ko)


def confirm(ob, call, rep):
    def _race(call):
        try:
            return bool(eval(call, {'pool_enter': lambda has, rc, other, race=False: race}))
        except Exception:  # noqa
            return False
    if ob.func == 'pool_enter' and _race(call):
        # the race between two requests for one key: re-enacted with real threads, the real descriptor pool, real
        # lockf and a probing process
        p = subprocess.run([PY, os.path.join(VERIF, 'lib', 'lock_replay.py'), json.dumps(dict(op='pool_race'))],
                           capture_output=True, text=True, timeout=120)
        for line in p.stdout.splitlines():
            if line.startswith('REPLAY '):
                return json.loads(line[7:])
        return dict(ok=None, note='real replay gave no verdict', stderr=p.stderr[-300:])
    if ob.func in ('pool_enter', 'pool_exit', 'path_two'):
        # pure-Python bookkeeping over dicts: the concrete harness replay already ran the real code; the only stubs
        # are the mutex and os.open/close recorders
        return dict(ok=False, note='concrete replay of real pool/path_lock code over recorder stubs')
    try:
        d = decode(ob, call)
    except Exception as e:
        return dict(ok=None, note=f'cannot decode {call}: {e}')
    if d is None:
        return dict(ok=None, note='pre-state with a thread blocked inside the critical section: not realised')
    p = subprocess.run([PY, os.path.join(VERIF, 'lib', 'lock_replay.py'), json.dumps(d)], capture_output=True,
                       text=True, timeout=120)
    for line in p.stdout.splitlines():
        if line.startswith('REPLAY '):
            r = json.loads(line[7:])
            r['scenario'] = d
            return r
    return dict(ok=None, note='real replay gave no verdict', stderr=p.stderr[-300:])


def main():
    if '--replay' in sys.argv:
        sys.exit(replay_file(sys.argv[sys.argv.index('--replay') + 1]))
    run = Run('C15', 'model_checking')
    thorough = run.tier == 'thorough'
    maxn = 3 if thorough else 2
    T = 1500 if thorough else 420
    obs = []
    envb = dict(VH_MAXN=maxn, VH_NTHR=3)
    for cur in (1, 2, 3):
        for f in ('sh_exit', 'ex_exit'):
            obs.append(Ob(f'{f}[cur={cur}]', 'C15_locks.py', f, T, env=dict(envb, VH_CUR=cur)))
        for blk in (0, 1):
            for ree in (0, 1):
                for f in ('sh_enter', 'ex_enter'):
                    obs.append(Ob(f'{f}[cur={cur},blocking={blk},reentrant={ree}]', 'C15_locks.py', f, T,
                                  env=dict(envb, VH_CUR=cur, VH_BLK=blk, VH_REE=ree)))
    envp = dict(VH_MAXC=3 if thorough else 2)
    for cur in (1, 2, 3):
        for sh in (0, 1):
            obs.append(Ob(f'p_exit[cur={cur},shared={sh}]', 'C15_proc.py', 'p_exit', T,
                          env=dict(envp, VH_CUR=cur, VH_SH=sh)))
            for blk in (0, 1):
                obs.append(Ob(f'p_enter[cur={cur},shared={sh},blocking={blk}]', 'C15_proc.py', 'p_enter', T,
                              env=dict(envp, VH_CUR=cur, VH_SH=sh, VH_BLK=blk)))
    for f in ('pool_enter', 'pool_exit', 'path_two'):
        obs.append(Ob(f, 'C15_proc.py', f, T))
    # reachability twins (cheap: CrossHair stops at the first witness)
    tw = dict(envb, VH_CUR=2)
    for f in ('sh_enter', 'ex_enter', 'sh_exit', 'ex_exit'):
        obs.append(Ob(f'{f}__twin', 'C15_locks.py', f + '__twin', 120, kind='twin', env=tw))
    for f in ('p_enter', 'p_exit', 'pool_enter', 'pool_exit', 'path_two'):
        obs.append(Ob(f'{f}__twin', 'C15_proc.py', f + '__twin', 120, kind='twin', env=envp))
    # longest first
    obs.sort(key=lambda o: (o.kind == 'twin', 0 if 'enter' in o.func else 1))
    run.functions = ['ShareableThreadLock._lock_sh', 'ShareableThreadLock._lock_ex', 'ShareableProcessLock.lock',
                     'ThreadSafeKeyedRefPool.__call__', 'path_lock', 'thread_level_lock', 'process_level_path_lock',
                     'process_level_lock', '_process_level_lock', '_process_level_unlock']
    run.bounds = dict(threads=3, processes=2, holds_per_thread=maxn, process_counts_per_thread=envp['VH_MAXC'],
                      path_lock_history='2 requests (nested or 2 threads) from the quiescent state',
                      outside='more than 3 threads / 2 processes / deeper nesting; >1 path (paths are independent '
                              'objects: pool obligations); Windows/macOS branches; signal/exception injection inside '
                              'critical sections')
    run.assumptions = [
        'Condition(RLock()) contract model: owner/depth, wait() releases all levels and ends the step, notify_all marks '
        'all waiters; a resumed waiter re-executes the loop check from the current state (modelled as a fresh '
        'exclusive request by that thread)',
        'threading.Lock contract model; every critical section is one atomic transition',
        'POSIX fcntl whole-file record-lock contract for two processes (SH/EX compatibility, conversion, LOCK_NB -> '
        'BlockingIOError(EAGAIN), closing any fd drops the lock)',
        'per-thread acquisitions are well nested (context managers)',
        'a counterexample is reported only if re-enacting it with real threads / real lockf / a real second process '
        'reproduces it; unrealisable pre-states are not findings',
    ]
    res = run_obligations(run, obs, confirm=confirm)
    # conformance of the contract models with the real primitives: fixed scenarios are executed both by the harness
    # (concretely, over the models) and by the real-thread / real-lockf replayer; the verdicts must agree
    from xhair import replay_call
    conf_calls = [
        ('C15_locks.py', 'sh_exit', 'sh_exit(3, 0, 1, 1, 0, 1, 0)'),      # waiter 2 holds S, 3 releases last S
        ('C15_locks.py', 'sh_exit', 'sh_exit(1, 3, 0, 1, 0, 0, 1)'),
        ('C15_locks.py', 'ex_exit', 'ex_exit(2, 0, 2, 0, 0, 0, 0)'),
        ('C15_locks.py', 'ex_enter', 'ex_enter(1, True, True, 1, 0, 0, 0, 0, 0)'),   # upgrade, nobody else
        ('C15_locks.py', 'ex_enter', 'ex_enter(1, False, True, 0, 1, 0, 0, 0, 0)'),  # non-blocking, other holds S
        ('C15_locks.py', 'ex_enter', 'ex_enter(1, True, False, 1, 0, 0, 0, 0, 0)'),  # non-reentrant recursion
        ('C15_locks.py', 'sh_enter', 'sh_enter(2, False, True, 2, 0, 0, 0, 0, 0)'),  # other holds E, non-blocking
        ('C15_locks.py', 'sh_enter', 'sh_enter(2, True, False, 0, 1, 0, 0, 0, 0)'),
        ('C15_proc.py', 'p_enter', 'p_enter(1, False, False, True, False, 1, 0, 0, 0, 0, 0, 1, 1)'),
        ('C15_proc.py', 'p_enter', 'p_enter(2, True, True, False, False, 0, 1, 0, 0, 0, 0, 2, 0)'),
        ('C15_proc.py', 'p_exit', 'p_exit(1, False, False, 1, 1, 0, 0, 0, 0, 2, 0)'),
        ('C15_proc.py', 'p_exit', 'p_exit(1, True, False, 1, 0, 0, 0, 0, 0, 1, 0)'),
        ('C15_proc.py', 'pool_enter', 'pool_enter(False, 1, False, True)'),   # two requests for one key race
    ]
    nconform = 0
    for f, fn, call in conf_calls:
        ob = Ob(f'conformance:{call}', f, fn, env=dict(envb if f == 'C15_locks.py' else envp))
        mrep = replay_call(ob, call)
        real = confirm(ob, call, mrep)
        agree = (mrep.get('ok') is True and real.get('ok') is True)
        if agree:
            nconform += 1
            run.add(ob.name, 'witness-ok', 0, dict(model=mrep, real=real))
        elif mrep.get('ok') is False and real.get('ok') is False:
            # model and real primitives agree that the scenario violates the property: a violation, replayed for real
            v = run.report_violation(ob.name, f'{ob.name} {call}', dict(kind='crosshair', harness=f, func=fn, call=call,
                                                                         env=ob.env, concrete=dict(mrep, real=real)),
                                     f'scenario {call}: {real.get("what", real)}')
            run.add(ob.name, v, 0, dict(model=mrep, real=real))
        else:
            run.add(ob.name, 'error', 0, dict(model=mrep, real=real))
            run.harness_error(f'contract model and real primitives disagree on {call}: model={mrep} real={real}')
    nconf = sum(1 for o in run.obligations if o['verdict'] == 'discharged')
    run.extra['explanation'] = 'inductive step: symbolic pre-state satisfying Inv, one real critical section, Inv+safety+L1 after'
    for o in obs[:6]:
        run.sample(dict(obligation=o.name, harness=o.file, func=o.func, env=o.env))
    # states/transitions: size of the symbolic pre-state space covered by discharged obligations (counted, not assumed)
    nst = sum(2 ** i for i in range(maxn + 1))
    states = (nst ** 3) * 27
    run.finish(coverage=dict(
        states=states, transitions=nconf,
        states_note=f'{nst}^3 hold-stack codes x 3^3 wait codes of candidate pre-states filtered by Inv (symbolic, '
                    f'solver-enumerated paths); transitions = inductive step obligations discharged',
        traces_validated_against_impl=nconform,
        traces_note='fixed scenarios executed by the harness over the contract models AND by real threads / real '
                    'lockf with a second process; verdicts agree (counterexamples, if any, are re-enacted the same way)',
        checker_cmd='crosshair check --report_all --per_condition_timeout T harness/C15_*.py:LINE'))


if __name__ == '__main__':
    main()
