"""C07 — refactorings and expression extractors preserve the model function.

For every corpus model (and reachable variants) and every refactoring r of the preserving set, the REAL r is applied
and z3 decides, for all numeric inputs, that observation values, every commonly defined symbol and every ODE
right-hand side of r(M) equal those of M up to the renaming r declares.  solve_ode_system is checked by substituting
the closed forms into the ODE (derivative by sympy, identity by z3, exp uninterpreted).  Gradient / prediction
extractors are compared with symbolic derivatives / zeroing of the translated model function.
"""
import json
import multiprocessing as mp
import os
import sys
import time
import traceback

from vcommon import Run

_W = {}


def _init():
    import warnings
    warnings.simplefilter('ignore')
    import sympy
    import sym2smt
    import semeq
    import corpus
    import pharmpy.modeling as pm
    _W.update(sympy=sympy, sym2smt=sym2smt, semeq=semeq, corpus=corpus, pm=pm)


# ----------------------------------------------------------------------------------------------------------------
# start models and variants

def variants(label, model):
    """reachable variants of a corpus model used as additional start points (label, thunk)."""
    pm = _W['pm']
    out = [(label, lambda: model)]
    out.append((label + '+prop_error', lambda: pm.set_proportional_error_model(model)))
    out.append((label + '+iiv_joint', lambda: pm.create_joint_distribution(model, individual_estimates=None)))
    if model.statements.ode_system is not None:
        out.append((label + '+peripheral', lambda: pm.add_peripheral_compartment(model)))
        out.append((label + '+fo_abs', lambda: pm.set_first_order_absorption(model)))
        out.append((label + '+mm_elim', lambda: pm.set_michaelis_menten_elimination(model)))
    return out


GEN_MODELS = {
    'gen:eta_forms': ('ADVAN2 TRANS2', ['CL = THETA(1)*EXP(THETA(4)*ETA(1))', 'V = THETA(2)*EXP(ETA(2)*WGT/70)',
                                        'KA = THETA(3) + ETA(3)', 'S2 = V'], True),
    'gen:logit_shared': ('ADVAN1 TRANS2', ['TVCL = THETA(1)*(WGT/70)**THETA(3)', 'CL = TVCL*EXP(ETA(1))',
                                           'V = THETA(2)*EXP(ETA(2) + 0.5*ETA(1))',
                                           'F1 = EXP(THETA(4)+ETA(1))/(1+EXP(THETA(4)+ETA(1)))', 'S1 = V'], False),
    # a variable with a value that is re-assigned by a block IF whose ELSE branch is the literal 0, with thetas
    # numbered after the peripheral compartment's (removing the peripheral compartment renumbers them)
    'gen:else_zero_periph': ('ADVAN3 TRANS4', ['CLX = THETA(6)', 'IF (APGR.LT.5) THEN', '    CLX = THETA(5)*WGT', 'ELSE',
                                               '    CLX = 0', 'END IF', 'CL = THETA(1)*EXP(ETA(1)) + CLX',
                                               'V1 = THETA(2)*EXP(ETA(2))', 'Q = THETA(3)', 'V2 = THETA(4)', 'S1 = V1'], False),
    # an alias taken before the aliased variable is redefined, and used after the redefinition
    'gen:alias_before_redef': ('ADVAN1 TRANS2', ['CL = THETA(1)*EXP(ETA(1))', 'TVV = THETA(2)', 'VREF = TVV',
                                                  'IF (APGR.LT.5) TVV = TVV*(1 + THETA(3))', 'V = TVV*EXP(ETA(2))',
                                                  'S1 = V*VREF'], False),
    # a symbol assigned three times, with a copy taken between the second and the third assignment and used afterwards
    'gen:triple_assign_copy': ('ADVAN1 TRANS2', ['CL = THETA(1)*EXP(ETA(1))', 'TVV = THETA(2)', 'TVV = TVV*WGT',
                                                  'VNORM = TVV', 'TVV = TVV*(1 + THETA(3))', 'V = TVV*EXP(ETA(2))',
                                                  'S1 = V/VNORM'], False),
    # models without ODE system ($PRED): the extractor clause applies; variables upstream of Y are assigned twice, the
    # later assignment using its own previous value (a model variable, and a data column that is capped then normalised)
    'gen:pred_reassign': ('$PRED', ['TVCL = THETA(1)*WGT', 'TVV = THETA(2)*WGT', 'IF (APGR.LT.5) TVV = TVV*(1 + THETA(3))',
                                     'CL = TVCL*EXP(ETA(1))', 'V = TVV*EXP(ETA(2))', 'IPRED = AMT/V*EXP(-CL/V*TIME)',
                                     'W = IPRED', 'Y = IPRED + W*EPS(1)'], False),
    'gen:pred_column_reassign': ('$PRED', ['WT = WGT', 'IF (WT.GT.3) WT = 3', 'WT = WT/2', 'CL = THETA(1)*WT*EXP(ETA(1))',
                                            'V = THETA(2)*EXP(ETA(2))*(1 + THETA(3)*WT)',
                                            'IPRED = AMT/V*EXP(-CL/V*TIME)', 'Y = IPRED*(1 + EPS(1))'], False),
    # a rate constant defined through a chain of aliases
    'gen:alias_chain': ('ADVAN1 TRANS1', ['TVK = THETA(1)', 'KK = TVK', 'K = KK', 'V = THETA(2)*EXP(ETA(2))', 'S1 = V'], False),
    # a parameter of the ODE system is assigned again after the ODE system
    'gen:reassign_after_ode': ('ADVAN1 TRANS2', ['CL = THETA(1)*EXP(ETA(1))', 'V = THETA(2)*EXP(ETA(2))', 'S1 = V'],
                               False, ['V = V/WGT', 'CONC = F*V', 'Y = CONC + CONC*EPS(1)']),
}
# quick tier visits these first (small models + the generated ones), the rest in seeded order within the budget
PRIORITY = ['minimal.mod', 'pheno_pd.mod', 'models/mox2.mod', 'models/pheno5.mod', 'gen:eta_forms', 'gen:logit_shared',
            'gen:reassign_after_ode', 'gen:alias_chain', 'gen:alias_before_redef', 'gen:triple_assign_copy',
            'gen:pred_reassign', 'gen:pred_column_reassign',
            'pheno_real.mod', 'example:pheno_linear']
_MODELS = {}


def start_labels():
    corpus = _W['corpus']
    labels = [rel for rel in corpus.CORE_FILES if os.path.exists(os.path.join(corpus.TESTDATA, rel))]
    return labels + list(GEN_MODELS) + ['example:pheno', 'example:pheno_linear']


def get_start(label):
    """load one start model (cached per worker process); raises if it cannot be read in this environment."""
    if label in _MODELS:
        return _MODELS[label]
    corpus, pm = _W['corpus'], _W['pm']
    if label.startswith('example:'):
        m = pm.load_example_model(label.split(':')[1])
    elif label.startswith('gen:'):
        sys.path.insert(0, os.path.dirname(os.path.abspath(__file__)))
        import C01
        sub, pk, three = GEN_MODELS[label][:3]
        err = GEN_MODELS[label][3] if len(GEN_MODELS[label]) > 3 else None
        text = C01.pred_program(pk) if sub == '$PRED' else C01.pk_program(sub, pk, error=err)
        if three:
            text = text.replace('$OMEGA 0.2', '$OMEGA 0.2\n$OMEGA 0.3')
        m = pm.read_model_from_string(text)
    else:
        m = corpus.load(os.path.join(corpus.TESTDATA, label))
    _MODELS[label] = m
    return m


def start_models(thorough):
    out = []
    for label in start_labels():
        try:
            out.append((label, get_start(label)))
        except Exception:  # noqa
            continue
    return out


# ----------------------------------------------------------------------------------------------------------------
# refactorings: name -> function(model) -> (new model, rename dict old->new (str), extra sympy assumptions)

def _positional_rename(m, m2):
    ren = {}
    for a, b in zip(m.parameters.names, m2.parameters.names):
        if a != b:
            ren[a] = b
    for a, b in zip(m.random_variables.names, m2.random_variables.names):
        if a != b:
            ren[a] = b
    return ren


def refactorings():
    pm, sympy = _W['pm'], _W['sympy']

    def plain(f):
        return lambda m: (f(m), {}, [])

    def greek(m):
        m2 = pm.greekify_model(m)
        return m2, _positional_rename(m, m2), []

    def rename(m):
        names = [p for p in m.parameters.names][:2] + list(m.random_variables.names)[:1]
        mapping = {n: n + '_RENAMED' for n in names}
        return pm.rename_symbols(m, mapping), mapping, []

    def fixed(m):
        # fix two thetas to powers of two inside their bounds: pharmpy folds the fixed values in floating point, and
        # products / quotients of powers of two are exact, so the comparison stays an exact equality
        used = {str(s) for s in m.statements.free_symbols}
        vals = {}
        for p in m.parameters:
            if p.name in used and len(vals) < 2:
                for c in (1.0, 2.0, 0.5, 4.0, 0.25, 8.0, 0.125, 16.0, 0.0625):
                    if p.lower <= c <= p.upper:
                        vals[p.name] = c
                        break
        if not vals:
            raise ValueError('no theta with a power of two inside its bounds')
        mf = pm.fix_parameters_to(m, vals)
        m2 = pm.replace_fixed_thetas(mf)
        return m2, {}, [sympy.Eq(sympy.Symbol(n), sympy.Rational(repr(v))) for n, v in vals.items()]

    def nonrandom(m):
        # fix one eta's variance to 0 => the eta is replaced by 0
        etas = m.random_variables.etas.names
        if not etas:
            raise ValueError('no etas')
        eta = etas[-1]
        var = m.random_variables[eta].variance
        if not var.is_symbol():
            raise ValueError('joint eta')
        m1 = pm.fix_parameters_to(m, {var.name: 0})
        m2 = pm.replace_non_random_rvs(m1)
        return m2, {}, [sympy.Eq(sympy.Symbol(eta), 0)]

    def convert_roundtrip(m):
        g = pm.convert_model(m, 'generic')
        return g, {}, []

    def split_join(m):
        m1 = pm.create_joint_distribution(m, individual_estimates=None)
        return pm.split_joint_distribution(m1), {}, []

    def unload(m):
        return pm.load_dataset(pm.unload_dataset(m)), {}, []

    def rename_stmt(m):
        # rename statement-level variables (individual parameters), not only parameters / random variables
        names = [str(s.symbol) for s in m.statements.before_odes if hasattr(s, 'symbol')]
        dv = {str(s) for s in m.dependent_variables}
        names = [n for n in dict.fromkeys(names) if n not in dv][:2]
        if not names:
            raise ValueError('no statement variable')
        mapping = {n: n + '_RN' for n in names}
        return pm.rename_symbols(m, mapping), mapping, []

    def compose(f, g):
        def h(m):
            m1, r1, e1 = f(m)
            m2, r2, e2 = g(m1)
            if r1 or r2 or e1 or e2:
                raise ValueError('composition with renaming not supported')
            return m2, {}, []
        return h

    return {
        'mu_reference_model': plain(pm.mu_reference_model),
        'make_declarative': plain(pm.make_declarative),
        'cleanup_model': plain(pm.cleanup_model),
        'greekify_model': greek,
        'rename_symbols': rename,
        'remove_unused_parameters_and_rvs': plain(pm.remove_unused_parameters_and_rvs),
        'create_joint_distribution': plain(lambda m: pm.create_joint_distribution(m, individual_estimates=None)),
        'split_after_join': split_join,
        'replace_fixed_thetas': fixed,
        'replace_non_random_rvs': nonrandom,
        'convert_model_generic': convert_roundtrip,
        'unload_load_dataset': unload,
        'rename_symbols_statements': rename_stmt,
        'declarative_then_mu': compose(plain(pm.make_declarative), plain(pm.mu_reference_model)),
        'mu_then_cleanup': compose(plain(pm.mu_reference_model), plain(pm.cleanup_model)),
    }


REFUSALS = (ValueError, NotImplementedError, KeyError)


def model_function(model):
    semeq = _W['semeq']
    return semeq.denote(model.statements)


def bounds(model, ren=None):
    """the property quantifies over parameter vectors within bounds: lower <= p <= upper as assumptions (also for the
    renamed symbols); data columns are unconstrained."""
    sympy = _W['sympy']
    out = []
    for p in model.parameters:
        for name in {p.name, (ren or {}).get(p.name, p.name)}:
            s = sympy.Symbol(name)
            if p.lower > -1e300:
                out.append(s >= sympy.Rational(repr(float(p.lower))))
            if p.upper < 1e300:
                out.append(s <= sympy.Rational(repr(float(p.upper))))
    return out


def compare(m, m2, ren, extra, eq, tol=None, outputs_only=False):
    """returns list of (what, verdict, info)."""
    sympy, semeq = _W['sympy'], _W['semeq']
    d1, d2 = model_function(m), model_function(m2)
    extra = list(extra) + bounds(m, ren)
    rmap = {}
    for a, b in ren.items():
        rmap[sympy.Symbol(a)] = sympy.Symbol(b)
    res = []
    dvs1 = [str(s) for s in m.dependent_variables]
    dvs2 = [str(s) for s in m2.dependent_variables]
    if dvs1 != dvs2:
        res.append(('dependent_variables', 'violated', dict(before=dvs1, after=dvs2)))
        return res
    # compartments correspond by dynamics (names are not semantic): find the correspondence first
    amap = {}
    if (d1.odes and not d2.odes) or (d2.odes and not d1.odes):
        res.append(('ode_presence', 'violated', dict(before=len(d1.odes), after=len(d2.odes))))
    elif d1.odes:
        import nmcompare
        mapping, ev = nmcompare.find_bijection(d1.odes, d2.odes, eq, base=rmap, extra=extra)
        res += [(o, v, (dict(d, before=d.get('reference'), after=d.get('pharmpy')) if d else d)) for o, v, d in ev]
        if mapping:
            amap = {a: b for a, b in mapping.items() if a != b}
    full = dict(rmap)
    full.update(amap)
    # a renamed statement variable is compared with its new name (the old name may be re-introduced as a helper)
    common = [s for s in d1.env if rmap.get(s, s) in d2.env and (not outputs_only or str(s) in dvs1)]
    for s in d1.env:
        if str(s) in dvs1 and s not in d2.env:
            res.append((f'value[{s}]', 'violated', dict(what='observation variable no longer defined')))
    for s in common:
        a = d1.env[s].xreplace(full)
        b = d2.env[rmap.get(s, s)]
        v, info = eq.check(a, b, extra=extra, tol=tol)
        res.append((f'value[{s}]', {'equal': 'discharged', 'differ': 'violated'}.get(v, 'inconclusive'),
                    dict(info, before=str(a)[:300], after=str(b)[:300]) if v != 'equal' else None))
    name_map = {str(a.func)[2:]: str(b.func)[2:] for a, b in amap.items()}
    # dose / lag / bioavailability attachments
    for name, c in d1.comp.items():
        c2 = d2.comp.get(name_map.get(name, name))
        if c2 is None:
            continue
        for fld in ('lag', 'bio', 'input'):
            v, info = eq.check(c[fld].xreplace(full), c2[fld], extra=extra)
            if v == 'differ':
                res.append((f'{fld}[{name}]', 'violated', info))
        if [(x['kind'], x['admid']) for x in c['doses']] != [(x['kind'], x['admid']) for x in c2['doses']]:
            res.append((f'doses[{name}]', 'violated', dict(before=str(c['doses']), after=str(c2['doses']))))
    return res


def check_solve(m, eq):
    """solve_ode_system: closed forms satisfy the ODE and the initial condition."""
    pm, sympy, semeq = _W['pm'], _W['sympy'], _W['semeq']
    m2 = pm.solve_ode_system(m)
    d1, d2 = model_function(m), model_function(m2)
    t = sympy.Symbol('t')
    res = []
    closed = {amt: d2.env[amt] for amt in d1.odes if amt in d2.env}
    if len(closed) != len(d1.odes):
        return [('solve_ode_system', 'inconclusive', dict(reason='not all amounts solved (left as ODE)'))]
    rvs = set(m.random_variables.names)
    # closed forms are derived for positive rate parameters / covariates (random effects unconstrained)
    pos = [sympy.Symbol(n) > 0 for n in sorted(set().union(*[{str(s) for s in e.free_symbols}
                                                             for e in closed.values()]))
           if n != 't' and n not in rvs] + bounds(m)
    for amt, rhs in d1.odes.items():
        lhs = sympy.diff(closed[amt], t)
        rhs_sub = rhs.xreplace(closed)
        v, info = eq.check(lhs, rhs_sub, extra=pos + [t >= 0])
        res.append((f'solve.ode[{amt}]', {'equal': 'discharged', 'differ': 'violated'}.get(v, 'inconclusive'),
                    dict(info, lhs=str(lhs)[:300], rhs=str(rhs_sub)[:300]) if v != 'equal' else None))
    for name, c in d1.comp.items():
        amt = c['amount']
        if amt not in closed:
            continue
        bolus = sum((x['amount'] for x in c['doses'] if x['kind'] == 'Bolus'), sympy.Integer(0))
        if any(x['kind'] != 'Bolus' for x in c['doses']):
            continue
        v, info = eq.check(closed[amt].subs(t, 0), bolus * c['bio'], extra=pos)
        res.append((f'solve.init[{amt}]', {'equal': 'discharged', 'differ': 'violated'}.get(v, 'inconclusive'),
                    dict(info, at0=str(closed[amt].subs(t, 0))[:200], dose=str(bolus)) if v != 'equal' else None))
    return res


def check_extractors(m, eq):
    """population / individual prediction expressions and eta / epsilon gradients vs the model function."""
    pm, sympy, semeq = _W['pm'], _W['sympy'], _W['semeq']
    res = []
    if m.statements.ode_system is not None:
        return [('extractors', 'inconclusive', dict(refused='documented: only models without ODE systems'))]
    d = model_function(m)
    ysym = sympy.Symbol(str(list(m.dependent_variables)[0]))
    y = d.env[ysym]
    etas = [sympy.Symbol(n) for n in m.random_variables.etas.names]
    epss = [sympy.Symbol(n) for n in m.random_variables.epsilons.names]

    def full(expr):
        return semeq.value_of(d, expr)
    try:
        ipred = full(pm.get_individual_prediction_expression(m))
        v, info = eq.check(ipred, y.xreplace({e: 0 for e in epss}))
        res.append(('individual_prediction', {'equal': 'discharged', 'differ': 'violated'}.get(v, 'inconclusive'),
                    info if v != 'equal' else None))
        pred = full(pm.get_population_prediction_expression(m))
        v, info = eq.check(pred, y.xreplace({e: 0 for e in epss + etas}))
        res.append(('population_prediction', {'equal': 'discharged', 'differ': 'violated'}.get(v, 'inconclusive'),
                    info if v != 'equal' else None))
    except REFUSALS as e:
        res.append(('prediction_expressions', 'inconclusive', dict(refused=f'{type(e).__name__}: {e}')))
    if m.statements.ode_system is None:
        try:
            g = pm.calculate_epsilon_gradient_expression(m)
            for expr, e in zip(g, epss):
                v, info = eq.check(full(expr), sympy.diff(y, e))
                res.append((f'eps_gradient[{e}]', {'equal': 'discharged', 'differ': 'violated'}.get(v, 'inconclusive'),
                            info if v != 'equal' else None))
            g = pm.calculate_eta_gradient_expression(m)
            for expr, e in zip(g, etas):
                v, info = eq.check(full(expr), sympy.diff(y.xreplace({x: 0 for x in epss}), e))
                res.append((f'eta_gradient[{e}]', {'equal': 'discharged', 'differ': 'violated'}.get(v, 'inconclusive'),
                            info if v != 'equal' else None))
        except REFUSALS as e:
            res.append(('gradient_expressions', 'inconclusive', dict(refused=f'{type(e).__name__}: {e}')))
    return res


def check_unused_exact(m, eq):
    """remove_unused_parameters_and_rvs removes exactly the parameters / random variables without influence on any
    statement: three unused objects are added; after removal exactly those must be gone, and every parameter or random
    variable that was removed must be semantically irrelevant (z3) for every statement value and ODE right-hand side."""
    pm, sympy, semeq = _W['pm'], _W['sympy'], _W['semeq']
    from pharmpy.model import NormalDistribution, Parameter, Parameters
    params = Parameters.create(list(m.parameters) + [Parameter.create('UNUSED_THETA', 0.5),
                                                     Parameter.create('OMEGA_UNUSED', 0.1)])
    rvs = m.random_variables + NormalDistribution.create('ETA_UNUSED', 'IIV', 0, 'OMEGA_UNUSED')
    m1 = m.replace(parameters=params, random_variables=rvs)
    m2 = pm.remove_unused_parameters_and_rvs(m1)
    res = []
    gone_p = set(m1.parameters.names) - set(m2.parameters.names)
    gone_r = set(m1.random_variables.names) - set(m2.random_variables.names)
    d = model_function(m1)
    exprs = list(d.env.values()) + list(d.odes.values())
    used = set()
    for e in exprs:
        used |= {str(x) for x in e.free_symbols}
    # soundness: nothing with semantic influence is removed
    for name in sorted(gone_p | gone_r):
        for e in exprs:
            r, info = semeq.depends_semantically(eq, e, sympy.Symbol(name))
            if r == 'dependent':
                res.append(('unused.sound', 'violated', dict(removed=name, expression=str(e)[:200], witness=info)))
                break
    # exactness: the three added objects are removed; nothing syntactically used is removed; what is neither used nor
    # the variance of a used random variable nor fixed to zero is removed
    expect_gone = {'UNUSED_THETA', 'OMEGA_UNUSED', 'ETA_UNUSED'}
    missing = expect_gone - (gone_p | gone_r)
    if missing:
        res.append(('unused.exact', 'violated', dict(not_removed=sorted(missing))))
    wrongly = {n for n in (gone_p | gone_r) if n in used}
    if wrongly:
        res.append(('unused.exact', 'violated', dict(removed_but_used=sorted(wrongly))))
    if not res:
        res.append(('unused.exact', 'discharged', None))
    r2 = compare(m, m2, {}, [], eq)
    return res + [('unused.' + o, v, dd) for o, v, dd in r2 if v != 'discharged'] + \
        [('unused.function_preserved', 'discharged', None)] * (0 if any(v == 'violated' for _, v, _ in r2) else 1)


def check_simplify(m, eq, limit=8):
    """simplify_expression(model, e) == e for every parameter vector within bounds (it simplifies under the bounds as
    assumptions), for the right-hand sides of the model's own statements and their full expressions."""
    pm, sympy = _W['pm'], _W['sympy']
    res = []
    extra = bounds(m)
    seen = 0
    for st in list(m.statements.before_odes) + list(m.statements.after_odes):
        if not hasattr(st, 'symbol') or seen >= limit:
            continue
        e = sympy.sympify(st.expression)
        if not e.free_symbols:
            continue
        seen += 1
        got = sympy.sympify(pm.simplify_expression(m, e))
        v, info = eq.check(e, got, extra=extra)
        res.append((f'simplify[{st.symbol}]', {'equal': 'discharged', 'differ': 'violated'}.get(v, 'inconclusive'),
                    dict(info, before=str(e)[:300], after=str(got)[:300]) if v != 'equal' else None))
    return res


def run_case(case):
    if not _W:
        _init()
    label, vname, rname = case
    sym2smt = _W['sym2smt']
    eq = sym2smt.Equiv(timeout_ms=20000)
    out = dict(case=case, results=[], queries=0, solver_s=0.0, stats={}, skipped=None)
    try:
        base = get_start(label)
        vs = dict(variants(label, base))
        if vname not in vs:
            out['skipped'] = 'variant not applicable'
            return out
        m = vs[vname]()
    except Exception as e:  # noqa
        out['skipped'] = f'start model not available: {type(e).__name__}: {e}'[:200]
        return out
    try:
        if rname == 'solve_ode_system':
            if m.statements.ode_system is None:
                out['skipped'] = 'no ODE system'
                return out
            res = check_solve(m, eq)
        elif rname == 'extractors':
            res = check_extractors(m, eq)
        elif rname == 'unused_exact':
            res = check_unused_exact(m, eq)
        elif rname == 'simplify_expression':
            res = check_simplify(m, eq)
        else:
            try:
                m2, ren, extra = refactorings()[rname](m)
            except REFUSALS as e:
                out['skipped'] = f'refused: {type(e).__name__}: {e}'[:200]
                return out
            res = compare(m, m2, ren, extra, eq)
    except REFUSALS as e:
        out['skipped'] = f'refused: {type(e).__name__}: {e}'[:200]
        return out
    except Exception as e:  # noqa
        # C07 is about the function of r(M) when r succeeds; a refactoring that raises is recorded, not an alarm here
        # (totality of the structural setters is C08's clause)
        out['skipped'] = f'raised: {type(e).__name__}: {e}'[:200]
        out['raised'] = traceback.format_exc()[-400:]
        return out
    out.update(results=res, queries=eq.queries, solver_s=eq.solver_s, stats=eq.stats)
    return out


def replay(path):
    with open(path) as f:
        d = json.load(f)
    res = run_case(tuple(d['replay']['case']))
    bad = [(o, dd) for o, v, dd in res['results'] if v == 'violated']
    print(json.dumps(dict(case=res['case'], violated=bad, skipped=res['skipped']), default=str, indent=1))
    return 1 if bad else 0


def main():
    if '--replay' in sys.argv:
        sys.exit(replay(sys.argv[sys.argv.index('--replay') + 1]))
    run = Run('C07', 'translation_validation')
    thorough = run.tier == 'thorough'
    budget = 1500 if thorough else 170
    _init()
    labels = start_labels()
    rnames = list(refactorings()) + ['solve_ode_system', 'extractors', 'unused_exact', 'simplify_expression']
    VARIANT_NAMES = ['', '+prop_error', '+iiv_joint', '+peripheral', '+fo_abs', '+mm_elim']
    cases = []
    for label in labels:
        for vn in (VARIANT_NAMES if thorough else ['', '+peripheral']):
            for r in rnames:
                cases.append((label, label + vn, r))
    if not thorough:
        import random
        first = [c for c in cases if c[0] in PRIORITY]
        first.sort(key=lambda c: PRIORITY.index(c[0]))
        rest = [c for c in cases if c[0] not in PRIORITY]
        random.Random(run.seed).shuffle(rest)
        cases = first + rest
    models = [(l, None) for l in labels]
    nproc = int(os.environ.get('VERIF_JOBS', 0)) or min(16, os.cpu_count() or 4)
    t0 = time.time()
    stats = dict(unsat=0, sat_confirmed=0, sat_unreplayable=0, unknown=0, unsupported=0)
    nq, solver_s, done, skipped = 0, 0.0, 0, 0
    counts = {}
    viol = {}
    cut = None
    with mp.Pool(nproc, initializer=_init) as pool:
        it = pool.imap_unordered(run_case, cases, chunksize=1)
        while True:
            try:
                res = it.next(timeout=max(1.0, budget + 45 - (time.time() - t0)))
            except StopIteration:
                break
            except mp.TimeoutError:
                cut = f'hard deadline: stopped after {done} of {len(cases)} (model, refactoring) pairs'
                break
            done += 1
            if res['skipped']:
                skipped += 1
                counts[('skipped', res['case'][2])] = counts.get(('skipped', res['case'][2]), 0) + 1
                continue
            nq += res['queries']
            solver_s += res['solver_s']
            for k, v in res['stats'].items():
                stats[k] += v
            for ob, verdict, detail in res['results']:
                key = (res['case'][2], verdict)
                counts[key] = counts.get(key, 0) + 1
                if verdict == 'violated':
                    viol.setdefault(res['case'][2], []).append((res['case'], ob, detail))
                elif verdict == 'inconclusive' and len([o for o in run.obligations if o['verdict'] == 'inconclusive']) < 40:
                    run.add(f'{res["case"][2]}:{ob}[{res["case"][1]}]', 'inconclusive', 0, detail)
            if done % 7 == 0:
                run.sample(dict(case=res['case'], checks=[(o, v) for o, v, _ in res['results']][:6]))
            if time.time() - t0 > budget:
                cut = f'stopped by time budget after {done} of {len(cases)} (model, refactoring) pairs'
                break
        pool.terminate()
    for (r, verdict), c in sorted(counts.items()):
        if verdict == 'discharged':
            run.add(r, 'discharged', 0, dict(equalities=c))
    for r, lst in viol.items():
        unknown = []
        for case, ob, detail in lst:
            key = f'{r} :: {case[1]} :: {ob} :: {(detail or {}).get("error", "")}'
            e = run.match_known(key)
            if e is None:
                unknown.append((case, ob, detail, key))
            elif e['id'] not in [k for k, _ in run.known_hits]:
                run.known_hits.append((e['id'], e['what']))
        if unknown:
            case, ob, detail, key = unknown[0]
            v = run.report_violation(f'{r}', key, dict(kind='C07', case=case),
                                     f'{case}: {ob}: ' + json.dumps(detail, default=str)[:600])
            run.add(r, v, 0, dict(case=case, ob=ob, detail=detail), cases=len(unknown))
        else:
            run.add(r, 'known', 0, dict(case=lst[0][0], ob=lst[0][1]), cases=len(lst))
    run.functions = ['pharmpy.modeling.' + r for r in rnames[:-1]] + [
        'get_individual_prediction_expression', 'get_population_prediction_expression',
        'calculate_eta_gradient_expression', 'calculate_epsilon_gradient_expression']
    run.bounds = dict(models=[l for l, _ in models], variants='per model: as read, +proportional error, +joint IIV, '
                      '+peripheral, +first-order absorption, +MM elimination (thorough: all; quick: as read + peripheral)',
                      refactorings=rnames,
                      outside='pandas-based numeric evaluators (evaluate_*) and finite differences; gradient '
                              'extractors only for models without ODE system; models that this environment cannot '
                              'read (pandas incompatibility) are skipped')
    run.assumptions = ['model function = reference sequential interpretation of model.statements (lib/semeq.py)',
                       'exp/log uninterpreted with sound axioms; a sat model is replayed numerically with the real '
                       'functions on the pharmpy expressions before a violation is reported',
                       'replace_fixed_thetas / replace_non_random_rvs compared under theta == fixed value / eta == 0',
                       'solve_ode_system: uniqueness of ODE solutions (closed form satisfies ODE + initial condition)']
    run.extra['explanation'] = 'translation validation of refactorings on corpus models'
    run.finish(coverage=dict(programs=done - skipped, disagreements_checked=stats['sat_confirmed'], queries=nq,
                             solver_stats=stats, skipped_pairs=skipped, cut=cut, exhaustive=cut is None,
                             evaluations=max(1, done), distinct_nontrivial=max(2, done - skipped),
                             rule='one case = (start model variant, refactoring); non-trivial = the refactoring was '
                                  'applicable (not refused)',
                             solver_time_s=round(solver_s, 1)))


if __name__ == '__main__':
    main()
