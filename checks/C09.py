"""C09 — model extensions implement their documented formulas and are neutral at the reference point.

The REAL extension functions are applied to corpus models; z3 decides for all numeric inputs that (a) the extended
individual parameter equals op(old parameter, documented effect template) with the centring statistic recomputed from
the dataset by the harness, (b) the extension is neutral at the reference point (covariate = centre, eta = 0, weight =
reference), (c) error-model setters give an observation whose dependence on the prediction and each epsilon is that of
the named error model and leave the prediction unchanged, (d) absorption / transit setters keep the documented rate
definitions, (e) removing the extension restores the previous model function.
"""
import json
import multiprocessing as mp
import os
import sys
import time
import traceback

from vcommon import Run

_W = {}
START = ['pheno_real.mod', 'models/mox2.mod', 'modeling/pheno_advan2.mod']
REFUSALS = (ValueError, NotImplementedError)


def _init():
    import warnings
    warnings.simplefilter('ignore')
    import sympy
    import corpus
    import nmcompare
    import semeq
    import sym2smt
    import pharmpy.modeling as pm
    sys.path.insert(0, os.path.dirname(os.path.abspath(__file__)))
    import C07
    C07._init()
    _W.update(sympy=sympy, corpus=corpus, pm=pm, C07=C07, sym2smt=sym2smt, semeq=semeq, nmcompare=nmcompare)


def V(v):
    return {'equal': 'discharged', 'differ': 'violated'}.get(v, 'inconclusive')


def centre(model, cov, kind):
    """the centring statistic as documented: median (continuous templates) / most common category, over the individual
    baselines."""
    df = model.dataset
    idcol = model.datainfo.id_column.name
    if kind == 'mode':
        return df[cov].mode().iloc[0]
    # "calculated first per individual, then for the group"
    return float(df.groupby(idcol)[cov].median().median())


def new_names(m, m2):
    return [p for p in m2.parameters.names if p not in m.parameters.names]


def case_covariate(m, spec, eq, rec):
    sympy, pm, semeq = _W['sympy'], _W['pm'], _W['semeq']
    param, cov, effect, op = spec
    m2 = pm.add_covariate_effect(m, param, cov, effect, op)
    d1, d2 = semeq.denote(m.statements.before_odes), semeq.denote(m2.statements.before_odes)
    P = sympy.Symbol(param)
    old, new = d1.env[P], d2.env[P]
    th = [sympy.Symbol(n) for n in new_names(m, m2)]
    c = sympy.Symbol(cov)
    if m2.statements == m.statements:
        raise ValueError('no covariate effect was added (the parameter already depends on this covariate)')
    if not th and effect not in ('cat', 'cat2'):
        raise ValueError('no new parameter was created')
    if effect in ('cat', 'cat2'):
        # documented: the most common category has effect 1, EVERY other category present in the data has its own
        # theta (1 + theta for cat, theta for cat2).  Decide level by level with z3.
        levels = sorted(set(m.dataset[cov].unique()))
        if not (2 <= len(levels) <= 12):
            raise ValueError(f'{cov} is not a small categorical covariate')
        used, refs, bad = set(), [], []
        for k in levels:
            kk = sympy.Integer(int(k)) if float(k).is_integer() else sympy.Float(k)
            val = new.xreplace({c: kk})
            base_k = old.xreplace({c: kk})
            want1 = base_k if op == '*' else base_k + 1
            v, _ = eq.check(val, want1)
            if v == 'equal':
                refs.append(k)
                continue
            hit = None
            for t in th:
                e = (1 + t) if effect == 'cat' else t
                v, _ = eq.check(val, base_k * e if op == '*' else base_k + e)
                if v == 'equal':
                    hit = t
                    break
            if hit is None or hit in used:
                bad.append(k)
            else:
                used.add(hit)
        if bad or len(refs) != 1:
            rec('covariate.template', 'violated', levels=[float(x) for x in levels], without_documented_effect=[float(x) for x in bad],
                reference_levels=[float(x) for x in refs], new_thetas=[str(t) for t in th], got=str(new)[:300])
        else:
            by_rows = m.dataset[cov].mode().iloc[0]
            idcol = m.datainfo.id_column.name
            by_ind = m.dataset.groupby(idcol)[cov].agg(lambda x: x.mode().iloc[0]).mode().iloc[0]
            counts = {k: m.dataset[m.dataset[cov] == k][idcol].nunique() for k in levels}
            by_count = max(counts, key=lambda k: counts[k])
            if refs[0] not in (by_rows, by_ind, by_count):
                rec('covariate.template', 'violated', what='reference category is not the most common one',
                    reference=float(refs[0]), most_common=[float(by_rows), float(by_ind), float(by_count)])
            else:
                rec('covariate.template', 'discharged')
        templ = None
        refval = refs[0] if refs else levels[0]
    else:
        med = centre(m, cov, 'median')
        refval = med
        medr = sympy.Float(med)
        if effect == 'lin':
            templ = 1 + th[0] * (c - medr)
        elif effect == 'exp':
            templ = sympy.exp(th[0] * (c - medr))
        elif effect == 'pow':
            templ = (c / medr) ** th[0]
        elif effect == 'piece_lin':
            templ = sympy.Piecewise((1 + th[0] * (c - medr), c <= medr), (1 + th[1] * (c - medr), True))
        else:
            templ = None
    if templ is not None:
        want = old * templ if op == '*' else old + templ
        extra = [c > 0] if effect == 'pow' else []
        v, info = eq.check(new, want, extra=extra)
        rec('covariate.template', V(v), **(dict(info, got=str(new)[:300], documented=str(want)[:300]) if v != 'equal' else {}))
    # neutral at the reference value of the covariate
    neutral_new = new.xreplace({c: sympy.Float(refval) if not float(refval).is_integer() else sympy.Integer(int(refval))})
    neutral_old = old.xreplace({c: sympy.Float(refval) if not float(refval).is_integer() else sympy.Integer(int(refval))})
    want = neutral_old if op == '*' else neutral_old + 1
    v, info = eq.check(neutral_new, want)
    rec('covariate.neutral_at_reference', V(v), **(dict(info, got=str(neutral_new)[:300]) if v != 'equal' else {}))
    # removal restores
    m3 = pm.remove_covariate_effect(m2, param, cov)
    r = _W['C07'].compare(m, m3, {}, [], eq)
    bad = [(o, d) for o, vv, d in r if vv == 'violated']
    rec('covariate.remove_restores', 'violated' if bad else 'discharged', **(dict(first=bad[0][0], detail=bad[0][1]) if bad else {}))


def case_iiv(m, spec, eq, rec):
    sympy, pm, semeq = _W['sympy'], _W['pm'], _W['semeq']
    param, form = spec
    m2 = pm.add_iiv(m, param, form)
    d1, d2 = semeq.denote(m.statements.before_odes), semeq.denote(m2.statements.before_odes)
    P = sympy.Symbol(param)
    old, new = d1.env[P], d2.env[P]
    eta = [sympy.Symbol(n) for n in m2.random_variables.etas.names if n not in m.random_variables.etas.names]
    if len(eta) != 1:
        rec('iiv.new_eta', 'violated', new_etas=[str(e) for e in eta])
        return
    e = eta[0]
    templ = {'add': old + e, 'prop': old * (1 + e), 'exp': old * sympy.exp(e), 'log': old * sympy.exp(e) / (1 + sympy.exp(e)),
             're_log': sympy.exp(old) * sympy.exp(e) / (1 + sympy.exp(old) * sympy.exp(e)) if False else None}.get(form)
    if templ is not None:
        v, info = eq.check(new, templ)
        rec('iiv.template', V(v), **(dict(info, got=str(new)[:200], documented=str(templ)[:200]) if v != 'equal' else {}))
    if form in ('add', 'exp', 'prop'):
        v, info = eq.check(new.xreplace({e: 0}), old)
        rec('iiv.neutral_at_eta0', V(v), **(dict(info, got=str(new.xreplace({e: 0}))[:200]) if v != 'equal' else {}))
    m3 = pm.remove_iiv(m2, str(e))
    r = _W['C07'].compare(m, m3, {}, [], eq)
    bad = [(o, d) for o, vv, d in r if vv == 'violated']
    rec('iiv.remove_restores', 'violated' if bad else 'discharged', **(dict(first=bad[0][0], detail=bad[0][1]) if bad else {}))


def case_eta_transform(m, spec, eq, rec):
    sympy, pm, semeq = _W['sympy'], _W['pm'], _W['semeq']
    f = {'boxcox': pm.transform_etas_boxcox, 'tdist': pm.transform_etas_tdist, 'john_draper': pm.transform_etas_john_draper}[spec]
    m2 = f(m)
    d1, d2 = semeq.denote(m.statements), semeq.denote(m2.statements)
    etas = {sympy.Symbol(n): 0 for n in m2.random_variables.etas.names}
    for s in d1.env:
        if s in d2.env:
            a, b = d1.env[s].xreplace(etas), d2.env[s].xreplace(etas)
            # the transformations divide by their parameter (boxcox) / degrees of freedom: take the documented inits' domain
            v, info = eq.check(a, b, extra=[sympy.Symbol(n) > 0 for n in new_names(m, m2)])
            if v != 'equal':
                rec(f'eta_transform.neutral_at_eta0[{s}]', V(v), **dict(info, before=str(a)[:200], after=str(b)[:200]))
                if v == 'differ':
                    return
    rec('eta_transform.neutral_at_eta0', 'discharged')
    # removing the variability of a transformed eta gives the model function at that eta zero
    for name in m.random_variables.etas.names[:2]:
        case_remove_existing(m2, name, eq, rec, tag=f'eta_transform.remove_iiv[{name}]')


def _eta_template(kind, eta, th):
    """the documented transformation of one eta (docstrings of transform_etas_*)"""
    sympy = _W['sympy']
    if kind == 'boxcox':
        return (sympy.exp(eta) ** th - 1) / th
    if kind == 'john_draper':
        return sympy.sign(eta) * ((sympy.Abs(eta) + 1) ** th - 1) / th
    return eta * (1 + (eta ** 2 + 1) / (4 * th) + (5 * eta ** 4 + 16 * eta ** 2 + 3) / (96 * th ** 2)
                  + (3 * eta ** 6 + 19 * eta ** 4 + 17 * eta ** 2 - 15) / (384 * th ** 3))


def case_eta_transform_formula(m, spec, eq, rec):
    """Every value of the transformed model is the value of the original model with each transformed eta replaced
    by its documented transformation with its own new parameter - whether the etas are transformed in one call or one
    after the other in separate calls (the second call must not disturb the first)."""
    sympy, pm, semeq = _W['sympy'], _W['pm'], _W['semeq']
    kind, mode = spec
    f = {'boxcox': pm.transform_etas_boxcox, 'tdist': pm.transform_etas_tdist,
         'john_draper': pm.transform_etas_john_draper}[kind]
    etas = m.random_variables.iiv.names[:2]
    if len(etas) < 2:
        raise ValueError('fewer than two etas')
    sub = {}
    m2 = m
    if mode == 'one_call':
        m2 = f(m, list(etas))
        th = new_names(m, m2)
        if len(th) != len(etas):
            raise ValueError(f'{len(th)} new parameters for {len(etas)} etas')
        for e, t in zip(etas, th):
            sub[sympy.Symbol(e)] = _eta_template(kind, sympy.Symbol(e), sympy.Symbol(t))
    else:
        for e in (etas if mode == 'one_by_one' else list(reversed(etas))):
            m3 = f(m2, [e])
            th = new_names(m2, m3)
            if len(th) != 1:
                raise ValueError(f'{len(th)} new parameters for one eta')
            sub[sympy.Symbol(e)] = _eta_template(kind, sympy.Symbol(e), sympy.Symbol(th[0]))
            m2 = m3
    d1, d2 = semeq.denote(m.statements), semeq.denote(m2.statements)
    extra = [sympy.Symbol(n) > 0 for n in new_names(m, m2)]
    for s in d1.env:
        if s in d2.env:
            a, b = d1.env[s].xreplace(sub), d2.env[s]
            v, info = eq.check(a, b, extra=extra)
            if v != 'equal':
                rec(f'eta_transform.formula[{s}]', V(v), **dict(info, documented=str(a)[:240], got=str(b)[:240]))
                if v == 'differ':
                    return
    for amt, rhs in d1.odes.items():
        if amt in d2.odes:
            v, info = eq.check(rhs.xreplace(sub), d2.odes[amt], extra=extra)
            if v != 'equal':
                rec(f'eta_transform.formula[{amt}]', V(v), **info)
                if v == 'differ':
                    return
    rec('eta_transform.formula', 'discharged')


def case_remove_existing(m, name, eq, rec, tag=None, reference=None):
    sympy, pm, semeq = _W['sympy'], _W['pm'], _W['semeq']
    tag = tag or f'iiv.remove_existing[{name}]'
    reference = reference if reference is not None else m
    m3 = pm.remove_iiv(m, name)
    if name in m3.random_variables.etas.names:
        rec(tag, 'violated', detail='eta still present')
        return
    d1, d3 = semeq.denote(reference.statements), semeq.denote(m3.statements)
    at = {sympy.Symbol(name): 0}
    extra = [sympy.Symbol(n) > 0 for n in new_names(reference, m)]
    for s in d1.env:
        if s in d3.env:
            a, b = d1.env[s].xreplace(at), d3.env[s]
            v, info = eq.check(a, b, extra=extra)
            if v != 'equal':
                rec(f'{tag}[{s}]', V(v), **dict(info, at_eta0=str(a)[:200], removed=str(b)[:200]))
                if v == 'differ':
                    return
    for amt, rhs in d1.odes.items():
        if amt in d3.odes:
            v, info = eq.check(rhs.xreplace(at), d3.odes[amt], extra=extra)
            if v != 'equal':
                rec(f'{tag}[{amt}]', V(v), **info)
                return
    rec(tag, 'discharged')


def case_iiv_existing(m, spec, eq, rec):
    case_remove_existing(m, spec, eq, rec)


def case_allometry(m, spec, eq, rec):
    sympy, pm, semeq = _W['sympy'], _W['pm'], _W['semeq']
    wt, ref = spec
    m2 = pm.add_allometry(m, allometric_variable=wt, reference_value=ref)
    d1, d2 = semeq.denote(m.statements), semeq.denote(m2.statements)
    at = {sympy.Symbol(wt): sympy.Integer(ref)}
    ok = True
    for s in d1.env:
        if s in d2.env:
            v, info = eq.check(d1.env[s].xreplace(at), d2.env[s].xreplace(at))
            if v != 'equal':
                rec(f'allometry.neutral_at_reference[{s}]', V(v), **dict(info, before=str(d1.env[s])[:200], after=str(d2.env[s])[:200]))
                ok = False
                if v == 'differ':
                    break
    for amt, rhs in d1.odes.items():
        if amt in d2.odes:
            v, info = eq.check(rhs.xreplace(at), d2.odes[amt].xreplace(at))
            if v != 'equal':
                rec(f'allometry.neutral_at_reference[{amt}]', V(v), **info)
                ok = False
    if ok:
        rec('allometry.neutral_at_reference', 'discharged')


def case_error(m, spec, eq, rec):
    sympy, pm, semeq = _W['sympy'], _W['pm'], _W['semeq']
    # spec: 'setter' or 'pre>setter' / 'pre+ruviiv>setter': the start model first gets error model `pre` (and IIV on RUV)
    pre = None
    if '>' in spec:
        pre, spec = spec.split('>')
    setters = {'additive': pm.set_additive_error_model, 'proportional': pm.set_proportional_error_model,
               'combined': pm.set_combined_error_model,
               'power': lambda mm: pm.set_power_on_ruv(pm.set_proportional_error_model(mm))}
    f = setters[spec]
    if pre:
        ruviiv = pre.endswith('+ruviiv')
        m = setters[pre.split('+')[0]](m)
        if ruviiv:
            m = pm.set_iiv_on_ruv(m)
    m2 = f(m)
    d1, d2 = semeq.denote(m.statements), semeq.denote(m2.statements)
    y = sympy.Symbol(str(list(m.dependent_variables)[0]))
    eps1 = {sympy.Symbol(n): 0 for n in m.random_variables.epsilons.names}
    eps2 = [sympy.Symbol(n) for n in m2.random_variables.epsilons.names]
    f_old = d1.env[y].xreplace(eps1)
    f_new = d2.env[y].xreplace({e: 0 for e in eps2})
    v, info = eq.check(f_old, f_new)
    rec('error.prediction_unchanged', V(v), **(dict(info, before=str(f_old)[:200], after=str(f_new)[:200]) if v != 'equal' else {}))
    ynew = d2.env[y]
    th = [sympy.Symbol(n) for n in new_names(m, m2)]
    # inter-individual variability on the residual error (ETA_RV1), where the model has it, scales every epsilon
    g = sympy.Integer(1)
    for n in m2.random_variables.etas.names:
        if n.startswith('ETA_RV') and sympy.Symbol(n) in ynew.free_symbols:
            g = sympy.exp(sympy.Symbol(n))
    if spec == 'additive' and len(eps2) == 1:
        want = f_new + eps2[0] * g
    elif spec == 'proportional' and len(eps2) == 1:
        want = f_new + f_new * eps2[0] * g
    elif spec == 'combined' and len(eps2) == 2:
        want = f_new + f_new * eps2[0] * g + eps2[1] * g
    elif spec == 'power' and len(eps2) == 1:
        power = [t for t in th if 'power' in t.name.lower()]
        want = f_new + f_new ** power[0] * eps2[0] if power else None
    else:
        want = None
    if want is None:
        rec('error.form', 'inconclusive', what=f'{len(eps2)} epsilons / parameters {th}')
    else:
        # the proportional template is guarded against a zero prediction in the generated model
        v, info = eq.check(ynew, want, extra=[f_new > 0])
        rec('error.form', V(v), **(dict(info, got=str(ynew)[:300], documented=str(want)[:300]) if v != 'equal' else {}))


def _cmp_env(d1, d2, sub2, eq, rec, tag, extra=None, sub1=None):
    """every symbol defined on both sides has the same value (right side under sub2, left under sub1)"""
    for s in d1.env:
        if s in d2.env:
            a = d1.env[s].xreplace(sub1) if sub1 else d1.env[s]
            b = d2.env[s].xreplace(sub2) if sub2 else d2.env[s]
            v, info = eq.check(a, b, extra=extra)
            if v != 'equal':
                rec(f'{tag}[{s}]', V(v), **dict(info, before=str(a)[:200], after=str(b)[:200]))
                return False
    rec(tag, 'discharged')
    return True


def case_iov(m, spec, eq, rec):
    """add_iov: 'leave predictions unchanged at eta zero' (all occasions present in the data); remove_iov restores."""
    sympy, pm, semeq = _W['sympy'], _W['pm'], _W['semeq']
    occ, param, dist = spec
    m2 = pm.add_iov(m, occ, list_of_parameters=[param], distribution=dist)
    new = [n for n in m2.random_variables.etas.names if n not in m.random_variables.etas.names]
    if not new:
        rec('iov.new_etas', 'violated', detail='no eta added')
        return
    levels = sorted(set(m.dataset[occ].tolist()))
    O = sympy.Symbol(occ)
    dom = [sympy.Or(*[sympy.Eq(O, sympy.nsimplify(v)) for v in levels])]
    d1, d2 = semeq.denote(m.statements), semeq.denote(m2.statements)
    _cmp_env(d1, d2, {sympy.Symbol(n): 0 for n in new}, eq, rec, 'iov.neutral_at_eta0', extra=dom)
    # each occasion has its own eta: on occasion k the parameter depends on one iov eta only and as exp/add of it
    m3 = pm.remove_iov(m2)
    r = _W['C07'].compare(m, m3, {}, [], eq)
    bad = [(o, d) for o, vv, d in r if vv == 'violated']
    rec('iov.remove_restores', 'violated' if bad else 'discharged', **(dict(first=bad[0][0], detail=bad[0][1]) if bad else {}))


def case_iov_partial(m, spec, eq, rec):
    """IOV added to two parameters (disjoint or joint occasion blocks); removing the IOV of ONE of them (named by one
    of its occasion etas) restores that parameter and leaves the other parameter's IOV as it was."""
    sympy, pm, semeq = _W['sympy'], _W['pm'], _W['semeq']
    occ, p1, p2, dist = spec
    m2 = pm.add_iov(m, occ, list_of_parameters=[p1, p2], distribution=dist)
    new = [n for n in m2.random_variables.etas.names if n not in m.random_variables.etas.names]
    d1, d2 = semeq.denote(m.statements), semeq.denote(m2.statements)
    P1, P2 = sympy.Symbol(p1), sympy.Symbol(p2)
    mine = sorted(str(x) for x in d2.env[P1].free_symbols if str(x) in new)
    other = sorted(str(x) for x in d2.env[P2].free_symbols if str(x) in new)
    if not mine or not other or set(mine) & set(other):
        rec('iov_partial.setup', 'inconclusive', what=f'iov etas of {p1}: {mine}, of {p2}: {other}')
        return
    m3 = pm.remove_iov(m2, to_remove=[mine[0]])
    d3 = semeq.denote(m3.statements)
    left = [n for n in m3.random_variables.etas.names if n in new]
    if sorted(left) != other:
        rec('iov_partial.etas_left', 'violated', left=left, expected=other)
        return
    levels = sorted(set(m.dataset[occ].tolist()))
    dom = [sympy.Or(*[sympy.Eq(sympy.Symbol(occ), sympy.nsimplify(v)) for v in levels])]
    v, info = eq.check(d3.env[P1], d1.env[P1], extra=dom)
    rec('iov_partial.removed_parameter_restored', V(v), **(dict(info, got=str(d3.env[P1])[:200]) if v != 'equal' else {}))
    v, info = eq.check(d3.env[P2], d2.env[P2], extra=dom)
    rec('iov_partial.other_parameter_unchanged', V(v), **(dict(info, got=str(d3.env[P2])[:200], before=str(d2.env[P2])[:200]) if v != 'equal' else {}))


def case_ruv_iiv(m, spec, eq, rec):
    """set_iiv_on_ruv: Y = F + EPS*W*exp(ETA_RV): the old observation with every epsilon scaled by exp(eta)."""
    sympy, pm, semeq = _W['sympy'], _W['pm'], _W['semeq']
    m2 = pm.set_iiv_on_ruv(m)
    new = [sympy.Symbol(n) for n in m2.random_variables.etas.names if n not in m.random_variables.etas.names]
    if len(new) != 1:
        rec('ruv_iiv.new_eta', 'violated', new=[str(n) for n in new])
        return
    e = new[0]
    d1, d2 = semeq.denote(m.statements), semeq.denote(m2.statements)
    y = sympy.Symbol(str(list(m.dependent_variables)[0]))
    eps = [sympy.Symbol(n) for n in m.random_variables.epsilons.names]
    want = d1.env[y].xreplace({x: x * sympy.exp(e) for x in eps})
    v, info = eq.check(d2.env[y], want)
    rec('ruv_iiv.template', V(v), **(dict(info, got=str(d2.env[y])[:200], documented=str(want)[:200]) if v != 'equal' else {}))
    _cmp_env(d1, d2, {e: 0}, eq, rec, 'ruv_iiv.neutral_at_eta0')
    m3 = pm.remove_iiv(m2, str(e))
    r = _W['C07'].compare(m, m3, {}, [], eq)
    bad = [(o, d) for o, vv, d in r if vv == 'violated']
    rec('ruv_iiv.remove_restores', 'violated' if bad else 'discharged', **(dict(first=bad[0][0], detail=bad[0][1]) if bad else {}))


def case_time_varying(m, spec, eq, rec):
    """set_time_varying_error_model(cutoff): before the cutoff every epsilon is scaled by the new theta, after it the
    observation is unchanged."""
    sympy, pm, semeq = _W['sympy'], _W['pm'], _W['semeq']
    cutoff = spec
    m2 = pm.set_time_varying_error_model(m, cutoff=cutoff)
    th = [sympy.Symbol(n) for n in new_names(m, m2)]
    if len(th) != 1:
        rec('time_varying.new_theta', 'violated', new=[str(t) for t in th])
        return
    d1, d2 = semeq.denote(m.statements), semeq.denote(m2.statements)
    y = sympy.Symbol(str(list(m.dependent_variables)[0]))
    idv = sympy.Symbol(m.datainfo.idv_column.name)
    eps = [sympy.Symbol(n) for n in m.random_variables.epsilons.names]
    c = sympy.nsimplify(cutoff)
    v, info = eq.check(d2.env[y], d1.env[y], extra=[idv >= c])
    rec('time_varying.after_cutoff_unchanged', V(v), **(dict(info, got=str(d2.env[y])[:200]) if v != 'equal' else {}))
    want = d1.env[y].xreplace({x: x * th[0] for x in eps})
    v, info = eq.check(d2.env[y], want, extra=[idv < c])
    rec('time_varying.before_cutoff_scaled', V(v), **(dict(info, got=str(d2.env[y])[:200], documented=str(want)[:200]) if v != 'equal' else {}))
    _cmp_env(d1, d2, {th[0]: 1}, eq, rec, 'time_varying.neutral_at_theta1')


def case_blq(m, spec, eq, rec):
    """transform_blq(method, lloq): observations at or above LLOQ keep their function and are flagged 0; below LLOQ the
    likelihood is PHI((LLOQ-F)/SD) (M3) or (PHI((LLOQ-F)/SD)-PHI(-F/SD))/(1-PHI(-F/SD)) (M4), SD**2 = Var(Y)."""
    sympy, pm, semeq = _W['sympy'], _W['pm'], _W['semeq']
    method, lloq = spec
    m2 = pm.transform_blq(m, method=method, lloq=lloq)
    d1, d2 = semeq.denote(m.statements), semeq.denote(m2.statements)
    y = sympy.Symbol(str(list(m.dependent_variables)[0]))
    dv = sympy.Symbol(m.datainfo.dv_column.name)
    L = sympy.nsimplify(lloq)
    S = sympy.Symbol
    v, info = eq.check(d2.env[y], d1.env[y], extra=[dv >= L])
    rec('blq.above_lloq_unchanged', V(v), **(dict(info, got=str(d2.env[y])[:200]) if v != 'equal' else {}))
    flag = d2.env.get(S('F_FLAG'))
    if flag is None:
        rec('blq.f_flag', 'violated', detail='F_FLAG not defined')
        return
    v1, i1 = eq.check(flag, sympy.Integer(0), extra=[dv >= L])
    v2, i2 = eq.check(flag, sympy.Integer(1), extra=[dv < L])
    rec('blq.f_flag', V(v1) if v1 != 'equal' else V(v2), **(i1 if v1 != 'equal' else (i2 if v2 != 'equal' else {})))
    eps = [sympy.Symbol(n) for n in m.random_variables.epsilons.names]
    f = d1.env[y].xreplace({e: 0 for e in eps})
    sd = d2.env.get(S('SD'))
    if sd is None:
        rec('blq.sd', 'inconclusive', what='no SD symbol')
        return
    PHI = sympy.Function('PHI')
    z = {e: 0 for e in eps}
    var = 0
    for e in eps:
        coef = d1.env[y].xreplace({**z, e: 1}) - f
        sig = m.random_variables[e.name].get_variance(e.name)
        var = var + coef ** 2 * sympy.sympify(sig)
    # the symbols are real quantities: lets sympy cancel sqrt(x)**2 and Abs(x)**2 before the solver sees them
    real = lambda ex: ex.xreplace({x: sympy.Symbol(x.name, real=True) for x in ex.free_symbols if x.is_Symbol})  # noqa: E731
    v, info = eq.check(real(sd) ** 2, real(var))
    rec('blq.sd_is_sd_of_y', V(v), **(dict(info, got=str(sd)[:200], documented=str(var)[:200]) if v != 'equal' else {}))
    SDs = sympy.Symbol('SD__')
    cumd = PHI((L - f) / SDs)
    if method == 'm3':
        want = cumd
    else:
        cumdz = PHI(-f / SDs)
        want = (cumd - cumdz) / (1 - cumdz)
    got = d2.env[y]
    v, info = eq.check(got, want.xreplace({SDs: sd}), extra=[dv < L])
    rec('blq.below_lloq_likelihood', V(v), **(dict(info, got=str(got)[:300], documented=str(want)[:300]) if v != 'equal' else {}))


def case_blq_power(m, spec, eq, rec):
    """Extensions compose: a power on the residual error applied to a model that already has the BLQ transformation
    (M3/M4) must give, for observations at or above LLOQ, the observation function of the same power model without
    the BLQ transformation (transform_blq leaves those observations alone; set_power_on_ruv scales each epsilon by
    f**theta).  `pre`: the error model is first set by a setter (proportional: written through the zero-protection
    guard IPREDADJ) or left as the control stream has it (pheno_real: W = F; Y = F + W*EPS)."""
    sympy, pm, semeq = _W['sympy'], _W['pm'], _W['semeq']
    method, lloq, pre, blq_first = spec
    if pre == 'proportional':
        m = pm.set_proportional_error_model(m)
    elif pre == 'combined':
        m = pm.set_combined_error_model(m)
    if blq_first:
        mb = pm.set_power_on_ruv(pm.transform_blq(m, method=method, lloq=lloq))
    else:
        mb = pm.transform_blq(pm.set_power_on_ruv(m), method=method, lloq=lloq)
    mp = pm.set_power_on_ruv(m)
    db, dp = semeq.denote(mb.statements), semeq.denote(mp.statements)
    y = sympy.Symbol(str(list(m.dependent_variables)[0]))
    dv = sympy.Symbol(m.datainfo.dv_column.name)
    L = sympy.nsimplify(lloq)
    # the new power thetas correspond by position
    nb, np_ = new_names(m, mb), new_names(m, mp)
    if len(nb) != len(np_):
        rec('blq_power.parameters', 'violated', with_blq=nb, without=np_)
        return
    sub = {sympy.Symbol(a): sympy.Symbol(b) for a, b in zip(nb, np_)}
    v, info = eq.check(db.env[y].xreplace(sub), dp.env[y], extra=[dv >= L])
    rec('blq_power.above_lloq', V(v), **(dict(info, with_blq=str(db.env[y])[:300], without=str(dp.env[y])[:300])
                                         if v != 'equal' else {}))


def case_rates(m, spec, eq, rec):
    sympy, pm, semeq = _W['sympy'], _W['pm'], _W['semeq']
    if spec == 'fo_abs':
        m2 = pm.set_first_order_absorption(m)
        d = semeq.denote(m2.statements)
        depot = m2.statements.ode_system.find_depot(m2.statements)
        ka = None
        for amt, rhs in d.odes.items():
            if str(amt) == f'A_{depot.name}(t)':
                ka = -rhs / amt
        mat = d.ode_env.get(sympy.Symbol('MAT')) if d.ode_env else None
        if ka is None or mat is None:
            rec('rates.ka_is_1_over_mat', 'inconclusive', what='no MAT parameterisation (KA kept)')
        else:
            v, info = eq.check(sympy.simplify(ka), 1 / mat, extra=[mat > 0])
            rec('rates.ka_is_1_over_mat', V(v), **(dict(info, ka=str(ka)[:200], mat=str(mat)[:200]) if v != 'equal' else {}))
    elif spec == 'zo_abs':
        m2 = pm.set_zero_order_absorption(m)
        d = semeq.denote(m2.statements)
        dur = [x.get('duration') for c in d.comp.values() for x in c['doses'] if x['kind'] == 'Infusion']
        mat = d.ode_env.get(sympy.Symbol('MAT')) if d.ode_env else None
        if not dur or dur[0] is None or mat is None:
            rec('rates.d1_is_2_mat', 'inconclusive', what='no infusion duration / MAT')
        else:
            v, info = eq.check(dur[0], 2 * mat)
            rec('rates.d1_is_2_mat', V(v), **(dict(info, duration=str(dur[0])[:200]) if v != 'equal' else {}))
    elif spec.startswith('transits'):
        seq = [int(x) for x in spec[len('transits'):].split('>')]
        n = seq[-1]
        m2 = m
        for k_ in seq:
            m2 = pm.set_transit_compartments(m2, k_)
        d = semeq.denote(m2.statements)
        mdt = d.ode_env.get(sympy.Symbol('MDT')) if d.ode_env else None
        if mdt is None:
            rec('rates.transit_rate', 'inconclusive', what='no MDT')
            return
        ok = True
        which = None   # the same convention (n or n+1 over MDT) for every transit compartment of one model
        count = 0
        for amt, rhs in d.odes.items():
            if str(amt).startswith('A_TRANSIT'):
                count += 1
                k = sympy.simplify(-rhs.coeff(amt))
                # documented: mean transit time MDT over the n transit compartments (+ depot): each rate is n/MDT
                # (or (n+1)/MDT when the depot counts)
                v1, _ = eq.check(k, (n + 1) / mdt, extra=[mdt > 0])
                v2, info = eq.check(k, n / mdt, extra=[mdt > 0])
                this = 'n+1' if v1 == 'equal' else ('n' if v2 == 'equal' else None)
                if this is None or (which is not None and this != which):
                    rec('rates.transit_rate', V(v2) if this is None else 'violated',
                        **dict(info, rate=str(k)[:200], n=n, compartment=str(amt), convention_so_far=which))
                    ok = False
                    break
                which = this
        if ok and count != n:
            rec('rates.transit_rate', 'violated', what=f'{count} transit compartments, {n} requested')
        elif ok:
            rec('rates.transit_rate', 'discharged')


def case_covariate_tv(m, spec, eq, rec):
    """a categorical covariate that varies WITHIN individuals: a few individuals move to a category that no individual
    has on its first record; that category is present in the data and must get its documented effect like any other"""
    param, cov, effect, op = spec
    df = m.dataset.copy()
    idcol = m.datainfo.id_column.name
    newcat = float(df[cov].max()) + 1
    ids = list(df[idcol].unique())[:6]
    for i in ids:
        rows = df.index[df[idcol] == i]
        if len(rows) > 1:
            df.loc[rows[len(rows) // 2:], cov] = newcat
    m = m.replace(dataset=df)
    if newcat not in set(m.dataset[cov].unique()):
        raise ValueError('could not create a within-individual category')
    case_covariate(m, (param, cov, effect, op), eq, rec)


def case_covariate_sibling(m, spec, eq, rec, start=None):
    """Two control streams that share one data file (same datainfo.path) but not the same records - the second has an
    additional IGNORE filter on the covariate - get the covariate effect one after the other in one process: each
    must be centred on ITS OWN data.  `order` says which of (full, filtered) goes first; the second one is checked."""
    import re
    import tempfile
    pm, corpus = _W['pm'], _W['corpus']
    param, cov, effect, op, order = spec
    path = os.path.join(corpus.TESTDATA, start)
    text = corpus.load_text(path)
    mo = re.search(r"(?im)^\$DATA\s+('?)([^\s']+)\1([^\n]*)$", text)
    if not mo:
        raise ValueError('no simple $DATA record')
    datafile = os.path.join(os.path.dirname(path), mo.group(2))
    cut = centre(m, cov, 'median')
    full_text = text[:mo.start()] + f"$DATA {datafile}{mo.group(3)}" + text[mo.end():]
    filt_text = text[:mo.start()] + f"$DATA {datafile}{mo.group(3)} IGNORE=({cov}.LT.{cut:g})" + text[mo.end():]
    with tempfile.TemporaryDirectory() as d:
        pf, ps = os.path.join(d, 'full.mod'), os.path.join(d, 'filtered.mod')
        with open(pf, 'w') as f:
            f.write(full_text)
        with open(ps, 'w') as f:
            f.write(filt_text)
        full, sub = corpus.load(pf), corpus.load(ps)
        if len(sub.dataset) in (0, len(full.dataset)):
            raise ValueError('the filter does not split the data')
        first, second = (full, sub) if order == 'full_first' else (sub, full)
        if centre(first, cov, 'median') == centre(second, cov, 'median'):
            raise ValueError('both datasets have the same centre')
        pm.add_covariate_effect(first, param, cov, effect, op)      # result discarded: only its traces could matter
        case_covariate(second, (param, cov, effect, op), eq, rec)


KINDS = dict(covariate=case_covariate, covariate_sibling=case_covariate_sibling, covariate_tv=case_covariate_tv,
             eta_transform_formula=case_eta_transform_formula, iiv=case_iiv, eta_transform=case_eta_transform, allometry=case_allometry,
             error=case_error, rates=case_rates, iiv_existing=case_iiv_existing,
             iov=case_iov, iov_partial=case_iov_partial, ruv_iiv=case_ruv_iiv, time_varying=case_time_varying, blq=case_blq,
             blq_power=case_blq_power)


def run_case(case):
    if not _W:
        _init()
    start, kind, spec = case
    corpus = _W['corpus']
    eq = _W['sym2smt'].Equiv(timeout_ms=15000)
    out = dict(case=case, results=[], status='ok', queries=0, solver_s=0.0, stats={})
    res = []

    def rec(ob, verdict, **d):
        res.append((ob, verdict, d or None))
    try:
        m = corpus.load(os.path.join(corpus.TESTDATA, start))
        if kind == 'covariate_sibling':
            case_covariate_sibling(m, spec, eq, rec, start=start)
        else:
            KINDS[kind](m, spec, eq, rec)
    except REFUSALS as e:
        out['status'] = f'refused: {type(e).__name__}: {e}'[:160]
    except Exception as e:  # noqa
        out['status'] = f'raised: {type(e).__name__}: {e}'[:200]
        out['tb'] = traceback.format_exc()[-500:]
    out.update(results=res, queries=eq.queries, solver_s=eq.solver_s, stats=eq.stats)
    return out


def all_cases(thorough):
    _init()
    pm, corpus = _W['pm'], _W['corpus']
    cases = []
    for start in START if thorough else START[:2]:
        try:
            m = corpus.load(os.path.join(corpus.TESTDATA, start))
        except Exception:  # noqa
            continue
        params = [str(p) for p in pm.get_individual_parameters(m)]
        cont = [c for c in ('WGT', 'WT', 'AGE', 'CLCR') if c in m.datainfo.names and not m.datainfo[c].drop][:2]
        cat = [c for c in ('FA1', 'SEX', 'DGRP', 'APGR') if c in m.datainfo.names and not m.datainfo[c].drop][:2]
        for p in params[: (3 if thorough else 2)]:
            for c in cont:
                for eff in ('lin', 'exp', 'pow', 'piece_lin'):
                    for op in ('*', '+'):
                        cases.append((start, 'covariate', (p, c, eff, op)))
            for c in cat:
                for eff in ('cat', 'cat2'):
                    cases.append((start, 'covariate', (p, c, eff, '*')))
                    cases.append((start, 'covariate_tv', (p, c, eff, '*')))
        for c in cont[:1]:
            for eff in ('lin', 'exp', 'pow', 'piece_lin') if thorough else ('exp', 'pow'):
                for order in ('full_first', 'subset_first'):
                    cases.append((start, 'covariate_sibling', (params[-1] if 'pheno' in start else params[0], c, eff,
                                                               '*', order)))
        noeta = [p for p in params]
        for p in noeta[:3]:
            for form in ('add', 'prop', 'exp', 'log'):
                cases.append((start, 'iiv', (p, form)))
        for t in ('boxcox', 'tdist', 'john_draper'):
            cases.append((start, 'eta_transform', t))
            for mode in ('one_call', 'one_by_one', 'reverse'):
                cases.append((start, 'eta_transform_formula', (t, mode)))
        for n in m.random_variables.iiv.names[: (4 if thorough else 2)]:
            cases.append((start, 'iiv_existing', n))
        for c in cont[:1]:
            cases.append((start, 'allometry', (c, 70)))
        for e in ('additive', 'proportional', 'combined', 'power'):
            cases.append((start, 'error', e))
        for pre in ('additive', 'additive+ruviiv', 'proportional+ruviiv', 'combined', 'combined+ruviiv'):
            for e in ('additive', 'proportional', 'combined'):
                cases.append((start, 'error', f'{pre}>{e}'))
        for r in ('fo_abs', 'zo_abs', 'transits1', 'transits3', 'transits3>5', 'transits5>2', 'transits2>4', 'transits3>1',
                  'transits3>5>2>1'):
            cases.append((start, 'rates', r))
        occ = [c for c in ('FA1', 'VISI', 'OCC') if c in m.datainfo.names and not m.datainfo[c].drop][:1]
        for o in occ:
            etas = set(m.random_variables.etas.names)
            with_eta = [p for p in params if {str(x) for x in m.statements.before_odes.full_expression(p).free_symbols} & etas]
            for p in with_eta[: (2 if thorough else 1)]:
                for dist in (('disjoint', 'joint') if thorough else ('disjoint',)):
                    cases.append((start, 'iov', (o, p, dist)))
            if len(with_eta) >= 2:
                for dist in ('disjoint', 'joint'):
                    cases.append((start, 'iov_partial', (o, with_eta[0], with_eta[1], dist)))
        cases.append((start, 'ruv_iiv', None))
        cases.append((start, 'time_varying', 1.5))
        for meth in ('m3', 'm4'):
            cases.append((start, 'blq', (meth, 0.1)))
            for pre in ('asis', 'proportional', 'combined'):
                for blq_first in (True, False):
                    cases.append((start, 'blq_power', (meth, 0.1, pre, blq_first)))
    return cases


def replay(path):
    with open(path) as f:
        d = json.load(f)

    def tup(x):
        return tuple(tup(i) for i in x) if isinstance(x, list) else x
    res = run_case(tup(d['replay']['case']))
    bad = [(o, dd) for o, v, dd in res['results'] if v == 'violated']
    print(json.dumps(dict(case=str(res['case']), status=res['status'], violated=bad), default=str, indent=1))
    return 1 if bad else 0


def main():
    if '--replay' in sys.argv:
        sys.exit(replay(sys.argv[sys.argv.index('--replay') + 1]))
    run = Run('C09', 'translation_validation')
    thorough = run.tier == 'thorough'
    cases = all_cases(thorough)
    nproc = int(os.environ.get('VERIF_JOBS', 0)) or min(16, os.cpu_count() or 4)
    stats = dict(unsat=0, sat_confirmed=0, sat_unreplayable=0, unknown=0, unsupported=0)
    status, counts = {}, {}
    viol = []
    nq, solver_s, done, compared = 0, 0.0, 0, 0
    with mp.Pool(nproc, initializer=_init) as pool:
        for res in pool.imap_unordered(run_case, cases, chunksize=1):
            done += 1
            st = res['status'].split(':')[0]
            status[st] = status.get(st, 0) + 1
            if st == 'raised' and len(run.obligations) < 40:
                run.add(f'raised @ {res["case"]}', 'inconclusive', 0, dict(status=res['status'], tb=res.get('tb')))
            if res['results']:
                compared += 1
            nq += res['queries']
            solver_s += res['solver_s']
            for k, v in res['stats'].items():
                stats[k] += v
            for ob, verdict, detail in res['results']:
                fam = ob.split('[')[0]
                counts[(fam, verdict)] = counts.get((fam, verdict), 0) + 1
                if verdict == 'violated':
                    viol.append((res['case'], ob, detail))
                elif verdict == 'inconclusive' and len(run.obligations) < 40:
                    run.add(f'{ob} @ {res["case"]}', 'inconclusive', 0, detail)
            if done % 9 == 0:
                run.sample(dict(case=str(res['case']), checks=[(o, v) for o, v, _ in res['results']]))
    for (fam, verdict), c in sorted(counts.items()):
        if verdict == 'discharged':
            run.add(fam, 'discharged', 0, dict(cases=c))
    reported = set()
    for case, ob, detail in sorted(viol, key=lambda x: str(x[0])):
        key = f'{case[0]} :: {case[1]} :: {case[2]} :: {ob}'
        e = run.match_known(key)
        if e is not None:
            if e['id'] not in [k for k, _ in run.known_hits]:
                run.known_hits.append((e['id'], e['what']))
            continue
        cls = (case[1], ob.split('[')[0], str(case[2])[:30])
        if cls in reported:
            continue
        reported.add(cls)
        v = run.report_violation(f'{case[1]}:{ob}', key, dict(kind='C09', case=case),
                                 f'{case}: {ob}: ' + json.dumps(detail, default=str)[:700])
        run.add(f'{ob} @ {case}', v, 0, detail)
    run.functions = ['add_covariate_effect', 'remove_covariate_effect', 'add_iiv', 'remove_iiv', 'transform_etas_boxcox',
                     'transform_etas_tdist', 'transform_etas_john_draper', 'add_allometry', 'set_additive_error_model',
                     'set_proportional_error_model', 'set_combined_error_model', 'set_power_on_ruv',
                     'set_first_order_absorption', 'set_zero_order_absorption', 'set_transit_compartments']
    run.bounds = dict(start_models=START if thorough else START[:2],
                      grid='2-3 individual parameters x continuous covariates x {lin,exp,pow,piece_lin} x {*,+}; one '
                           'categorical covariate x {cat,cat2}; IIV forms add/prop/exp/log; 3 eta transformations; '
                           'allometry at reference 70; 4 error models; absorption / transit rate definitions',
                      outside='IOV, time-varying / dtbs / weighted error models, BLQ handling, custom covariate effects')
    run.assumptions = ['effect templates are written from the docstrings of add_covariate_effect / add_iiv; the centring '
                       'statistic is recomputed by the harness from the individual baselines of the dataset',
                       'exp/log/pow uninterpreted with sound axioms; sat models replayed numerically',
                       'reference interpretation of statements: lib/semeq.py']
    run.extra['explanation'] = 'documented formulas vs real extension functions, decided by z3'
    run.finish(coverage=dict(programs=compared, disagreements_checked=stats['sat_confirmed'], queries=nq,
                             solver_stats=stats, case_status=status, exhaustive=True,
                             evaluations=max(1, done), distinct_nontrivial=max(2, compared),
                             rule='one case = (start model, extension kind, arguments); non-trivial = the extension was '
                                  'applied (not refused)', solver_time_s=round(solver_s, 1)))


if __name__ == '__main__':
    main()
