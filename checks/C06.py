"""C06 (partial) — value objects are immutable values and equal means equal.

CrossHair/z3 symbolic execution of the REAL pharmpy constructors, __eq__/__hash__, copy, replace() of the Expr-free
value classes (harness/C06_values.py, builders and stubs in harness/C06_build.py).  One `crosshair check` process per
obligation; concrete case splits (VH_* environment variables) only pin shapes (collection sizes, which categories
kind, None-pattern of object a), never field values.
"""
import sys

from vcommon import Run
from xhair import Ob, run_obligations, run_probes, replay_file

H = 'C06_values.py'


def obligations(thorough):
    T = 1100 if thorough else 300
    sl_small = 3 if thorough else 2        # classes with <= 2 string fields
    sl = 2 if thorough else 1              # classes with many string fields (uniform length per object)
    base = dict(VH_STRLEN=sl, VH_MAXN=3 if thorough else 2, VH_NU=3 if thorough else 2,
                VH_NK=3 if thorough else 2, VH_CATKINDS='0,1,2,3,4' if thorough else '0,1,3')
    small = dict(base, VH_STRLEN=sl_small)
    obs = []

    def add(name, func, env, kind='prop', t=T):
        obs.append(Ob(name, H, func, t, kind=kind, env=env))

    # validating constructors
    add('param_create', 'param_create', small)
    add('param_create_nan_bound', 'param_create_nan_bound', small)          # finding F3 isolated here
    add('param_replace', 'param_replace', small)
    for via in range(6):
        add(f'params_create_unique[via={via}]', 'params_create_unique',
            dict(base, VH_K=via, VH_NAMELEN=2 if (thorough or via == 0) else 1))
    add('rvs_create_unique', 'rvs_create_unique', dict(base, VH_NAMELEN=2))
    # equality laws
    add('eqhash_Parameter', 'eqhash_Parameter', small)
    add('eq3_Parameter', 'eq3_Parameter', small)
    if thorough:
        add('eqhash_Parameters[n<=3,len<=1]', 'eqhash_Parameters', dict(base, VH_STRLEN=1))
        add('eqhash_Parameters[n<=2,len<=2]', 'eqhash_Parameters', dict(base, VH_MAXN=2))
    else:
        add('eqhash_Parameters', 'eqhash_Parameters', base)
    bases = (0, 1) if thorough else (0,)
    for b in bases:
        for cata in ((0, 1, 2, 3, 4) if thorough else (0, 1, 3)):
            add(f'eqhash_ColumnInfo[base={b},cat_a={cata},desc=same]', 'eqhash_ColumnInfo',
                dict(base, VH_CATA=cata, VH_DESC='same', VH_BASE=b))
        add(f'eqhash_ColumnInfo[base={b},desc=free]', 'eqhash_ColumnInfo',
            dict(base, VH_CATA=0, VH_DESC='free', VH_BASE=b))                # finding F1 isolated here
    for na in (0, 1, 2):
        add(f'eqhash_DataInfo[n_a={na}]', 'eqhash_DataInfo', dict(base, VH_NA=na))
        add(f'eqhash_ExecutionSteps[n_a={na}]', 'eqhash_ExecutionSteps', dict(base, VH_NA=na))
    add('eqhash_VariabilityLevel', 'eqhash_VariabilityLevel', small)
    add('eq3_VariabilityLevel', 'eq3_VariabilityLevel', small)
    add('eqhash_VariabilityHierarchy', 'eqhash_VariabilityHierarchy', base)
    for b in bases:
        for shape in (('0,0', '1,1', '0,1', '1,0') if thorough else ('0,0', '1,1')):
            add(f'eqhash_EstimationStep[base={b},shape_a={shape}]', 'eqhash_EstimationStep',
                dict(base, VH_SHAPE=shape, VH_BASE=b))
        for fl in ('0,0', '0,1', '1,0', '1,1'):
            add(f'eqhash_EstimationStep[base={b},none_a={fl}]', 'eqhash_EstimationStep',
                dict(base, VH_NONES=1, VH_AFLAGS=fl, VH_BASE=b))
        add(f'eqhash_EstimationStep[base={b},tool_options=2]', 'eqhash_EstimationStep',
            dict(base, VH_NOPT=2, VH_SHAPE='0,2', VH_BASE=b))               # finding F2 isolated here
    add('eqhash_SimulationStep', 'eqhash_SimulationStep', small)
    add('eqhash_frozenmapping_replace', 'eqhash_frozenmapping_replace', small)
    # immutability / replace
    for c in ('Parameter', 'Parameters', 'ColumnInfo', 'DataInfo', 'VariabilityLevel', 'VariabilityHierarchy',
              'EstimationStep', 'SimulationStep', 'ExecutionSteps'):
        add(f'imm_{c}', f'imm_{c}', small if c in ('Parameter', 'VariabilityLevel', 'SimulationStep') else base)
    # reachability twins (one per harness function)
    funcs = []
    for o in obs:
        if o.func not in funcs:
            funcs.append(o.func)
    for f in funcs:
        env = dict(base, VH_CATA=1, VH_K=0, VH_NAMELEN=1)
        add(f'{f}__twin', f'{f}__twin', env, kind='twin', t=120)
    # longest first
    heavy = ('eqhash_EstimationStep', 'params_create_unique', 'eqhash_Parameters', 'eqhash_ColumnInfo',
             'eqhash_ExecutionSteps')
    obs.sort(key=lambda o: (o.kind == 'twin', 0 if o.func in heavy else 1))
    return obs, base


def main():
    if '--replay' in sys.argv:
        sys.exit(replay_file(sys.argv[sys.argv.index('--replay') + 1]))
    run = Run('C06', 'other')
    thorough = run.tier == 'thorough'
    obs, base = obligations(thorough)
    run.functions = [
        'Parameter.create', 'Parameter.replace', 'Parameter.__eq__', 'Parameter.__hash__', 'Parameters.create',
        'Parameters.replace', 'Parameters.__add__', 'Parameters.__radd__', 'Parameters.__eq__',
        'Parameters.__hash__', 'RandomVariables.create (uniqueness loop only)', 'ColumnInfo.create',
        'ColumnInfo.replace', 'ColumnInfo.__eq__', 'ColumnInfo.__hash__', 'DataInfo.create', 'DataInfo.replace',
        'DataInfo.__eq__', 'DataInfo.__hash__', 'VariabilityLevel.create/replace/__eq__/__hash__',
        'VariabilityHierarchy.create/replace/__eq__/__hash__', 'EstimationStep.create/replace/__eq__/__hash__',
        'ExecutionStep.__eq__/__hash__', 'SimulationStep.create/replace/__eq__/__hash__',
        'ExecutionSteps.create/replace/__eq__/__hash__', 'frozenmapping.__init__/__hash__/__eq__/replace',
        'Immutable.__copy__/__deepcopy__', 'internals.immutable.cache_method']
    run.bounds = dict(
        floats='all IEEE-754 binary64 values incl. NaN, +-inf, -0.0 (z3 floating-point theory) for Parameter '
               'init/lower/upper; main obligations assume bounds are not NaN (NaN bounds: param_create_nan_bound)',
        strings=f'free strings: len <= {3 if thorough else 2} (Parameter, VariabilityLevel, SimulationStep), any '
                f'characters; classes with many string fields: all free strings of one object share one symbolic '
                f'length 0..{base["VH_STRLEN"]} (independent between the two objects)',
        collections=f'Parameters/VariabilityHierarchy <= {base["VH_MAXN"]} elements, DataInfo/ExecutionSteps <= 2, '
                    f'name lists for uniqueness <= {base["VH_MAXN"] + 1} names of length <= 2 over {{a,b}} '
                    f'(length <= 1 for the +/radd/replace routes in quick)',
        options='enumerated option fields (ColumnInfo type/unit/scale/datatype/descriptor, EstimationStep '
                'method/parameter_uncertainty_method/solver) take concrete valid values; the two objects differ in '
                'at most one of them (symbolic choice); Optional fields of EstimationStep are None per group '
                '(ints+auto / strings), tuple fields and tool_options have <= 1 entry (2 in the isolated finding case); '
                'dict keys come from a 2-3 entry table; units from a 2-3 entry table; Path is None or one fixed path',
        pairs='equality laws: all pairs (a, b) of objects within the bounds, both built from independent symbolic '
              'field values; reflexive, symmetric, != consistent, a == b => hash equal, copy/deepcopy equal; '
              'transitivity for Parameter and VariabilityLevel only',
        reachability='a failing pair counts only if create() reproduces exactly the fields of both objects',
        outside='the clause "no public function of the modeling/tools/workflow API mutates its argument", in particular '
                'DataFrame contents (~250 functions through pandas/symengine: not reachable symbolically); '
                'well-formedness of statements (_canonicalize_statements) and of generated code; uniqueness of DataInfo '
                'column names (DataInfo.create has no such check and the property anchors name only '
                'Parameters/RandomVariables); Expr-bearing classes (Assignment, Compartment, distributions, Model); '
                'transitivity for the collection classes; mutation through private attributes (obj._x = ...)')
    run.assumptions = [
        'structural model of the builtin hash inside pharmpy modules (hash(t) == hash(u) iff t == u elementwise; '
        'contract used: x == y => hash(x) == hash(y) for builtin str/int/bool/float(non-NaN)/None/tuple); a failing '
        'law is re-decided with the builtin hash on the realised objects outside the tracer before it is reported; a '
        'path on which only a builtin hash collision hides the failure is not reported',
        'Unit values (sympy expressions, taken from a concrete table) are leaves of the structural hash: sympy\'s own '
        '__eq__/__hash__ consistency is trusted',
        'np.isnan(x) := x != x inside pharmpy.model.parameters',
        'float(x) inside Parameter.create returns a wrapper with the comparisons of x and a constant __format__ (the '
        'f-string of the ValueError message would realise x); only in param_create/param_replace and the filter',
        'Unit(...)/Unit.deserialize inside pharmpy.model.datainfo are looked up in a table computed by the real Unit '
        'code at import (sympy substitution is too slow under the tracer)',
        'FakeDist: a Distribution subclass carrying only names, for RandomVariables.create (real distributions need '
        'symengine symbols)',
        'CrossHair float model forced to the exact IEEE-754 representation (PreciseIeeeSymbolicFloat); the default '
        'real-number approximation is never "confirmed" by CrossHair',
        'objects for the equality laws are built with the plain constructors (superset of create()); unreachable '
        'objects are filtered on failing paths by re-running create()',
    ]
    run_obligations(run, obs)
    # concrete companion (sampling, not a solver verdict; the immutability clause itself is not claimed): every
    # pharmpy.modeling function that takes a model and needs no further argument (or has an entry in the harness's
    # argument table) is called on three start models and a deep snapshot of the INPUT model must be unchanged
    run_probes(run, [(Ob('no_mutation', 'C06_frame.py', 'no_mutation', env={}), 'no_mutation(8)'),
                     (Ob('results_wellformed', 'C06_frame.py', 'results_wellformed', env={}), 'results_wellformed(8)'),
                     (Ob('results_wellformed_known', 'C06_frame.py', 'results_wellformed', env={}),
                      'results_wellformed(1, known_only=True)'),
                     (Ob('replace_validates', 'C06_frame.py', 'replace_validates', env={}), 'replace_validates()'),
                     (Ob('replace_validates_omitted', 'C06_frame.py', 'replace_validates', env={}),
                      'replace_validates(omitted=True)')])
    for o in obs[:12]:
        run.sample(dict(obligation=o.name, harness=o.file, func=o.func, env=o.env))
    run.finish(coverage=dict(explanation=(
        'Each obligation is a PEP316 contract (post: _ == True) on a harness function that builds the value objects '
        'from symbolic field values and calls the real pharmpy code; CrossHair enumerates the paths and z3 decides '
        'each branch, "Confirmed over all paths" = the obligation holds for every input within the stated bounds. '
        'Validity: Parameter.create/replace return lower <= init <= upper, init not NaN, or raise ValueError, for '
        'every float triple (NaN bounds excluded and checked separately); Parameters.create/+/replace and '
        'RandomVariables.create return unique names or raise ValueError. Equality: reflexive, symmetric, consistent '
        'with !=, with hash and with copy/deepcopy for every pair of objects of the nine classes; transitive for '
        'Parameter and VariabilityLevel. Immutability: assigning any public property raises AttributeError and '
        'replace() (returning or raising) leaves every field of the original the identical object (or an equal value) '
        'and returns an object of the class. Every obligation has a reachability twin that CrossHair must refute with a reachable, equal pair. '
        'Counterexamples are replayed concretely in a fresh interpreter with the builtin hash before they are reported.'),
        checker_cmd='crosshair check --report_all --per_condition_timeout T harness/C06_values.py:LINE'))


if __name__ == '__main__':
    main()
