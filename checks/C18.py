"""C18 — search spaces parsed, combined, enumerated exactly (E1: CrossHair over the real mfl / set / search-builder code).

Four groups of obligations (harness/C18_*.py):
  a  ModelFeatures + - == contain_subset least_number_of_transformations  vs  plain set operations on expanded options
  b  partitions / subsets / non_empty_subsets / non_empty_proper_subsets over symbolic distinct elements
  c  modelsearch exhaustive / exhaustive_stepwise / reduced_stepwise / _is_allowed and the iivsearch brute-force builders:
     candidates read off the built workflows for every subset of a universe of feature keys
  d  stringify o parse round trip, statement and whole-space level (object side symbolic, parse concrete per path)
Regions in which the unchanged pharmpy deviates are split off into `finding_<slug>` obligations (exact complements of
the exclusions of the main obligations) so that they go through known_findings.json and never hide another violation.
"""
import itertools
import os
import re
import sys

from vcommon import Run
from xhair import Ob, replay_file, run_obligations, run_probes

MFL, RT, SETS, SEARCH = 'C18_mfl.py', 'C18_roundtrip.py', 'C18_sets.py', 'C18_search.py'


def build(thorough):
    size = 'thorough' if thorough else 'quick'
    T = 1200 if thorough else 200
    obs = []

    def ob(name, file, func, env, timeout=T, kind='prop'):
        obs.append(Ob(name, file, func, timeout, kind=kind, env=dict(env, VH_SIZE=size)))

    # ---- a: algebra --------------------------------------------------------------------------------------------------
    for cat in ('absorption', 'elimination', 'lagtime', 'direct_effect', 'effect_comp', 'metabolite'):
        ob(f'alg_modes[{cat}]', MFL, 'alg_modes', dict(VH_FAM='modes', VH_CAT=cat))
    maxc = 2 if thorough else 1
    nk = 2 ** (maxc + 1) - 1          # first count list pinned per process in the thorough tier
    for fam, func in (('transits', 'alg_transits'), ('periph', 'alg_periph')):
        for swap in (0, 1):
            for k1 in range(nk):
                env = dict(VH_FAM=fam, VH_MAXC=maxc, VH_NST=2, VH_SWAP=swap)
                env.update(VH_P1LO=k1, VH_P1HI=k1 + 1)
                ob(f'{func}[maxcount={maxc},swap={swap},k1={k1}]', MFL, func, env)
    ncov = (3 * 3 * 4 * 2 * 2) if thorough else (3 * 2 * 3 * 2 * 2)
    chunk = 6 if thorough else 12
    for lo in range(0, ncov, chunk):
        for swap in ((0, 1) if thorough else (0,)):
            ob(f'alg_cov[s1={lo}..{lo + chunk - 1},swap={swap}]', MFL, 'alg_cov',
               dict(VH_FAM='cov', VH_NST=2 if thorough else 1, VH_S1LO=lo, VH_S1HI=lo + chunk, VH_SWAP=swap),
               timeout=min(T, 400))
    if thorough:
        for x in range(15):
            ob(f'alg_pair[x={x}]', MFL, 'alg_pair', dict(VH_FAM='pair', VH_MAXC=1, VH_P1LO=x, VH_P1HI=x + 1))
    else:
        for lo, hi in ((0, 2), (2, 4), (4, 7)):
            ob(f'alg_pair[x={lo}..{hi - 1}]', MFL, 'alg_pair', dict(VH_FAM='pair', VH_MAXC=1, VH_P1LO=lo, VH_P1HI=hi))
    for swap in ((0, 1) if thorough else (0,)):
        ob(f'alg_indirect[swap={swap}]', MFL, 'alg_indirect', dict(VH_FAM='indirect', VH_NST=2 if thorough else 1,
                                                                 VH_SWAP=swap))
    # finding regions (complements of the exclusions above)
    for cat in ('absorption', 'elimination', 'lagtime', 'metabolite'):
        ob(f'finding_wildcard_sub_eq[{cat}]', MFL, 'alg_modes', dict(VH_FAM='modes', VH_CAT=cat,
                                                                     VH_REGION='wildcard_sub_eq'))
    ob('finding_eq_ignores_metabolite', MFL, 'alg_modes', dict(VH_FAM='modes', VH_CAT='metabolite',
                                                              VH_REGION='eq_ignores_metabolite'))
    for cat in ('direct_effect', 'effect_comp', 'metabolite'):
        ob(f'finding_pd_sub_empty[{cat}]', MFL, 'alg_modes', dict(VH_FAM='modes', VH_CAT=cat, VH_REGION='pd_sub_empty'))
    ob('finding_contain_transits_cross', MFL, 'alg_transits', dict(VH_FAM='transits', VH_MAXC=1, VH_NST=2,
                                                                  VH_REGION='contain_transits_cross'))
    ob('finding_periph_wildcard', MFL, 'alg_periph', dict(VH_FAM='periph', VH_MAXC=1, VH_NST=2,
                                                         VH_REGION='periph_wildcard'))
    ob('finding_eq_statement_shape[peripherals]', MFL, 'alg_periph', dict(VH_FAM='periph', VH_MAXC=1, VH_NST=2,
                                                                         VH_REGION='eq_statement_shape'))
    ob('finding_eq_statement_shape[indirect_effect]', MFL, 'alg_indirect', dict(VH_FAM='indirect', VH_NST=1,
                                                                               VH_REGION='eq_statement_shape'))
    ob('finding_lnt_indirect_keyerror', MFL, 'alg_indirect', dict(VH_FAM='indirect', VH_NST=1,
                                                                 VH_REGION='lnt_indirect_keyerror'))
    ob('finding_eq_cov_one_directional', MFL, 'alg_cov', dict(VH_FAM='cov', VH_NST=1, VH_REGION='eq_cov_one_directional'))

    # ---- b: partitions / subsets ---------------------------------------------------------------------------------------
    nmax = 5 if thorough else 4
    for n in range(nmax + 1):
        if n == 5:
            for perm in itertools.permutations(range(5)):
                ob(f'partitions[n=5,order={"".join(map(str, perm))}]', SETS, 'parts_ok',
                   dict(VH_N=5, VH_ORDER=','.join(map(str, perm))), timeout=300)
        else:
            ob(f'partitions[n={n}]', SETS, 'parts_ok', dict(VH_N=n))
        ob(f'subsets[n={n}]', SETS, 'subsets_ok', dict(VH_N=n))
        ob(f'non_empty_subsets[n={n}]', SETS, 'nonempty_ok', dict(VH_N=n))

    # ---- c: search builders ----------------------------------------------------------------------------------------------
    uni = 'u8' if thorough else 'u6'
    for algo in ('exhaustive', 'exhaustive_stepwise', 'reduced_stepwise'):
        ob(f'modelsearch.{algo}[{uni}]', SEARCH, 'search_ok', dict(VH_ALGO=algo, VH_UNIVERSE=uni))
    for algo in ('exhaustive', 'exhaustive_stepwise', 'reduced_stepwise'):
        ob(f'modelsearch.{algo}[off6]', SEARCH, 'search_ok', dict(VH_ALGO=algo, VH_UNIVERSE='off6'))
    for lo in range(0, 729, 243):
        ob(f'modelsearch._is_allowed[off6,t={lo}..{lo + 242}]', SEARCH, 'allowed_ok',
           dict(VH_UNIVERSE='off6', VH_TLO=lo, VH_THI=lo + 243))
    for lo in range(0, 729, 243):
        ob(f'modelsearch._is_allowed[u6,t={lo}..{lo + 242}]', SEARCH, 'allowed_ok',
           dict(VH_UNIVERSE='u6', VH_TLO=lo, VH_THI=lo + 243))
    if thorough:
        for b in range(7):
            ob(f'iivsearch.td_exhaustive_no_of_etas[base={b}]', SEARCH, 'iiv_ok',
               dict(VH_ALGO='no_of_etas', VH_BLO=b, VH_BHI=b + 1))
    else:
        for b in range(7):
            ob(f'iivsearch.td_exhaustive_no_of_etas[base={b}]', SEARCH, 'iiv_ok',
               dict(VH_ALGO='no_of_etas', VH_NKEEP=5, VH_NOFF=2, VH_BLO=b, VH_BHI=b + 1))
    ob('iivsearch.td_exhaustive_block_structure', SEARCH, 'iiv_ok', dict(VH_ALGO='block_structure', VH_NKEEP=1))
    for algo in ('exhaustive_stepwise', 'reduced_stepwise'):
        ob(f'finding_stepwise_peripheral_skip[{algo}]', SEARCH, 'search_ok',
           dict(VH_ALGO=algo, VH_UNIVERSE='p3', VH_REGION='stepwise_peripheral_skip'))
    ob('finding_reduced_single_group', SEARCH, 'search_ok', dict(VH_ALGO='reduced_stepwise', VH_UNIVERSE='u6',
                                                                VH_REGION='reduced_single_group'))

    # ---- d: round trip -----------------------------------------------------------------------------------------------------
    for kind in ('modes', 'transits', 'peripherals', 'indirect', 'covariate', 'let'):
        ob(f'roundtrip_statement[{kind}]', RT, 'rt_statement', dict(VH_KIND=kind))
    if thorough:
        for a in range(5):
            ob(f'roundtrip_space[absorption={a}]', RT, 'rt_space', dict(VH_ALO=a, VH_AHI=a + 1))
    else:
        ob('roundtrip_space', RT, 'rt_space', {})
    ob('roundtrip_of_algebra_result', 'C18_algprint.py', 'rt_algebra', {})
    ob('let_references_resolved', 'C18_let.py', 'let_refs', {})
    ob('finding_allometry_roundtrip', RT, 'rt_statement', dict(VH_KIND='allometry', VH_REGION='allometry_roundtrip'))
    ob('finding_cov_wildcard_parse', RT, 'rt_statement', dict(VH_KIND='covariate', VH_REGION='cov_wildcard_parse'))

    # ---- reachability twins (one per harness function, cheap: CrossHair stops at the first witness) -----------------------
    tw = [('alg_modes', MFL, dict(VH_FAM='modes', VH_CAT='absorption')),
          ('alg_transits', MFL, dict(VH_FAM='transits', VH_MAXC=1)), ('alg_periph', MFL, dict(VH_FAM='periph', VH_MAXC=1)),
          ('alg_cov', MFL, dict(VH_FAM='cov', VH_NST=1)), ('alg_pair', MFL, dict(VH_FAM='pair', VH_MAXC=1)),
          ('alg_indirect', MFL, dict(VH_FAM='indirect', VH_NST=1)),
          ('parts_ok', SETS, dict(VH_N=3)), ('subsets_ok', SETS, dict(VH_N=3)), ('nonempty_ok', SETS, dict(VH_N=3)),
          ('search_ok', SEARCH, dict(VH_ALGO='reduced_stepwise', VH_UNIVERSE='u6')),
          ('allowed_ok', SEARCH, dict(VH_UNIVERSE='u6')), ('iiv_ok', SEARCH, dict(VH_ALGO='block_structure', VH_NKEEP=1)),
          ('rt_statement', RT, dict(VH_KIND='covariate')), ('rt_space', RT, {}), ('rt_algebra', 'C18_algprint.py', {}),
          ('let_refs', 'C18_let.py', {})]
    for func, file, env in tw:
        ob(f'{func}__twin', file, func + '__twin', env, timeout=120, kind='twin')
    # longest first
    heavy = ('alg_cov', 'alg_transits', 'alg_periph', 'iivsearch.td_exhaustive_no', 'alg_pair', 'modelsearch._is_allowed',
             'roundtrip_space', 'partitions[n=4]', 'subsets[n=5]')
    obs.sort(key=lambda o: (o.kind == 'twin', 0 if o.name.startswith(heavy) else 1))
    return obs


def main():
    if '--replay' in sys.argv:
        sys.exit(replay_file(sys.argv[sys.argv.index('--replay') + 1]))
    run = Run('C18', 'other')
    thorough = run.tier == 'thorough'
    obs = build(thorough)
    only = os.environ.get('VERIF_ONLY')          # developer aid: run only the obligations whose name matches
    if only:
        obs = [o for o in obs if re.search(only, o.name)]
    run.functions = [
        'tools.mfl.parse.ModelFeatures.__add__/__sub__/__eq__/contain_subset/least_number_of_transformations/create/'
        'convert_to_funcs/mfl_statement_list/__repr__',
        'tools.mfl.statement.feature.{absorption,elimination,lagtime,transits,peripherals,covariate,direct_effect,'
        'effect_comp,indirect_effect,metabolite}: __add__/__sub__/__eq__/eval',
        'tools.mfl.parse.parse/_parse/validate_mfl_list + MFLInterpreter + grammar (lark, concrete per path)',
        'tools.mfl.stringify.stringify', 'tools.mfl.helpers.all_combinations/funcs/all_funcs/key_to_str',
        'internals.set.partitions.partitions', 'internals.set.subsets.subsets/non_empty_subsets/non_empty_proper_subsets',
        'tools.modelsearch.algorithms.exhaustive/exhaustive_stepwise/reduced_stepwise/_is_allowed/'
        '_is_allowed_peripheral/_get_possible_actions/_get_previous_features/_find_same_model_groups',
        'tools.iivsearch.algorithms.td_exhaustive_no_of_etas/td_exhaustive_block_structure/_rv_block_structures/'
        '_is_rv_block_structure/_get_fixed_etas/_get_eta_from_parameter',
    ]
    run.bounds = dict(
        algebra=dict(
            mode_lists='every non-empty option list (canonical order) and `*` of ABSORPTION, ELIMINATION, LAGTIME, '
                       'DIRECTEFFECT, EFFECTCOMP, METABOLITE on both sides (all pairs)',
            transits_peripherals=f'lhs 1-2 statements, rhs 1 statement (and swapped), counts = non-empty subsets of '
                                 f'0..{2 if thorough else 1}, depot in DEPOT/NODEPOT/both/*, peripheral mode DRUG/MET/both',
            covariates=('lhs 1-2 statements, rhs 1 statement (and swapped)' if thorough else 'one statement per side') +
                       '; parameter lists over CL,V; covariate lists over WGT,AGE; effect lists over EXP,LIN and `*`; '
                       'operator * or +; forced and optional (?)' + ('' if thorough else ' (quick: 2 covariate lists, '
                                                                     '2 effect lists + `*`)'),
            two_category_product='absorption list x DRUG peripheral counts (x elimination on one side), ' +
                                 ('all options' if thorough else 'options FO/ZO/INST x FO/ZO, counts 0..1'),
            indirect_effect='mode lists incl. `*` x production incl. `*`, ' + ('lhs 1-2 statements' if thorough else
                                                                              'one statement per side'),
            operations='+, -, ==, contain_subset(tool None/modelsearch), least_number_of_transformations(tool None)'),
        sets=dict(n_max=5 if thorough else 4, elements='symbolic pairwise distinct ints (any values)',
                  subsets_min_max='0 <= min <= n+1, -n-2 <= max <= n+1 (symbolic)'),
        search=dict(universe='every subset of ' + ('8 keys ABSORPTION ZO/SEQ-ZO-FO, ELIMINATION MM, PERIPHERALS 1/2, '
                                                   'LAGTIME ON, TRANSITS 1/3 (DEPOT)' if thorough else
                                                   '6 keys ABSORPTION ZO/SEQ-ZO-FO, PERIPHERALS 1/2, LAGTIME ON, '
                                                   'TRANSITS 1 (DEPOT)'),
                    iiv_strategy='no_add', allometry=None,
                    iivsearch='7 base models (pheno with 2 etas; pheno + peripheral with 4 etas: diagonal, 2-block, 3-block, '
                              'full block, one omega fixed, block + fixed), keep = ' +
                              ('every subset of CL,VC,QP1,VP1' if thorough else 'subsets of size <= 1') +
                              ', index_offset in ' + ('{0,3,17}' if thorough else '{0,3}')),
        roundtrip=dict(statements='every table statement of kinds mode-list (6 categories, all lists and `*`), TRANSITS, '
                                  'PERIPHERALS (12 count shapes: single, range, gap list, descending), INDIRECTEFFECT, '
                                  'COVARIATE (6 parameter x 6 covariate x 5 effect shapes incl. @refs, `*`, +/*, ?), LET',
                       spaces=('5x4x4x5x5x4x4' if thorough else '3x2x2x3x3x3x2') + ' product of per-category table entries'),
        outside='MFL text as input (arbitrary strings; only text produced by stringify is parsed); expand(model) and '
                '@reference resolution (needs a model; pandas/sympy); covariate contain_subset/lnt (need a model); '
                'bu_stepwise_no_of_etas (runs fits inside the task); iiv_strategy other than no_add (applied at run time, '
                'not at build time); TRANSITS(n,NODEPOT) keys in stepwise searches (two undocumented exclusions in '
                '_is_allowed); count tuples in non-ascending order and lists with repeated options in the algebra; '
                'metabolite peripherals in contain_subset; the regions listed under findings; option lists longer than the '
                'tables above; more than 2 statements of a category per operand')
    run.assumptions = [
        'table indexes are fixed per path by bisection on the symbolic int (z3 decides each branch); once every index is a '
        'native int the real pharmpy call and the reference comparison run with CrossHair opcode tracing suspended '
        '(crosshair.tracers.NoTracing) — same result as traced execution on concrete data (harness C18_mfl/_roundtrip/_search)',
        'CrossHair optional short-circuiting of contract-carrying callees (its hash() wrapper) is disabled: callees are '
        'always executed (crosshair.core.consider_shortcircuit rebound in the harness process)',
        'stub: pharmpy.tools.mfl.parse.Lark rebound to a memoising constructor that builds the real lark LALR parser of '
        'the real grammar once with the same options but cache=False (lark\'s on-disk cache is a file side effect)',
        'reference option universes are the documented lists of docs/mfl.rst / grammar.py; wildcard effect list = '
        'LIN, PIECE_LIN, EXP, POW (docs/covsearch.rst "all continuous effects")',
        'stepwise reference rules are docs/modelsearch.rst (six excluded pairs, one feature per category, peripherals '
        'one at a time in increasing order); feature functions are the real ones from convert_to_funcs()',
        'iivsearch base models are built concretely with load_example_model/add_peripheral_compartment/add_pk_iiv/'
        'create_joint_distribution/fix_parameters at harness import',
    ]
    run_obligations(run, obs)
    # concrete companions (CrossHair neutralises functools.lru_cache while tracing): enumeration asked twice
    run_probes(run, [(Ob('partitions[n=3]', 'C18_sets.py', 'parts_ok', env=dict(VH_N=3)), 'parts_ok([1, 2, 3])'),
                     (Ob('partitions[n=4]', 'C18_sets.py', 'parts_ok', env=dict(VH_N=4)), 'parts_ok([3, 5, 7, 9])')])
    for o in obs[:4] + [x for x in obs if x.name.startswith('finding_')][:4] + obs[-3:]:
        run.sample(dict(obligation=o.name, harness=o.file, func=o.func, env=o.env))
    nfind = sum(1 for o in obs if o.name.startswith('finding_'))
    run.finish(coverage=dict(
        explanation='bounded symbolic execution (CrossHair 0.0.110 / z3) of the real pharmpy functions: each obligation is a '
                    'PEP316 contract `post: _ == True` over table indexes / symbolic ints; "discharged" = CrossHair '
                    'reported "Confirmed over all paths" (every path of the bounded input space explored, z3 deciding each '
                    'branch); a counterexample is replayed concretely in a fresh interpreter before it is reported. '
                    f'{nfind} obligations named finding_* cover exactly the regions excluded from the main obligations '
                    'where the unchanged tree deviates (see known_findings.json).',
        checker_cmd='crosshair check --report_all --per_condition_timeout T harness/C18_*.py:LINE'))


if __name__ == '__main__':
    main()
