"""C12 (partial) — serialisation round trips of the Expr-free model components.

CrossHair/z3 symbolic execution of the REAL to_dict/from_dict of Parameter, Parameters, ColumnInfo, DataInfo,
VariabilityLevel, VariabilityHierarchy, EstimationStep, SimulationStep, ExecutionSteps, LogEntry
(harness/C12_roundtrip.py, builders and stubs in harness/C06_build.py).  One `crosshair check` process per obligation;
VH_* environment variables pin shapes only (categories kind, tuple sizes, which option field ranges over its table).
"""
import sys

from vcommon import Run
from xhair import Ob, run_obligations, run_probes, replay_file

H = 'C12_roundtrip.py'


def obligations(thorough):
    T = 900 if thorough else 300
    base = dict(VH_STRLEN=4 if thorough else 3, VH_MAXN=3 if thorough else 2, VH_NU=4 if thorough else 2,
                VH_NK=3 if thorough else 2)
    obs = []

    def add(name, func, env=None, kind='prop', t=T):
        obs.append(Ob(name, H, func, t, kind=kind, env=dict(base, **(env or {}))))

    # in-memory round trip + JSON types + to_dict leaves x unchanged
    add('rt_Parameter', 'rt_Parameter')
    add('rt_Parameter_int', 'rt_Parameter_int')
    add('rt_Parameters', 'rt_Parameters')
    for optf in range(4):
        for cat in (0, 1, 2):
            if thorough or cat == 0 or optf == 0:
                add(f'rt_ColumnInfo[cat={cat},optf={optf}]', 'rt_ColumnInfo', dict(VH_CATK=cat, VH_OPTF=optf))
    for cat in (3, 4):
        add(f'rt_ColumnInfo[cat={cat}:mapping]', 'rt_ColumnInfo', dict(VH_CATK=cat, VH_OPTF=0))      # finding G1
    for optf in ((0, 1, 2, 3) if thorough else (0, 1)):
        add(f'rt_DataInfo[optf={optf}]', 'rt_DataInfo', dict(VH_OPTF=optf))
    add('rt_VariabilityLevel', 'rt_VariabilityLevel')
    add('rt_VariabilityHierarchy', 'rt_VariabilityHierarchy')
    shapes = ('0,0', '1,1', '1,2', '0,2') if thorough else ('0,0', '1,2')
    for shape in shapes:
        for optf in range(3):
            add(f'rt_EstimationStep[shape={shape},optf={optf}]', 'rt_EstimationStep', dict(VH_SHAPE=shape, VH_OPTF=optf))
    add('rt_SimulationStep', 'rt_SimulationStep')
    for optf in ((0, 1, 2) if thorough else (0,)):
        add(f'rt_ExecutionSteps[optf={optf}]', 'rt_ExecutionSteps', dict(VH_SHAPE='1,1', VH_OPTF=optf))
    add('rt_LogEntry', 'rt_LogEntry')
    # through JSON
    add('json_Parameter', 'json_Parameter')
    add('json_Parameters', 'json_Parameters')
    for optf in range(4):
        add(f'json_ColumnInfo[cat=0,optf={optf}]', 'json_ColumnInfo', dict(VH_CATK=0, VH_OPTF=optf))
    add('json_ColumnInfo[cat=1:tuple]', 'json_ColumnInfo', dict(VH_CATK=1, VH_OPTF=0))               # finding G2
    add('json_ColumnInfo[cat=3:mapping]', 'json_ColumnInfo', dict(VH_CATK=3, VH_OPTF=0))             # finding G1
    add('json_DataInfo', 'json_DataInfo')
    add('json_VariabilityLevel', 'json_VariabilityLevel')
    add('json_VariabilityHierarchy', 'json_VariabilityHierarchy')
    add('json_EstimationStep[shape=0,0]', 'json_EstimationStep', dict(VH_SHAPE='0,0'))               # finding G2
    add('json_SimulationStep', 'json_SimulationStep')
    add('json_ExecutionSteps[sim-only]', 'json_ExecutionSteps', dict(VH_SIMONLY=1, VH_SHAPE='0,0'))
    add('json_ExecutionSteps[with-estimation]', 'json_ExecutionSteps', dict(VH_SHAPE='0,0'))          # finding G2
    add('json_LogEntry', 'json_LogEntry')
    for f in ('jsonreal_Parameter', 'jsonreal_VariabilityHierarchy', 'jsonreal_SimulationStep', 'jsonreal_Log'):
        add(f, f)
    funcs = []
    for o in obs:
        if o.func not in funcs:
            funcs.append(o.func)
    for f in funcs:
        add(f'{f}__twin', f'{f}__twin', dict(VH_CATK=1 if f == 'rt_ColumnInfo' else 0, VH_SHAPE='1,1',
                                             VH_SIMONLY=0), kind='twin', t=120)
    heavy = ('rt_EstimationStep', 'jsonreal_Parameter', 'rt_ExecutionSteps', 'rt_DataInfo')
    obs.sort(key=lambda o: (o.kind == 'twin', 0 if o.func in heavy else 1))
    return obs, base


def main():
    if '--replay' in sys.argv:
        sys.exit(replay_file(sys.argv[sys.argv.index('--replay') + 1]))
    run = Run('C12', 'other')
    thorough = run.tier == 'thorough'
    obs, base = obligations(thorough)
    run.functions = [f'{c}.to_dict / {c}.from_dict' for c in (
        'Parameter', 'Parameters', 'ColumnInfo', 'DataInfo', 'VariabilityLevel', 'VariabilityHierarchy',
        'EstimationStep', 'SimulationStep', 'ExecutionSteps', 'LogEntry')] + [
        'ExecutionStep._add_to_dict / _adjust_dict', 'DataInfo._to_dict', 'the classes\' __eq__ (as the oracle)']
    run.bounds = dict(
        strings=f'every free string field: len <= {base["VH_STRLEN"]}, any characters, all independent',
        numbers='Parameter init/lower/upper: all IEEE-754 doubles incl. NaN init, +-inf, -0.0 (NaN bounds excluded: such '
                'a parameter is not equal to itself, C06 finding) and all integers; integer fields: all integers',
        flags='boolean fields symbolic; the five EstimationStep flags and the DataInfo column flags are functions of '
              'two symbolic booleans such that any two of them differ for some assignment',
        options='one enumerated option field at a time ranges over its complete table by a symbolic index '
                '(ColumnInfo type/scale/datatype/descriptor, EstimationStep method/parameter_uncertainty_method/solver '
                'incl. None), the others hold a fixed valid value; units from a '
                f'{base["VH_NU"]}-entry table; dict keys from a {base["VH_NK"]}-entry table',
        shapes=f'Parameters <= {base["VH_MAXN"]}, VariabilityHierarchy <= {base["VH_MAXN"] + 1}, DataInfo/ExecutionSteps '
               f'<= 2 elements; ColumnInfo.categories None / tuple of 1-2 / mapping of 1-2; residuals, predictions <= 1 '
               f'entry, tool_options <= 2 entries; derivatives empty; LogEntry time from a table of 6 datetimes '
               f'(microsecond 0 / non-0, year 1 / 9999, naive / aware)',
        json='symbolic paths use a structural model of json.loads(json.dumps(.)); failing paths are re-decided with '
             'the real json module; jsonreal_* run the real module on every path with strings <= 1 char over a 2-letter '
             'alphabet (quote, backslash, non-ASCII, newline), 8 special floats, small ints and 2**70',
        outside='stability of ModelHash across processes / PYTHONHASHSEED / construction order (sha256 over a JSON '
                'string is not a solver problem; a concrete companion probe runs one multi-compartment model in four '
                'interpreters with different hash seeds, nothing more is claimed); the generic model code '
                'round trip (parser); Expr-bearing components (Assignment, Compartment, CompartmentalSystem, '
                'distributions, RandomVariables, Statements, Model: symengine/sympy objects cannot be symbolic); '
                'DataFrame-valued fields; equality is the classes\' own __eq__ (e.g. DataInfo.__eq__ ignores path, '
                'separator, missing_data_token; ColumnInfo.__eq__ ignores descriptor), LogEntry (no __eq__) is compared '
                'field by field; Log: order and fields of <= 14 entries through the real json module (jsonreal_Log)')
    run.assumptions = [
        'structural model of the builtin hash inside pharmpy modules (Parameter.__eq__/Parameters.__eq__ compare hashes); '
        'failing paths re-decided with the builtin hash on realised objects',
        'np.isnan(x) := x != x; float() wrapper inside Parameter.create only in the reachability filter',
        'Unit(...)/Unit.deserialize inside pharmpy.model.datainfo looked up in a table computed by the real Unit code at import',
        'JSON model: json.loads(json.dumps(d)) == d with tuples turned into lists for JSON-typed d with str keys, TypeError '
        'for any other value type; compared with the real json module on concrete samples at harness import, on every '
        'failing path and on every path of the jsonreal_* obligations',
        'CrossHair float model forced to the exact IEEE-754 representation (z3 FP theory)',
        'objects are built with the plain constructors (superset of create()); a failing object counts only if create() '
        'reproduces its fields (SimulationStep: n >= 1; LogEntry: any)',
    ]
    run_obligations(run, obs)
    # concrete companion (sampling, not a solver verdict): the key does not depend on the interpreter process
    run_probes(run, [(Ob('hash_across_processes', 'C12_hashprobe.py', 'hash_across_processes', env={}),
                      'hash_across_processes(4)'),
                     (Ob('hash_distinguishes', 'C12_hashprobe.py', 'hash_distinguishes', env={}),
                      'hash_distinguishes(40)'),
                     (Ob('generic_roundtrip', 'C12_hashprobe.py', 'generic_roundtrip', env={}), 'generic_roundtrip()')])
    for o in obs[:12]:
        run.sample(dict(obligation=o.name, harness=o.file, func=o.func, env=o.env))
    run.finish(coverage=dict(explanation=(
        'Each obligation is a PEP316 contract (post: _ == True) on a harness function that builds one component from '
        'symbolic field values and runs the real to_dict/from_dict; CrossHair enumerates the paths and z3 decides each '
        'branch. rt_*: to_dict(x) is a dict made only of JSON types (str keys; list/tuple, str, int, float, bool, None), '
        'to_dict leaves every field of x the identical object, and from_dict(to_dict(x)) == x in both directions with '
        'the class\'s own __eq__. json_*: the same through JSON (d2 = loads(dumps(d)) equals d up to tuple->list and '
        'from_dict(d2) == x). Every function has a reachability twin refuted by a reachable object whose round trip '
        'yields a distinct equal object. Counterexamples are re-decided with the real json module / builtin hash and '
        'replayed concretely in a fresh interpreter before they are reported.'),
        checker_cmd='crosshair check --report_all --per_condition_timeout T harness/C12_roundtrip.py:LINE'))


if __name__ == '__main__':
    main()
